#!/usr/bin/env python3
"""Regenerates MANIFEST.json from tools/props.py + tools/manifest_text.py (kept valid at all times)."""
import json, os, sys
ROOT = os.path.dirname(os.path.dirname(os.path.abspath(__file__)))
sys.path.insert(0, os.path.join(ROOT, "tools"))
from props import PROPS
from manifest_text import TEXT, NOT_APPLICABLE

ALL = [f"C{i:02d}" for i in range(1, 18)]
checks = []
for pid in ALL:
    if pid not in PROPS or pid not in TEXT:
        continue
    t = dict(TEXT[pid])
    tables = set(PROPS[pid].get("tables", []))
    for part in PROPS[pid].get("also", []):
        tables |= set(PROPS[part].get("tables", []))
    if "T0" in tables:
        t["level"] += (" Table tie (Props/Tie.v, part of this check): the format tables the theorems are stated over are regenerated from the source text AND from the constants as compiled "
                       "(nvh dump-formats); obligations: every keyword field and copulas() as read = as compiled, the character predicates as read = the compiled functions on every char "
                       "(Proofs/RangesP.v), the model's dictionary construction = the entries and iteration order of the real nar_dev_utils dictionaries.")
        t["note"] += " Second source of the data tables: harness/src/dumpfmt.rs + rustc (cross-check and fall-back of T1/T2/T2v, DESIGN 9.8)."
    if "T2d" in tables:
        t["level"] += (" Documented vocabulary (Props/TieDoc.v): every lexical dictionary entry whose same-line comment names its constructor equals the enum table's keyword of that constructor; "
                       "a disagreement is searched on the real code (harness/src/docvocab.rs: the smallest text using the documented keyword, both pipelines).")
    checks.append({
        "property_id": pid,
        "quick_cmd": f"./check {pid} --tier quick",
        "thorough_cmd": f"./check {pid} --tier thorough",
        "evidence_file": f"/verif/evidence/{pid}.json",
        "replay_cmd_template": f"./check {pid} --replay {{path}}",
        "engine": "coq-model+correspondence",
        "level_claimed": {"category": "proof", "text": t["level"], "design_ref": t.get("design_ref", "DESIGN.md section 4")},
        "level_note": t["note"],
        "technique": t["technique"],
    })
na = [{"property_id": p, "reason": NOT_APPLICABLE[p]} for p in ALL if p not in {c["property_id"] for c in checks}]
m = {
    "version": 1,
    "setup_cmd": "./check --setup",
    "hooks": {
        "guard": "--cfg narsese_verif",
        "enable": "RUSTFLAGS=\"--cfg narsese_verif\" (set by ./check when it builds the harness against /repo); no hook code was needed: every observation goes through the public API",
        "baseline_off_cmd": "cd /repo && cargo test --workspace --no-fail-fast --offline",
        "source_commits": [],
        "add_only": True,
    },
    "engines": [{
        "name": "coq-model+correspondence",
        "path": "/verif/check",
        "serves_properties": [c["property_id"] for c in checks],
        "kind_free_text": "Coq 8.16 theorems about a Gallina model (coq/), tables regenerated from /repo by tools/translate.py on every run, hand-written control logic tied by a differential correspondence check (Rust harness + vm_compute)",
    }],
    "checks": checks,
    "not_applicable": na,
    "notes": "Technique: machine-checked proof in Coq 8.16. See DESIGN.md. known_findings.txt lists recorded findings and fixed defects.",
}
json.dump(m, open(os.path.join(ROOT, "MANIFEST.json"), "w"), indent=1, ensure_ascii=False)
print(f"MANIFEST.json: {len(checks)} checks, {len(na)} not_applicable")
