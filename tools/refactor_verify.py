#!/usr/bin/env python3
"""False-alarm measurement: run checks against a BEHAVIOUR-PRESERVING change.

  tools/refactor_verify.py <name> <candidate-dir> <C01,C04,...>

Applies patch.diff in a scratch worktree of /repo, confirms that the suite passes, runs the listed
checks with VERIF_REPO=<scratch> and records which of them raise an alarm (any alarm here is a false
alarm in the sense of the brief: a broken obligation without a property failure must end
`no-failing-input-found`).  Result: /verif/seeded/refactors/<name>.json"""
import json
import os
import re
import subprocess
import sys
import time

ROOT = os.path.dirname(os.path.dirname(os.path.abspath(__file__)))
# SEEDVERIFY_WT: scratch worktree of /repo (one per concurrent user)
WT = os.environ.get("SEEDVERIFY_WT", "/tmp/seedverify-wt")
ENV = dict(os.environ, CARGO_NET_OFFLINE="true", CARGO_TARGET_DIR=(WT + "-target" if "SEEDVERIFY_WT" in os.environ else "/tmp/seedverify-target"))


def sh(cmd, cwd=None, env=None, timeout=3000):
    p = subprocess.run(cmd, shell=True, cwd=cwd, env=env or ENV, stdout=subprocess.PIPE, stderr=subprocess.STDOUT, timeout=timeout)
    return p.returncode, p.stdout.decode("utf-8", "replace")


def main():
    name, cand, props = sys.argv[1], sys.argv[2], sys.argv[3].split(",")
    if not os.path.isdir(WT):
        sh(f"git -C /repo worktree add --detach {WT} HEAD")
    sh("git checkout -q --detach $(git -C /repo rev-parse HEAD) && git checkout -- . && git clean -fdq", cwd=WT)
    rc, out = sh(f"git apply {os.path.join(cand, 'patch.diff')}", cwd=WT)
    meta = {"name": name, "applied": rc == 0, "notes": open(os.path.join(cand, "notes.txt")).read()[:1500] if os.path.exists(os.path.join(cand, "notes.txt")) else "", "checks": {}}
    rc, out = sh("cargo test --offline 2>&1 | grep -E '^test result|error' | head", cwd=WT)
    meta["suite_passes"] = bool(re.search(r"test result: ok\. 157 passed", out))
    env = dict(os.environ, VERIF_REPO=WT)
    for p in props:
        t0 = time.time()
        rc, out = sh(f"./check {p} --tier quick", cwd=ROOT, env=env)
        lines = [l[:300] for l in out.split("\n") if l.startswith(("VIOLATION", "BROKEN"))]
        meta["checks"][p] = {"exit": rc, "alarm": rc != 0, "no_failing_input": any("no-failing-input-found" in l for l in lines), "lines": lines[:6], "wall_s": round(time.time() - t0, 1)}
    sh("git checkout -- . && git clean -fdq", cwd=WT)
    os.makedirs(os.path.join(ROOT, "seeded", "refactors"), exist_ok=True)
    json.dump(meta, open(os.path.join(ROOT, "seeded", "refactors", name + ".json"), "w"), indent=1, ensure_ascii=False)
    print(name, "suite", meta["suite_passes"], {p: ("ALARM" + ("(nfi)" if c["no_failing_input"] else "(WITH FAILING INPUT)") if c["alarm"] else "quiet") for p, c in meta["checks"].items()})
    for p, c in meta["checks"].items():
        for l in c["lines"][:2]:
            print("    ", p, l[:220])


if __name__ == "__main__":
    main()
