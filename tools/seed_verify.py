#!/usr/bin/env python3
"""Confirm a seeded change and run the checks against it.

  tools/seed_verify.py <PROP> <candidate-dir> <name> [--props C01,C04 ...]

candidate-dir holds patch.diff, demo.rs (integration test), notes.txt.  Steps, all in a scratch
worktree of /repo under /tmp (never in /repo itself):
  1. pristine: demo passes;  2. patched: compiles, the existing suite passes, demo fails;
  3. ./check <prop> (quick) with VERIF_REPO=<scratch> must exit 1 with a VIOLATION line.
Result is stored as /verif/seeded/<name>/{patch.diff,demo.rs,notes.txt,meta.json}.
"""
import json
import os
import re
import shutil
import subprocess
import sys
import time

ROOT = os.path.dirname(os.path.dirname(os.path.abspath(__file__)))
# SEEDVERIFY_WT: scratch worktree of /repo (one per concurrent user)
WT = os.environ.get("SEEDVERIFY_WT", "/tmp/seedverify-wt")
ENV = dict(os.environ, CARGO_NET_OFFLINE="true", CARGO_TARGET_DIR=(WT + "-target" if "SEEDVERIFY_WT" in os.environ else "/tmp/seedverify-target"))


def sh(cmd, cwd=None, env=None, timeout=3000):
    p = subprocess.run(cmd, shell=True, cwd=cwd, env=env or ENV, stdout=subprocess.PIPE, stderr=subprocess.STDOUT, timeout=timeout)
    return p.returncode, p.stdout.decode("utf-8", "replace")


def reset_wt():
    if not os.path.isdir(WT):
        rc, out = sh(f"git -C /repo worktree add --detach {WT} HEAD")
        assert rc == 0, out
    sh("git checkout -q --detach $(git -C /repo rev-parse HEAD) && git checkout -- . && git clean -fdq", cwd=WT)


def main():
    prop, cand, name = sys.argv[1], sys.argv[2], sys.argv[3]
    props = [prop]
    if "--props" in sys.argv:
        props = sys.argv[sys.argv.index("--props") + 1].split(",")
    meta = {"property": prop, "name": name, "candidate": cand, "ran": [], "checks": {}}
    notes = open(os.path.join(cand, "notes.txt")).read() if os.path.exists(os.path.join(cand, "notes.txt")) else ""
    meta["needs_to_manifest"] = notes
    reset_wt()
    os.makedirs(os.path.join(WT, "tests"), exist_ok=True)
    shutil.copy(os.path.join(cand, "demo.rs"), os.path.join(WT, "tests", "demo.rs"))
    rc, out = sh("cargo test --offline --test demo 2>&1 | tail -15", cwd=WT)
    ok_pristine = "test result: ok" in out
    meta["ran"].append({"cmd": "pristine: cargo test --offline --test demo", "passes": ok_pristine})
    rc, out = sh(f"git apply {os.path.join(cand, 'patch.diff')}", cwd=WT)
    meta["ran"].append({"cmd": "git apply patch.diff", "rc": rc, "out": out[-300:]})
    applied = rc == 0
    os.remove(os.path.join(WT, "tests", "demo.rs"))
    rc, out = sh("cargo test --offline 2>&1 | grep -E '^test result|error' | head", cwd=WT)
    suite_ok = bool(re.search(r"test result: ok\. 157 passed", out)) and "FAILED" not in out
    meta["ran"].append({"cmd": "patched: cargo test --offline", "out": out.strip(), "suite_passes": suite_ok})
    shutil.copy(os.path.join(cand, "demo.rs"), os.path.join(WT, "tests", "demo.rs"))
    rc, out = sh("cargo test --offline --test demo 2>&1 | tail -15", cwd=WT)
    # a demo that aborts the test process (SIGABRT / SIGSEGV) also counts as failing
    demo_fails = "test result: FAILED" in out or "signal:" in out or "SIGABRT" in out or "SIGSEGV" in out or "process didn't exit successfully" in out
    meta["ran"].append({"cmd": "patched: cargo test --offline --test demo", "fails": demo_fails, "out": out[-600:]})
    os.remove(os.path.join(WT, "tests", "demo.rs"))
    try:
        os.rmdir(os.path.join(WT, "tests"))
    except OSError:
        pass
    meta["confirmed"] = bool(ok_pristine and applied and suite_ok and demo_fails)
    if meta["confirmed"]:
        env = dict(os.environ, VERIF_REPO=WT)
        for p in props:
            t0 = time.time()
            rc, out = sh(f"./check {p} --tier quick", cwd=ROOT, env=env, timeout=3000)
            lines = [l for l in out.split("\n") if l.startswith(("VIOLATION", "BROKEN", "KNOWN-FINDING", p + " ["))]
            meta["checks"][p] = {"exit": rc, "detected": rc == 1 and any(l.startswith("VIOLATION") for l in lines),
                                 "lines": [l[:400] for l in lines][:12], "wall_s": round(time.time() - t0, 1)}
            # the replay that was written
            m = re.search(r"replay=(\S+)", out)
            if m and os.path.exists(m.group(1)):
                rp = json.load(open(m.group(1)))
                f = rp.get("failure") or {}
                meta["checks"][p]["replay_summary"] = {"kind": rp.get("kind"), "what": f.get("what"), "input": (f.get("input") or "")[:300], "broken": [b[:300] for b in rp.get("broken_obligations", rp.get("broken", []))][:5]}
    reset_wt()
    dst = os.path.join(ROOT, "seeded", name)
    os.makedirs(dst, exist_ok=True)
    for f in ("patch.diff", "demo.rs", "notes.txt"):
        if os.path.exists(os.path.join(cand, f)):
            shutil.copy(os.path.join(cand, f), os.path.join(dst, f))
    json.dump(meta, open(os.path.join(dst, "meta.json"), "w"), indent=1, ensure_ascii=False)
    print(name, "confirmed" if meta["confirmed"] else "NOT-CONFIRMED", {p: (c["detected"], c["wall_s"]) for p, c in meta["checks"].items()})
    for p, c in meta["checks"].items():
        for l in c["lines"][:4]:
            print("   ", l[:300])


if __name__ == "__main__":
    main()
