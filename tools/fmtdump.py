"""The shipped format instances AS COMPILED (`nvh dump-formats`, harness/src/dumpfmt.rs) as a second source of the
translator's pure data tables T1 (enum formats), T2 (lexical formats) and T2v (lexical vocabulary).

 * cross-check: whenever the source text is read successfully AND a dump is present, the two must describe the same
   tables (strings field by field; `fn(char) -> bool` fields on every Unicode scalar value, by range arithmetic).  A
   difference is a hard translator failure -- the translator misread the source, or the source computes its constants in a
   way the translator does not follow.
 * fall-back: when the source is written in a shape the translator does not recognise (constants split into named parts,
   dictionaries hoisted into locals, a renamed parameter ...) the tables are taken from the dump instead.  They are then
   "regenerated from the source" through rustc rather than through tools/rustlex.py; the trusted base grows by
   dumpfmt.rs (field-by-field reads, compile-checked against the struct definitions) and shrinks by the token matcher.
 * Gen/FormatsDump.v: the dump as Coq data, for the obligations in Props/Tie.v (the model's dictionary construction
   applied to the source-order literals yields exactly the iteration order of the real dictionaries, ...).
"""
import json

SURR = (0xD800, 0xDFFF)
MAXC = 0x10FFFF


def S(a):
    return "".join(map(chr, a))


def load(path):
    try:
        return json.load(open(path))
    except (OSError, ValueError):
        return None


# ---- range arithmetic over Unicode scalar values -------------------------------------------------------------

def norm(ranges):
    """sorted, disjoint, coalesced, surrogates removed"""
    out = []
    for lo, hi in sorted((int(a), int(b)) for a, b in ranges if a <= b):
        # cut the surrogate block out
        pieces = []
        if hi < SURR[0] or lo > SURR[1]:
            pieces.append((lo, hi))
        else:
            if lo < SURR[0]:
                pieces.append((lo, SURR[0] - 1))
            if hi > SURR[1]:
                pieces.append((SURR[1] + 1, hi))
        for a, b in pieces:
            if out and a <= out[-1][1] + 1:
                out[-1] = (out[-1][0], max(out[-1][1], b))
            else:
                out.append((a, b))
    # coalesce across the surrogate gap?  no: D7FF and E000 are not adjacent scalar values for range purposes
    return out


def member(ranges, c):
    lo, hi = 0, len(ranges) - 1
    while lo <= hi:
        m = (lo + hi) // 2
        a, b = ranges[m]
        if c < a:
            hi = m - 1
        elif c > b:
            lo = m + 1
        else:
            return True
    return False


def first_difference(r1, r2):
    """smallest scalar value on which two normalised range sets differ, or None"""
    pts = sorted({a for a, _ in r1} | {b + 1 for _, b in r1} | {a for a, _ in r2} | {b + 1 for _, b in r2})
    for p in pts:
        if p > MAXC or SURR[0] <= p <= SURR[1]:
            continue
        if member(r1, p) != member(r2, p):
            return p
    return None


def name_spec_ranges(spec, alnum):
    uses_alnum, extra, thr = spec
    rs = list(alnum) if uses_alnum else []
    rs += [(c, c) for c in extra]
    if thr is not None and thr < MAXC:
        rs.append((thr + 1, MAXC))
    return norm(rs)


def class_ranges(cls):
    ranges, chars = cls
    return norm(list(ranges) + [(c, c) for c in chars])


def derive_name_spec(valid, alnum, prefer=None):
    """a name_char_spec (uses_alnum, extra, thr) denoting exactly `valid`; None when there is none with <= 64 extras.
    `prefer`: the spelling to keep when it already denotes `valid` (stable output)"""
    valid, alnum = norm(valid), norm(alnum)
    if prefer is not None and first_difference(name_spec_ranges(prefer, alnum), valid) is None:
        return prefer
    thr = None
    if valid and valid[-1][1] == MAXC and valid[-1][0] > 0:
        thr = valid[-1][0] - 1
    for uses_alnum in (True, False):
        base = name_spec_ranges((uses_alnum, [], thr), alnum)
        # valid must contain base; extras = valid - base
        extra = []
        ok = True
        for a, b in valid:
            c = a
            while c <= b and ok:
                if member(base, c):
                    # skip to the end of the base range containing c
                    for x, y in base:
                        if x <= c <= y:
                            c = y + 1
                            break
                else:
                    extra.append(c)
                    c += 1
                    if len(extra) > 64:
                        ok = False
        if ok and first_difference(name_spec_ranges((uses_alnum, extra, thr), alnum), valid) is None:
            return (uses_alnum, sorted(extra, reverse=True), thr)
    return None


def derive_class(valid):
    valid = norm(valid)
    if len(valid) > 64:
        return None
    return ([(a, b) for a, b in valid if b > a], [a for a, b in valid if a == b])


# ---- T1 ------------------------------------------------------------------------------------------------------------

ENUM_CONSTS = ("FORMAT_ASCII", "FORMAT_LATEX", "FORMAT_HAN")


def t1_from_dump(d, fields, prefer_spec=None):
    """-> data dict in the shape of translate.t1_read_source"""
    alnum = norm(d["alnum"])
    valids = [norm(d["enum"][c]["is_valid_atom_name"]) for c in ENUM_CONSTS]
    if any(first_difference(valids[0], v) is not None for v in valids[1:]):
        raise ValueError("the three enum formats no longer share one is_valid_atom_name (the model record has one spec per file)")
    spec = derive_name_spec(valids[0], alnum, prefer_spec)
    if spec is None:
        raise ValueError("is_valid_atom_name (as compiled) is not `[is_alphanumeric ||] c == x .. [|| c > t]` with at most 64 single characters")
    formats = {}
    cops = None
    for c in ENUM_CONSTS:
        fl = {k: S(v) for k, v in d["enum"][c]["fields"].items()}
        if set(fl) != set(fields):
            raise ValueError(f"dump of enum {c}: field set differs from the model record")
        formats[c] = fl
        # copulas(): which field does each position hold?
        cop_fields = [f for f in fields if f.startswith("statement_copula_")]
        by_val = {}
        for f in cop_fields:
            by_val.setdefault(fl[f], []).append(f)
        mine = []
        for s in d["enum"][c]["copulas"]:
            cands = by_val.get(S(s), [])
            mine.append(cands)
        if cops is None:
            cops = mine
        else:
            if len(cops) != len(mine):
                raise ValueError("copulas() has different lengths in different formats")
            cops = [[f for f in a if f in b] for a, b in zip(cops, mine)]
    if any(len(c) != 1 for c in cops):
        raise ValueError("copulas() (as compiled): a position is not one and the same copula field in all three formats: " + repr(cops))
    return {"spec": spec, "formats": formats, "copulas": [c[0] for c in cops]}


def t1_crosscheck(src, d, fields):
    """differences between the tables read from the source text and the compiled constants (list of strings)"""
    diffs = []
    alnum = norm(d["alnum"])
    for c in ENUM_CONSTS:
        fl = d["enum"][c]["fields"]
        for f in fields:
            if S(fl[f]) != src["formats"][c][f]:
                diffs.append(f"enum {c}.{f}: source text reads {src['formats'][c][f]!r}, the compiled constant is {S(fl[f])!r}")
        p = first_difference(name_spec_ranges(src["spec"], alnum), norm(d["enum"][c]["is_valid_atom_name"]))
        if p is not None:
            diffs.append(f"enum {c}.is_valid_atom_name: source reading and compiled function differ on U+{p:04X}")
        want = [src["formats"][c][f] for f in src["copulas"]]
        got = [S(s) for s in d["enum"][c]["copulas"]]
        if want != got:
            diffs.append(f"enum {c}.copulas(): source reading gives {want}, the compiled function returns {got}")
    return diffs


# ---- T2 / T2v ------------------------------------------------------------------------------------------------------

LEX_CONSTS = (("FORMAT_ASCII", "LEX_ASCII"), ("FORMAT_LATEX", "LEX_LATEX"), ("FORMAT_HAN", "LEX_HAN"))


def t2_from_dump(d, prefer_spec=None):
    """-> {"spec": ..., "formats": {coqname: {"rm": bool, "vals": {...}, "classes": {...}}}}; dictionaries in ITERATION order
    (the model re-builds the dictionary from them; building from an already built dictionary's entries is the identity,
    which Props/Tie.v re-checks)"""
    alnum = norm(d["alnum"])
    white = norm(d["whitespace"])
    idents = [norm(d["lexical"][c]["is_identifier"]) for c, _ in LEX_CONSTS]
    if any(first_difference(idents[0], v) is not None for v in idents[1:]):
        raise ValueError("the three lexical formats no longer share one is_identifier")
    spec = derive_name_spec(idents[0], alnum, prefer_spec)
    if spec is None:
        raise ValueError("is_identifier (as compiled) is not expressible as a name_char_spec")
    out = {}
    for c, coqname in LEX_CONSTS:
        L = d["lexical"][c]
        if first_difference(norm(L["is_for_parse"]), white) is not None:
            raise ValueError(f"lexical {c}.space.is_for_parse (as compiled) is not char::is_whitespace")
        pair = lambda p: (S(p[0]), S(p[1]))
        vals = {
            "l_format_terms": S(L["format_terms"]), "l_format_items": S(L["format_items"]),
            "l_prefixes_raw": [S(x) for x in L["prefixes"]],
            "l_set_brackets_raw": [pair(p) for p in L["set_brackets_by_prefix"]],
            "l_compound_brackets": pair(L["compound_brackets"]), "l_separator": S(L["separator"]),
            "l_connecters_raw": [S(x) for x in L["connecters"]],
            "l_statement_brackets": pair(L["statement_brackets"]),
            "l_copulas_raw": [S(x) for x in L["copulas"]],
            "l_punctuations_raw": [S(x) for x in L["punctuations"]],
            "l_truth_brackets": pair(L["truth_brackets"]), "l_truth_separator": S(L["truth_separator"]),
            "l_stamp_brackets_raw": [pair(p) for p in L["stamp_brackets"]],
            "l_budget_brackets": pair(L["budget_brackets"]), "l_budget_separator": S(L["budget_separator"]),
        }
        classes = {}
        for f in ("is_stamp_content", "is_truth_content", "is_budget_content"):
            k = derive_class(L[f])
            if k is None:
                raise ValueError(f"lexical {c}.{f} (as compiled) has more than 64 ranges")
            classes[f] = k
        out[coqname] = {"rm": bool(L["remove_spaces_before_parse"]), "vals": vals, "classes": classes}
    return {"spec": spec, "formats": out}


def t2_crosscheck(src, d):
    """strings, pairs, flags and character predicates; dictionaries as SETS (their order is the subject of Props/Tie.v)"""
    diffs = []
    alnum = norm(d["alnum"])
    for c, coqname in LEX_CONSTS:
        L = d["lexical"][c]
        s = src["formats"][coqname]
        if bool(L["remove_spaces_before_parse"]) != s["rm"]:
            diffs.append(f"lexical {c}.remove_spaces_before_parse")
        pair = lambda p: (S(p[0]), S(p[1]))
        for k, dk, conv in (("l_format_terms", "format_terms", S), ("l_format_items", "format_items", S),
                            ("l_compound_brackets", "compound_brackets", pair), ("l_separator", "separator", S),
                            ("l_statement_brackets", "statement_brackets", pair), ("l_truth_brackets", "truth_brackets", pair),
                            ("l_truth_separator", "truth_separator", S), ("l_budget_brackets", "budget_brackets", pair),
                            ("l_budget_separator", "budget_separator", S)):
            if conv(L[dk]) != s["vals"][k]:
                diffs.append(f"lexical {c}.{dk}: source text reads {s['vals'][k]!r}, the compiled value is {conv(L[dk])!r}")
        for k, dk in (("l_prefixes_raw", "prefixes"), ("l_connecters_raw", "connecters"), ("l_copulas_raw", "copulas"), ("l_punctuations_raw", "punctuations")):
            if {S(x) for x in L[dk]} != set(s["vals"][k]):
                diffs.append(f"lexical {c}.{dk}: source text lists {sorted(set(s['vals'][k]))}, the compiled dictionary holds {sorted(S(x) for x in L[dk])}")
        for k, dk in (("l_set_brackets_raw", "set_brackets_by_prefix"), ("l_stamp_brackets_raw", "stamp_brackets")):
            if not {pair(p) for p in L[dk]} <= set(s["vals"][k]):
                diffs.append(f"lexical {c}.{dk}: the compiled dictionary holds an entry the source text does not list")
        p = first_difference(name_spec_ranges(src["spec"], alnum), norm(L["is_identifier"]))
        if p is not None:
            diffs.append(f"lexical {c}.is_identifier: source reading and compiled function differ on U+{p:04X}")
        for f in ("is_stamp_content", "is_truth_content", "is_budget_content"):
            p = first_difference(class_ranges(s["classes"][f]), norm(L[f]))
            if p is not None:
                diffs.append(f"lexical {c}.{f}: source reading and compiled function differ on U+{p:04X}")
    return diffs


# ---- Gen/FormatsDump.v ----------------------------------------------------------------------------------------------

def coq_str(s):
    return "[" + "; ".join(str(ord(ch)) for ch in s) + "]%N" if s else "[]"


def gen_dump_v(d, fields):
    cl = lambda xs: "[" + "; ".join(coq_str(S(x)) for x in xs) + "]"
    cpl = lambda ps: "[" + "; ".join(f"({coq_str(S(a))}, {coq_str(S(b))})" for a, b in ps) + "]"
    rl = lambda rs: "[" + "; ".join(f"({a},{b})" for a, b in rs) + "]"
    parts = ["(* GENERATED by tools/translate.py from the COMPILED library (nvh dump-formats, harness/src/dumpfmt.rs) -- do not edit *)",
             "From Nv Require Import Base.Str.\nOpen Scope N_scope.\n",
             "(* what the lazy_static lexical instances hold, in the order the library iterates each dictionary *)",
             "Record lexdump := {",
             "  d_prefixes : list str; d_set_brackets_by_prefix : list (str * str); d_set_brackets_by_suffix : list (str * str);",
             "  d_connecters : list str; d_copulas : list str; d_punctuations : list str; d_stamp_brackets : list (str * str);",
             "  d_is_identifier : list (N * N); d_is_truth_content : list (N * N); d_is_stamp_content : list (N * N); d_is_budget_content : list (N * N) }.\n"]
    for c, coqname in LEX_CONSTS:
        L = d["lexical"][c]
        parts.append(f"Definition DUMP_{coqname} : lexdump := {{|\n"
                     f"  d_prefixes := {cl(L['prefixes'])};\n"
                     f"  d_set_brackets_by_prefix := {cpl(L['set_brackets_by_prefix'])};\n"
                     f"  d_set_brackets_by_suffix := {cpl(L['set_brackets_by_suffix'])};\n"
                     f"  d_connecters := {cl(L['connecters'])};\n"
                     f"  d_copulas := {cl(L['copulas'])};\n"
                     f"  d_punctuations := {cl(L['punctuations'])};\n"
                     f"  d_stamp_brackets := {cpl(L['stamp_brackets'])};\n"
                     f"  d_is_identifier := {rl(norm(L['is_identifier']))};\n"
                     f"  d_is_truth_content := {rl(norm(L['is_truth_content']))};\n"
                     f"  d_is_stamp_content := {rl(norm(L['is_stamp_content']))};\n"
                     f"  d_is_budget_content := {rl(norm(L['is_budget_content']))}\n|}}.\n")
    parts.append("Definition shipped_lex_dumps : list lexdump := [" + "; ".join(f"DUMP_{n}" for _, n in LEX_CONSTS) + "].\n")
    parts.append("(* the enum format constants: the keyword fields in the order of the model record, the array copulas() returns,\n   and is_valid_atom_name on all of Unicode *)")
    parts.append("Record enumdump := { e_fields : list str; e_copulas : list str; e_is_valid_atom_name : list (N * N) }.\n")
    for c in ENUM_CONSTS:
        E = d["enum"][c]
        parts.append(f"Definition DUMP_ENUM_{c} : enumdump := {{|\n"
                     f"  e_fields := {cl([E['fields'][f] for f in fields])};\n"
                     f"  e_copulas := {cl(E['copulas'])};\n"
                     f"  e_is_valid_atom_name := {rl(norm(E['is_valid_atom_name']))}\n|}}.\n")
    parts.append("Definition shipped_enum_dumps : list enumdump := [" + "; ".join(f"DUMP_ENUM_{c}" for c in ENUM_CONSTS) + "].\n")
    return "\n".join(parts)
