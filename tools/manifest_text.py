"""Texts of MANIFEST.json per property (level claimed, note, technique)."""
TEXT = {
    "C13": {
        "level": "Theorems in Coq (Props/C13.v) about the model Model/Number.v on Flocq binary64, for ALL f64 bit patterns and all arities: the range test is exactly 'finite and 0<=x<=1' (C13_in01_spec), try_from_floats succeeds iff the consumed prefix is in range and stores exactly that prefix, the panicking constructors panic iff the fallible ones return Err, accessors return stored bits and panic exactly on absent components, is_valid/try_validate/validate agree; root validity is proved from an explicit powf contract (partial: the contract is assumed and sampled). The model is tied to the code by a correspondence check on raw bit patterns (exhaustive boundary set x arities 0..2, random beyond) evaluated inside Coq.",
        "note": "Trusted: Coq kernel, Flocq binary64 as the meaning of f64, stdlib classical-reals axioms (sig_forall_dec, sig_not_dec, functional_extensionality_dep, classic) under B2R, the hand-written model (tied by the correspondence check), nar_dev_utils is_in_01 modelled from its source, powf contract assumed.",
        "technique": "Coq proof over Flocq binary64 model + differential correspondence on bit patterns",
        "design_ref": "DESIGN.md section 4 C13",
    },
    "C14": {
        "level": "Theorems in Coq (Props/C14.v) for EVERY term of the model (all 30 constructors through the regenerated constructor enumerations, any nesting, any image index): consuming extraction equals the borrowing accessor with placeholder (same list; for sets the list is the iteration order), the placeholder sits at its recorded index and is absent from the placeholder-free accessor, extraction panics exactly for index > length, atom/compound/statement partition, capacity class vs component count and ordered/unordered nature (read off the regenerated eq/hash tables), lexical extraction and categories. Table side-conditions (access_tables_ok) are re-proved by computation whenever translate.py regenerates the tables from term/impls.rs. Correspondence: every constructor x every image index 0..n+1 (n<=4) exhaustively plus random nested terms, model evaluated in Coq vs real accessors; the property itself is also evaluated on the real code incl. lexical-vs-fold category agreement.",
        "note": "Trusted: Coq kernel; translator T4; hand-written Access.v tied by correspondence; HashSet modelled as list in iteration order. 'category(x) = category(fold(x))' for lexical terms is checked on the real code and will become a theorem with the fold model (C03).",
        "technique": "Coq proof by structural induction + regenerated tables + differential correspondence",
        "design_ref": "DESIGN.md section 4 C14",
    },
    "C17": {
        "level": "Theorems in Coq (Props/C17.v) for every term, every string and every component list: set_atom_name replaces the name of the five named atom kinds and get_atom_name reports it back verbatim; on an interval it succeeds exactly when the name is [+]digits with value <= 2^64-1 (read_usize, proved against Coq's Decimal library: read_usize_spec) and stores that value; placeholder: Ok, unchanged; compounds/statements: Err, unchanged; push_components appends in order to ordered compounds (image index untouched), unites into sets (membership = old or new; old elements kept as a prefix), fails without modification for fixed-arity terms. Table side-conditions (mutate_tables_ok) re-proved by computation on every regeneration. Correspondence: every constructor x adversarial name pool x component lists.",
        "note": "Trusted: Coq kernel; translator T4; Rust usize::from_str re-implemented (Dec.v) and differentially checked; HashSet::extend modelled as repeated insert.",
        "technique": "Coq proof + regenerated tables + differential correspondence",
        "design_ref": "DESIGN.md section 4 C17",
    },
    "C06": {
        "level": "Theorems in Coq (Props/C06.v) for ALL pairs of terms satisfying the representation invariant of hash sets (set_ok): term_eqb (model of `impl PartialEq`, driven by eq kinds regenerated from the source) holds exactly when the independent inductive specification sem_eq does (same constructor, equal names/numbers, ordered parts pairwise, set parts mutually included, symmetric statements either way) at every nesting depth; it is reflexive, symmetric and transitive; it is invariant under any permutation of every set payload on both sides (C06_order_stable: any construction history / hasher seed) and under insertion order and duplicates of repeated insert (C06_mk_set_ok, C06_dup_stable). Table obligation eq_tables_ok is re-proved by computation on every regeneration. Correspondence: pairs built along different insertion orders with duplicates in fresh HashSets, perturbed pairs, two parses of the same string; real == vs term_eqb, set_ok of every implementation value; the property itself (canonical-form reference, symmetry, stability under rebuilding) on the real code.",
        "note": "Trusted: Coq kernel; translator T4; HashSet as a mathematical set for lawful Hash/Eq (lawfulness of Term's Hash is C07); hand-written skeleton tied by correspondence.",
        "technique": "Coq proof (sound+complete wrt inductive spec, equivalence, permutation invariance) + regenerated eq table + differential correspondence",
        "design_ref": "DESIGN.md section 4 C06",
    },
    "C07": {
        "level": "Theorems in Coq (Props/C07.v): for EVERY function fixed_hash and all set_ok terms a, b: term_eqb a b = true implies the write streams term_feed a and term_feed b are identical (C07_eq_feed), hence equal hashes under any hasher (C07_eq_hash) and successful lookup of an equal key (C07_set_lookup). The table obligation hash_respects_eq (set constructors and symmetric statements hash order-independently) is re-proved by computation on every regeneration from `impl Hash for Term` -- on the pre-fix tree it is false. Correspondence: the real write stream captured by a recording Hasher vs term_feed with an oracle of real DefaultHasher values; on the real code: equal pairs under fresh RandomStates, HashSet::contains, HashMap::get.",
        "note": "Trusted: Coq kernel; translator T4 (hash arms, helper bodies verbatim); std Hash impls of String/usize as recorded; wrapping u64 addition modelled as addition mod 2^64.",
        "technique": "Coq proof over abstract hasher + regenerated hash table + recorded-write-stream correspondence",
        "design_ref": "DESIGN.md section 4 C07",
    },
}
PENDING = "check not built yet in this session; the property is within reach of the technique (see DESIGN.md section 4) and will be claimed once its model, theorems and correspondence stream exist"
NOT_APPLICABLE = {f"C{i:02d}": PENDING for i in range(1, 18)}
