"""Texts of MANIFEST.json per property (level claimed, note, technique)."""
TEXT = {
    "C13": {
        "level": "Theorems in Coq (Props/C13.v) about the model Model/Number.v on Flocq binary64, for ALL f64 bit patterns and all arities: the range test is exactly 'finite and 0<=x<=1' (C13_in01_spec), try_from_floats succeeds iff the consumed prefix is in range and stores exactly that prefix, the panicking constructors panic iff the fallible ones return Err, accessors return stored bits and panic exactly on absent components, is_valid/try_validate/validate agree; root validity is proved from an explicit powf contract (partial: the contract is assumed and sampled). The model is tied to the code by a correspondence check on raw bit patterns (exhaustive boundary set x arities 0..2, random beyond) evaluated inside Coq.",
        "note": "Trusted: Coq kernel, Flocq binary64 as the meaning of f64, stdlib classical-reals axioms (sig_forall_dec, sig_not_dec, functional_extensionality_dep, classic) under B2R, the hand-written model (tied by the correspondence check), nar_dev_utils is_in_01 modelled from its source, powf contract assumed.",
        "technique": "Coq proof over Flocq binary64 model + differential correspondence on bit patterns",
        "design_ref": "DESIGN.md section 4 C13",
    },
}
PENDING = "check not built yet in this session; the property is within reach of the technique (see DESIGN.md section 4) and will be claimed once its model, theorems and correspondence stream exist"
NOT_APPLICABLE = {f"C{i:02d}": PENDING for i in range(1, 18)}
