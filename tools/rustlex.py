"""Minimal Rust tokenizer and token-stream helpers for the translator.

Comments are stripped; string / raw-string / char literals are decoded; the
token stream is whitespace-insensitive, so re-formatting the source does not
change what the translator sees.  Anything the tokenizer cannot classify raises
TranslateError (fail closed)."""
import re


class TranslateError(Exception):
    pass


class PinMismatch(TranslateError):
    """the SHAPE of a piece of code (a function body, a match arm) that the hand-written model mirrors is no longer the one the
    translator recognises.  Not a table: the tables of that generator stay as last generated, the correspondence check (the
    designated tie for hand-written control logic) decides, on a widened stream."""
    pass


class Tok:
    __slots__ = ("kind", "val", "pos")

    def __init__(self, kind, val, pos):
        self.kind = kind  # id | str | char | num | punct | lifetime
        self.val = val
        self.pos = pos

    def __repr__(self):
        return f"{self.kind}:{self.val!r}"

    def is_p(self, v):
        return self.kind == "punct" and self.val == v

    def is_id(self, v=None):
        return self.kind == "id" and (v is None or self.val == v)


PUNCT3 = ["..=", "..."]
PUNCT2 = ["=>", "->", "::", "==", "!=", "<=", ">=", "&&", "||", "+=", "-=", "*=", "/=", "..", "|="]

_ESC = {"n": "\n", "t": "\t", "r": "\r", "0": "\0", "\\": "\\", "'": "'", '"': '"'}


def _unescape(s, i, quote):
    """decode an escaped (non-raw) literal body starting at s[i]; returns (text, index after closing quote)"""
    out = []
    n = len(s)
    while i < n:
        c = s[i]
        if c == quote:
            return "".join(out), i + 1
        if c == "\\":
            d = s[i + 1]
            if d in _ESC:
                out.append(_ESC[d])
                i += 2
            elif d == "x":
                out.append(chr(int(s[i + 2:i + 4], 16)))
                i += 4
            elif d == "u":
                j = s.index("}", i)
                out.append(chr(int(s[i + 3:j].replace("_", ""), 16)))
                i = j + 1
            elif d == "\n":
                i += 2
                while i < n and s[i] in " \t\r\n":
                    i += 1
            else:
                raise TranslateError(f"unknown escape \\{d}")
        else:
            out.append(c)
            i += 1
    raise TranslateError("unterminated literal")


def tokenize(src):
    toks = []
    i, n = 0, len(src)
    while i < n:
        c = src[i]
        if c in " \t\r\n":
            i += 1
            continue
        if src.startswith("//", i):
            j = src.find("\n", i)
            i = n if j < 0 else j
            continue
        if src.startswith("/*", i):
            depth, i = 1, i + 2
            while depth and i < n:
                if src.startswith("/*", i):
                    depth += 1
                    i += 2
                elif src.startswith("*/", i):
                    depth -= 1
                    i += 2
                else:
                    i += 1
            continue
        # raw strings r"..." r#"..."#
        m = re.match(r'r(#*)"', src[i:])
        if m:
            hashes = m.group(1)
            start = i + len(m.group(0))
            end = src.index('"' + hashes, start)
            toks.append(Tok("str", src[start:end], i))
            i = end + 1 + len(hashes)
            continue
        if c == '"':
            text, j = _unescape(src, i + 1, '"')
            toks.append(Tok("str", text, i))
            i = j
            continue
        if c == "'":
            # char literal or lifetime
            m = re.match(r"'([A-Za-z_][A-Za-z0-9_]*)(?!')", src[i:])
            if m:
                toks.append(Tok("lifetime", m.group(1), i))
                i += len(m.group(0))
                continue
            text, j = _unescape(src, i + 1, "'")
            if len(text) != 1:
                raise TranslateError(f"bad char literal at {i}")
            toks.append(Tok("char", text, i))
            i = j
            continue
        m = re.match(r"[A-Za-z_][A-Za-z0-9_]*", src[i:])
        if m:
            toks.append(Tok("id", m.group(0), i))
            i += len(m.group(0))
            continue
        m = re.match(r"[0-9][0-9_]*(\.[0-9][0-9_]*)?([eE][+-]?[0-9]+)?([a-z][a-z0-9]*)?", src[i:])
        if m:
            toks.append(Tok("num", m.group(0), i))
            i += len(m.group(0))
            continue
        for p in PUNCT3 + PUNCT2:
            if src.startswith(p, i):
                toks.append(Tok("punct", p, i))
                i += len(p)
                break
        else:
            toks.append(Tok("punct", c, i))
            i += 1
    return toks


OPEN = {"(": ")", "[": "]", "{": "}"}
CLOSE = {v: k for k, v in OPEN.items()}


def match_close(toks, i):
    """toks[i] is an opening bracket; return the index of its closing bracket"""
    assert toks[i].kind == "punct" and toks[i].val in OPEN, toks[i]
    depth = 0
    for j in range(i, len(toks)):
        t = toks[j]
        if t.kind == "punct":
            if t.val in OPEN:
                depth += 1
            elif t.val in CLOSE:
                depth -= 1
                if depth == 0:
                    return j
    raise TranslateError("unbalanced brackets")


def find_seq(toks, seq, start=0, end=None):
    """find the first index >= start where the token values equal seq (list of str); -1 if none"""
    end = len(toks) if end is None else end
    k = len(seq)
    for i in range(start, end - k + 1):
        if all(toks[i + j].val == seq[j] and toks[i + j].kind != "str" for j in range(k)):
            return i
    return -1


def split_top(toks, sep):
    """split a token list at top-level occurrences of punct `sep`"""
    parts, cur, depth = [], [], 0
    for t in toks:
        if t.kind == "punct":
            if t.val in OPEN:
                depth += 1
            elif t.val in CLOSE:
                depth -= 1
            elif t.val == sep and depth == 0:
                parts.append(cur)
                cur = []
                continue
        cur.append(t)
    parts.append(cur)
    return parts


def text(toks):
    """canonical text of a token list (for template comparison)"""
    out = []
    for t in toks:
        if t.kind == "str":
            out.append('"' + t.val.replace("\\", "\\\\").replace('"', '\\"') + '"')
        elif t.kind == "char":
            out.append("'" + t.val + "'")
        elif t.kind == "lifetime":
            out.append("'" + t.val)
        else:
            out.append(t.val)
    return " ".join(out)


def fn_body(toks, name, start=0):
    """return (body_tokens, index_of_open_brace) of `fn name` (first occurrence at/after start)"""
    i = start
    while True:
        i = find_seq(toks, ["fn", name], i)
        if i < 0:
            raise PinMismatch(f"fn {name} not found")
        # find the opening brace of the body: first '{' at depth 0 after the signature
        j = i + 2
        depth = 0
        while j < len(toks):
            t = toks[j]
            if t.kind == "punct":
                if t.val in ("(", "[", "<"):
                    depth += 1 if t.val != "<" else 0
                elif t.val in (")", "]"):
                    depth -= 1
                elif t.val == "{" and depth == 0:
                    k = match_close(toks, j)
                    return toks[j + 1:k], j
                elif t.val == ";" and depth == 0:
                    break
            j += 1
        i = i + 2


def match_arms(body):
    """body: tokens of a `match x { ... }` block interior.  Returns list of (pattern_tokens, expr_tokens)."""
    arms = []
    i, n = 0, len(body)
    while i < n:
        # pattern up to top-level '=>'
        depth = 0
        j = i
        while j < n:
            t = body[j]
            if t.kind == "punct":
                if t.val in OPEN:
                    depth += 1
                elif t.val in CLOSE:
                    depth -= 1
                elif t.val == "=>" and depth == 0:
                    break
            j += 1
        if j >= n:
            break
        pat = body[i:j]
        # expression: block or up to top-level ','
        k = j + 1
        if k < n and body[k].is_p("{"):
            e = match_close(body, k)
            expr = body[k + 1:e]
            k = e + 1
            if k < n and body[k].is_p(","):
                k += 1
        else:
            depth = 0
            e = k
            while e < n:
                t = body[e]
                if t.kind == "punct":
                    if t.val in OPEN:
                        depth += 1
                    elif t.val in CLOSE:
                        depth -= 1
                    elif t.val == "," and depth == 0:
                        break
                e += 1
            expr = body[k:e]
            k = e + 1
        arms.append((pat, expr))
        i = k
    return arms


def find_match(toks, start=0):
    """find the first `match <scrutinee> {` at/after start; returns (scrutinee_tokens, interior_tokens, end_index)"""
    i = start
    while i < len(toks):
        if toks[i].is_id("match"):
            j = i + 1
            depth = 0
            while j < len(toks):
                t = toks[j]
                if t.kind == "punct":
                    if t.val in ("(", "["):
                        depth += 1
                    elif t.val in (")", "]"):
                        depth -= 1
                    elif t.val == "{" and depth == 0:
                        k = match_close(toks, j)
                        return toks[i + 1:j], toks[j + 1:k], k
                j += 1
        i += 1
    raise PinMismatch("match not found")
