"""Per-property configuration of the check driver."""

REALS_AXIOMS = [
    "ClassicalDedekindReals.sig_forall_dec",
    "ClassicalDedekindReals.sig_not_dec",
    "FunctionalExtensionality.functional_extensionality_dep",
    "Classical_Prop.classic",
]
ALLOWED_AXIOMS_DEFAULT = []  # "Closed under the global context"

TB_COMMON = [
    "Coq 8.16.1 kernel (coqc; coqchk in the thorough tier); vm_compute used for table side-conditions and for running the model; no native_compute",
    "tools/translate.py (regenerates coq/Gen/*.v from /repo on every run; fails closed)",
    "correspondence check: Rust harness (generators, canonicaliser) + model evaluation inside Coq (vm_compute); differential testing, bounded by generator quality",
]

PROPS = {
    "C13": {
        "props": ["Props/C13.v"],
        "run": ["Run/C13Run.v"],
        "tables": [],
        "allowed_axioms": REALS_AXIOMS,
        "n_quick": 400,
        "n_thorough": 20000,
        "trusted_base": TB_COMMON + [
            "Flocq binary64 as the meaning of f64 (b64_of_bits, Bcompare); Coq stdlib classical-reals axioms under B2R/Rcompare (sig_forall_dec, sig_not_dec, functional_extensionality_dep)",
            "nar_dev_utils::ZeroOneFloat::is_in_01 = (0.0..=1.0).contains (dependency, modelled from its source)",
            "powf (libm) contract [0,1]x[0,+inf] -> [0,1]: hypothesis of C13_root_valid, sampled on the real code",
        ],
        "assumptions": ["Rust f64 comparison is IEEE-754 (Flocq Bcompare)", "powf contract (root) is assumed, sampled"],
    },
    "C14": {
        "props": ["Props/C14.v"],
        "run": ["Run/TermRun.v"],
        "tables": ["T4"],
        "n_quick": 400,
        "n_thorough": 6000,
        "trusted_base": TB_COMMON + [
            "std::collections::HashSet modelled as a duplicate-free list in iteration order (iter() and into_iter() of a clone enumerate in the same order)",
            "hand-written Model/Access.v (get_components, ImageIterator, extract_terms, lexical extraction); tables category/capacity/compsk/extractk/getnamek regenerated from term/impls.rs",
        ],
        "assumptions": ["HashSet is a correct set for lawful Hash/Eq (C06/C07)"],
    },
    "C17": {
        "props": ["Props/C17.v"],
        "run": ["Run/TermRun.v"],
        "tables": ["T4"],
        "n_quick": 400,
        "n_thorough": 6000,
        "trusted_base": TB_COMMON + [
            "usize::from_str re-implemented in Base/Dec.v (optional '+', ASCII digits, overflow => error) and proved against Coq's Decimal library; differentially checked on adversarial names",
            "HashSet::extend modelled as repeated insert keeping the first of two equal elements",
            "hand-written Model/Mutate.v; tables setnamek/pushk/getnamek/capacity regenerated from term/impls.rs",
        ],
        "assumptions": ["HashSet is a correct set for lawful Hash/Eq (C06/C07)"],
    },
    "C06": {
        "props": ["Props/C06.v"],
        "run": ["Run/TermRun.v"],
        "tables": ["T4"],
        "n_quick": 500,
        "n_thorough": 8000,
        "trusted_base": TB_COMMON + [
            "std::collections::HashSet is a correct set for lawful Hash/Eq: `==` is same length + every left element contained in the right; insert keeps the first of two equal elements (modelled, not verified)",
            "hand-written term_eqb skeleton in Model/EqHash.v; per-constructor eq kinds regenerated from `impl PartialEq for Term`",
        ],
        "assumptions": ["set payloads are duplicate-free up to == (set_ok), re-checked by the model on every implementation value the harness produces"],
    },
    "C07": {
        "props": ["Props/C07.v"],
        "run": ["Run/TermRun.v"],
        "tables": ["T4"],
        "n_quick": 500,
        "n_thorough": 8000,
        "trusted_base": TB_COMMON + [
            "the hasher is abstract: term_feed is the sequence of writes of `impl Hash`; fixed_hash (DefaultHasher::new() over an element) is an arbitrary function (Section variable), instantiated by an oracle table of real DefaultHasher values in the correspondence",
            "std Hash for String (write bytes + 0xff) and usize (write_usize) as recorded by a recording Hasher",
            "per-constructor hash kinds regenerated from `impl Hash for Term`, bodies of hash_term_set / hash_unordered recognised verbatim",
        ],
        "assumptions": ["any std hasher is a function of the write stream"],
    },
}

TB_ENUM = TB_COMMON + [
    "hand-written control skeleton of the enum parser / formatter models (Model/EnumParser.v, Model/EnumFormatter.v) tied by the correspondence check; keyword tables, arm lists and parser-state facts regenerated (T1, T3, T5)",
    "f64 Display is an oracle table written by the harness; f64 FromStr re-implemented over Flocq (Base/FloatDec.v) and differentially checked; char::is_alphanumeric is a range table dumped from std (Gen/Unicode.v)",
    "nar_dev_utils helpers (starts_with_str incl. its proper-prefix defect, join_lest_multiple_separators, add_space_if_necessary_and_flush_buffer) modelled from their source",
]
for _p in ["C01", "C04", "C08", "C09", "C10", "C12", "C15"]:
    PROPS[_p] = {
        "props": [],
        "run": ["Run/EnumRun.v"],
        "tables": ["T1", "T3", "T4", "T5"],
        "n_quick": 300,
        "n_thorough": 12000,
        "trusted_base": TB_ENUM,
        "assumptions": [],
    }
PROPS["C01"]["props"] = ["Props/C01a.v", "Props/C01c.v"]
PROPS["C04"]["props"] = ["Props/C04.v"]
PROPS["C08"]["props"] = ["Props/C08.v"]
PROPS["C09"]["props"] = ["Props/C09.v", "Props/C09c.v"]
PROPS["C10"]["props"] = ["Props/C10.v", "Props/C10c.v"]
PROPS["C12"]["props"] = ["Props/C12.v"]
PROPS["C15"]["props"] = ["Props/C15.v", "Props/C15a.v", "Props/C15b.v", "Props/C15c.v"]
PROPS["C01"]["props"] = PROPS["C01"]["props"] + ["Props/C01b.v"]
PROPS["C09"]["props"] = PROPS["C09"]["props"] + ["Props/C09b.v"]
PROPS["C09"]["props"] = PROPS["C09"]["props"] + ["Props/C09d.v"]   # lexical side: whitespace invariance for every input (fuel independence)
PROPS["C09"]["tables"] = ["T1", "T2", "T3", "T4", "T5"]
PROPS["C09"]["run"] = ["Run/EnumRun.v", "Run/LexRun.v"]   # lexical half of the stream (lexprops::c09_lexical_ws) is compared with the lexical parser model
PROPS["C09"]["assumptions"] = PROPS["C09"]["assumptions"] + [
    "lexical side (Props/C09d.v): for EVERY input the lexical parser model's result depends on the whitespace-free text only (idealize_env s = idealize_env s' -> lex_parse s = lex_parse s'; inserting any White_Space code points anywhere changes nothing), proved via fuel independence of the term layer; hypothesis: non-empty opening brackets (true of the shipped tables by computation)",
]
PROPS["C01"]["props"] = PROPS["C01"]["props"] + ["Props/C01d.v"]
PROPS["C01"]["props"] = PROPS["C01"]["props"] + ["Props/C01e.v"]   # Han, unconditional on keyword-free names (with C09 / C15 corollaries)
PROPS["C09"]["props"] = PROPS["C09"]["props"] + ["Props/C09e.v"]
PROPS["C15"]["props"] = PROPS["C15"]["props"] + ["Props/C15d.v"]
PROPS["C15"]["run"] = ["Run/EnumRun.v", "Run/LexRun.v"]
PROPS["C15"]["tables"] = ["T1", "T2", "T3", "T4", "T5"]

TB_FOLD = TB_COMMON + [
    "hand-written control skeleton of the fold model (Model/Fold.v: evaluation order, short-circuiting, number ladders, image placeholder search) tied by the correspondence check; the ordered arm tables of fold_atom / fold_compound / fold_set / fold_statement, the empty-name guard and the verbatim shapes of the TryFoldInto impls, try_from_floats, new_*, to_image_*_with_placeholder and the Stamp / Punctuation side doors are regenerated / re-recognised on every run (T3f); lexical vocabulary lists (T2v)",
    "Model/EnumParser.v side doors door_stamp / door_punctuation (shared with C04) for stamp and punctuation strings",
    "f64 FromStr on arbitrary strings (sign, exponent, inf / nan) re-implemented over Flocq (Base/FloatDec2.v) and differentially checked; usize FromStr re-implemented in Base/Dec.v (proved against Coq's Decimal library)",
    "std::collections::HashSet modelled as a duplicate-free list in insertion order (mk_set); set payloads compared up to order",
]
PROPS["C03"] = {
    "props": ["Props/C03.v", "Props/C03b.v"],
    "run": ["Run/FoldRun.v"],
    "tables": ["T1", "T2", "T2v", "T3", "T3f", "T4"],
    "n_quick": 300,
    "n_thorough": 3000,
    "trusted_base": TB_FOLD,
    "assumptions": [
        "TERM level (Props/C03b.v): both pipelines (enum parse_term; lexical parse_term then fold) return the documented meaning of every surface tree -- any spacing, plain or derived copulas -- hence agree; unconditional for ASCII and LaTeX (well-formed terms, their re-spacings, derived copulas on top), for Han under the explicit name conditions unamb (class K3 otherwise); Unicode whitespace clause for the lexical side",
        "SENTENCE / TASK level: theorems cover the FOLD third only (Props/C03.v: folding the lexical value of the enum formatter's output returns the value) and the table obligations; that the lexical parser returns that lexical value (C02) and the enum parser the value (C01) are separate theorems, their composition above the term layer and the full `parse` entry point (item segmentation around a bare term) are decided here by differential testing of the two real pipelines",
        "Rust f64 Display/FromStr round trip on numbers in [0,1] is a hypothesis (H_rt) of C03_fold_lex_of_narsese",
        "known classes K1-K3 (inherent ambiguities of the surface syntax, listed under C01) are filtered from the text stream; K1 reappears as C03_fold_K1_witness",
    ],
}
PROPS["C03"]["props"] = PROPS["C03"]["props"] + ["Props/C03c.v"]   # value level: sentences and tasks, ASCII / LaTeX
PROPS["C03"]["assumptions"] = PROPS["C03"]["assumptions"] + [
    "VALUE level (Props/C03c.v), ASCII and LaTeX: for every well-formed value the lexical parser reads the enum formatter's text (and every text with the same whitespace-free form) as lex_of_narsese v and folding returns v -- unconditional (oracle hypotheses only); with the enum side `parse_narsese (fmt_narsese v) = POk v` (C01 for whole values) as the explicit premise Henum both pipelines return v (C03_value_ascii_latex); without Henum both pipelines return v for any writing of the term (re-spaced, derived copulas) under the decidable sentence-level back-off condition sent_unamb (C03c_agree_value_tree_ascii_latex). Han: the value-level table conditions fail (K2, K5), nothing is claimed",
]
PROPS["C05F"] = {
    "props": ["Props/C05F.v"],
    "run": ["Run/FoldRun.v"],
    "tables": ["T1", "T3", "T3f", "T4"],
    "n_quick": 400,
    "n_thorough": 6000,
    "trusted_base": TB_FOLD,
    "assumptions": [
        "fold half of C05 only (plus the fold halves of C12 and C14); the lexical-parser half is not covered",
        "no statement about running time: head_skip_spaces in the stamp side door loops forever in Rust for a format with an empty parse space (no shipped format has one); the model runs it on fuel",
    ],
}

TB_LEX = TB_COMMON + [
    "hand-written control skeleton of the lexical formatter / parser models (Model/LexFormatter.v, Model/LexParser.v) tied by the correspondence check; the three format tables, the char classes and the `slice_starts_with_str` length guard are regenerated (T2)",
    "nar_dev_utils dictionaries (XFixMatchDict, PrefixMatchDictPair, SuffixMatchDictPair, BiFixMatchDictPair: sorted insertion, descending code-point iteration), starts_with_str (with its proper-prefix defect), char_slice_has_prefix/suffix, join_to, join_lest_multiple_separators, add_space_if_necessary_and_flush_buffer modelled from their source; the real iteration order of every dictionary is dumped through prefix_terms/suffix_terms and compared with the model's on every run",
    "std: str::trim_start_matches / trim_end_matches / split for &str patterns, slice indexing panics, char::is_whitespace (the 25 White_Space code points, compared exhaustively with std on every run), char::is_alphanumeric (range table dumped from std, Gen/Unicode.v; a Section variable in the theorems)",
]
PROPS["C02"] = {
    "props": ["Props/C02.v"],
    "run": ["Run/LexRun.v"],
    "tables": ["T2"],
    "n_quick": 360,
    "n_thorough": 6000,
    "trusted_base": TB_LEX,
    "assumptions": ["usize additions of borders do not overflow (inputs fit in memory)"],
}
# C05: parser half (lexprops::c05_parser_stream); a fold stream can be appended in lexprops::run_c05
PROPS["C05"] = {
    "props": ["Props/C05.v"],
    "run": ["Run/LexRun.v"],
    "tables": ["T2"],
    "n_quick": 360,
    "n_thorough": 6000,
    "trusted_base": TB_LEX + [
        "stack depth of the real recursive-descent parser is a runtime matter the model cannot exhibit (exercised to nesting depth 64 on the real code)",
    ],
    "assumptions": ["usize additions of borders do not overflow (inputs fit in memory)"],
}

PROPS["C11"] = {
    "props": ["Props/C11.v"],
    "run": ["Run/ReadmeRun.v"],
    "tables": ["T1", "T3", "T7"],
    "n_quick": 600,
    "n_thorough": 6000,
    "trusted_base": TB_COMMON + [
        "Model/Readme.v: hand-written PEG interpreter implementing pest 2.x semantics as read from pest's generator and ParserState (ordered choice, greedy repetition, look-ahead, implicit WHITESPACE skipping between the operands of `~` and the iterations of `*`/`+` in non-atomic rules only, `@`/`_` modifiers, `e+` unrolled to `e ~ e*`, whole-input match as SOI ~ narsese ~ EOI); pest itself is not available offline, so the interpreter is not differentially tested against pest",
        "tools/t7_readme.py (table T7): pest-syntax parser for the README block (fails closed on constructs the interpreter lacks), rule-by-rule comparison with README.en.md, keyword lists of the lexical ASCII format",
        "Unicode general categories L/N/P/S (pest LETTER/NUMBER/PUNCTUATION/SYMBOL) from Python unicodedata (Unicode 14.0), tied to Rust std (is_numeric, is_alphanumeric, is_ascii_punctuation, is_ascii_alphabetic) on every character the generated texts use and on all of ASCII; White_Space from Rust std (Gen/Unicode.v)",
        "opennars_lexicon (Model/Readme.v): the OpenNARS ASCII keyword table written out by hand from the OpenNARS wiki grammar the README refers to",
        "the real ASCII lexical parser is the reference for kind and tree; the enum formatter model (Model/EnumFormatter.v) and the lexical formatter model / enum->lexical tree map (Model/Readme.v) are compared with the real output on every case",
    ],
    "assumptions": [
        "well-formed = the library's own name rules (non-empty identifier, no leading atom prefix, no leading/trailing '-') restricted to characters that are atom_chars of the grammar (categories L, N, '_' , '-'); names with the K4 pattern are the known class K4",
        "f64 Display prints the numbers of a well-formed value (range [0,1], C13) as non-empty strings of ASCII digits and '.' (hypothesis of C11_enum; checked on every float of every case)",
        "'pest semantics' is the hand-written interpreter Model/Readme.v (pest is not available offline)",
    ],
}

# composite properties: further parts whose theorems and streams belong to the property
PROPS["C05"]["also"] = ["C05F"]      # lexical parser half + fold half
PROPS["C12"]["also"] = ["C05F"]      # C12_fold_wf lives in Props/C05F.v
PROPS["C14"]["also"] = ["C05F"]      # C14_fold_category lives in Props/C05F.v
# C10_fold_* (desugaring at the fold level) live in Props/C03.v: that file and C03's stream only
PROPS["C10F"] = dict(PROPS["C03"], props=["Props/C03.v"], stream="C03")
PROPS["C10"]["also"] = ["C10F"]

PROPS["C16"] = {
    "props": ["Props/C16.v"],
    "run": ["Run/TypstRun.v"],
    "tables": ["T4", "T6"],
    "n_quick": 300,
    "n_thorough": 3000,
    "trusted_base": TB_COMMON + [
        "hand-written control skeleton of the Typst renderer model (Model/Typst.v: format_term dispatch, template_compound layouts, Sentence/Task segment interpreter, post_process_whitespace) tied by the correspondence check; the 58 markup constants, constructor -> constant / bracket tables, the ordered layout arms and the segment lists are regenerated (T6); every other function of formatter_enum.rs / definition.rs / common templates / nar_dev_utils ToDebug is recognised verbatim by the translator",
        "f64 Display is an oracle table written by the harness (theorems: an abstract function with stated hypotheses); isize/usize Display = Base/Dec.v show_Z/show_N",
        "`impl Debug for str` of std re-implemented (Model/Typst.v debug_str: per-char \\0 \\t \\r \\n \\\\ \\\" \\u{hex} escapes); which characters are \\u-escaped is a range table dumped from std by the harness on every run, and the per-char shape is checked exhaustively (all scalar values) against std on every run",
        "char::is_whitespace / str::trim = the fixed 25-code-point White_Space set of the model, compared with std's on every run",
        "std::collections::HashSet iterates a given set in the same order every time it is iterated without modification (the harness serialises set payloads in iteration order)",
    ],
    "assumptions": ["names of well-formed values contain name characters only (alphanumeric, _, -, > U+1F2FF): no whitespace, quotes or backslashes"],
}
PROPS["C11"]["mismatch_is_failure"] = "the README grammar (evaluated by the model interpreter) and the library disagree on kind or tree of this ASCII text"
PROPS["C08"]["tables"] = ["T1", "T2", "T3", "T4", "T5"]
PROPS["C03"]["props"] = PROPS["C03"]["props"] + ["Props/C03d.v"]   # value-level agreement, Henum discharged by C01d
PROPS["C02"]["props"] = PROPS["C02"]["props"] + ["Props/C02e.v"]   # Han, unconditional on keyword-free names (unamb_top / top_clean discharged)
PROPS["C02"]["assumptions"] = PROPS["C02"]["assumptions"] + [
    "Han (Props/C02e.v): lex_parse (lex_fmt x) = LOk x for every value of the vocabulary -- and of the extended domain lvalue_ok with prefix-only atoms -- all of whose atom names are KEYWORD-FREE (no character of a name occurs in any keyword of the lexical format: 56 characters for Han; decidable, local to a name), bare atoms included; the K5 witness lies outside this subdomain; outside it Han stays under the explicit conditions of Props/C02.v",
]
PROPS["C03"]["props"] = PROPS["C03"]["props"] + ["Props/C03e.v"]   # Han on keyword-free names: term and value level, both pipelines (with C09 corollaries)
PROPS["C03"]["assumptions"] = PROPS["C03"]["assumptions"] + [
    "Han (Props/C03e.v), on the subdomain of KEYWORD-FREE names (as Props/C01e.v): TERM level -- every surface tree with well-formed keyword-free atoms, any spacing, derived copulas: both pipelines return its meaning (the two unamb hypotheses of C03b discharged); VALUE level -- for every well-formed value the enum and the lexical formatter's texts have the same whitespace-free form (no name condition), and with keyword-free names the lexical parser reads the enum formatter's text (and every text with that whitespace-free form) as lex_of_narsese v, fold returns v, the enum parser returns v (C01e): both pipelines agree; also with the term written as any surface tree. Oracle hypotheses only (f64 Display/FromStr contract). The K3 space-disagreement example lies outside the subdomain; outside it Han stays under the explicit conditions of Props/C03b.v, nothing at the value level",
]
PROPS["C09"]["props"] = PROPS["C09"]["props"] + ["Props/C03e.v"]   # C09_han_* corollaries live there


# the pure data tables (T1 enum formats, T2 lexical formats, T2v lexical vocabulary) have a second source: the constants AS
# COMPILED (table T0 = Gen/FormatsDump.v, from `nvh dump-formats`).  Every property that rests on one of those tables also
# carries the obligations of Props/Tie.v: source-read tables = compiled tables, dictionary model = real dictionaries.
for _p, _cfg in PROPS.items():
    if any(t in _cfg.get("tables", []) for t in ("T1", "T2", "T2v")):
        _cfg["tables"] = list(_cfg["tables"]) + ["T0"]
        _cfg["props"] = list(_cfg.get("props", [])) + ["Props/Tie.v"]
        _cfg["trusted_base"] = list(_cfg.get("trusted_base", [])) + [
            "harness/src/dumpfmt.rs: field-by-field dump of the COMPILED format constants and dictionaries (nvh dump-formats), "
            "cross-checked against the tables read from the source text on every run (tools/fmtdump.py, Props/Tie.v) and used "
            "in their place when the source is written in a shape tools/translate.py does not read"]

# the vocabulary AS DOCUMENTED (table T2d: the same-line comments of the lexical format instances) is an obligation of the two
# properties that speak of it: C03 ("the same vocabulary for every constructor") and C10 ("mean what the documentation says")
for _p in ("C03", "C10", "C10F"):
    PROPS[_p]["tables"] = list(PROPS[_p]["tables"]) + ["T2d"]
    PROPS[_p]["props"] = list(PROPS[_p]["props"]) + ["Props/TieDoc.v"]
