"""Per-property configuration of the check driver."""

REALS_AXIOMS = [
    "ClassicalDedekindReals.sig_forall_dec",
    "ClassicalDedekindReals.sig_not_dec",
    "FunctionalExtensionality.functional_extensionality_dep",
    "Classical_Prop.classic",
]
ALLOWED_AXIOMS_DEFAULT = []  # "Closed under the global context"

TB_COMMON = [
    "Coq 8.16.1 kernel (coqc; coqchk in the thorough tier); vm_compute used for table side-conditions and for running the model; no native_compute",
    "tools/translate.py (regenerates coq/Gen/*.v from /repo on every run; fails closed)",
    "correspondence check: Rust harness (generators, canonicaliser) + model evaluation inside Coq (vm_compute); differential testing, bounded by generator quality",
]

PROPS = {
    "C13": {
        "props": ["Props/C13.v"],
        "run": ["Run/C13Run.v"],
        "tables": [],
        "allowed_axioms": REALS_AXIOMS,
        "n_quick": 400,
        "n_thorough": 20000,
        "trusted_base": TB_COMMON + [
            "Flocq binary64 as the meaning of f64 (b64_of_bits, Bcompare); Coq stdlib classical-reals axioms under B2R/Rcompare (sig_forall_dec, sig_not_dec, functional_extensionality_dep)",
            "nar_dev_utils::ZeroOneFloat::is_in_01 = (0.0..=1.0).contains (dependency, modelled from its source)",
            "powf (libm) contract [0,1]x[0,+inf] -> [0,1]: hypothesis of C13_root_valid, sampled on the real code",
        ],
        "assumptions": ["Rust f64 comparison is IEEE-754 (Flocq Bcompare)", "powf contract (root) is assumed, sampled"],
    },
    "C14": {
        "props": ["Props/C14.v"],
        "run": ["Run/TermRun.v"],
        "tables": ["T4"],
        "n_quick": 400,
        "n_thorough": 6000,
        "trusted_base": TB_COMMON + [
            "std::collections::HashSet modelled as a duplicate-free list in iteration order (iter() and into_iter() of a clone enumerate in the same order)",
            "hand-written Model/Access.v (get_components, ImageIterator, extract_terms, lexical extraction); tables category/capacity/compsk/extractk/getnamek regenerated from term/impls.rs",
        ],
        "assumptions": ["HashSet is a correct set for lawful Hash/Eq (C06/C07)"],
    },
    "C17": {
        "props": ["Props/C17.v"],
        "run": ["Run/TermRun.v"],
        "tables": ["T4"],
        "n_quick": 400,
        "n_thorough": 6000,
        "trusted_base": TB_COMMON + [
            "usize::from_str re-implemented in Base/Dec.v (optional '+', ASCII digits, overflow => error) and proved against Coq's Decimal library; differentially checked on adversarial names",
            "HashSet::extend modelled as repeated insert keeping the first of two equal elements",
            "hand-written Model/Mutate.v; tables setnamek/pushk/getnamek/capacity regenerated from term/impls.rs",
        ],
        "assumptions": ["HashSet is a correct set for lawful Hash/Eq (C06/C07)"],
    },
    "C06": {
        "props": ["Props/C06.v"],
        "run": ["Run/TermRun.v"],
        "tables": ["T4"],
        "n_quick": 500,
        "n_thorough": 8000,
        "trusted_base": TB_COMMON + [
            "std::collections::HashSet is a correct set for lawful Hash/Eq: `==` is same length + every left element contained in the right; insert keeps the first of two equal elements (modelled, not verified)",
            "hand-written term_eqb skeleton in Model/EqHash.v; per-constructor eq kinds regenerated from `impl PartialEq for Term`",
        ],
        "assumptions": ["set payloads are duplicate-free up to == (set_ok), re-checked by the model on every implementation value the harness produces"],
    },
    "C07": {
        "props": ["Props/C07.v"],
        "run": ["Run/TermRun.v"],
        "tables": ["T4"],
        "n_quick": 500,
        "n_thorough": 8000,
        "trusted_base": TB_COMMON + [
            "the hasher is abstract: term_feed is the sequence of writes of `impl Hash`; fixed_hash (DefaultHasher::new() over an element) is an arbitrary function (Section variable), instantiated by an oracle table of real DefaultHasher values in the correspondence",
            "std Hash for String (write bytes + 0xff) and usize (write_usize) as recorded by a recording Hasher",
            "per-constructor hash kinds regenerated from `impl Hash for Term`, bodies of hash_term_set / hash_unordered recognised verbatim",
        ],
        "assumptions": ["any std hasher is a function of the write stream"],
    },
}

TB_ENUM = TB_COMMON + [
    "hand-written control skeleton of the enum parser / formatter models (Model/EnumParser.v, Model/EnumFormatter.v) tied by the correspondence check; keyword tables, arm lists and parser-state facts regenerated (T1, T3, T5)",
    "f64 Display is an oracle table written by the harness; f64 FromStr re-implemented over Flocq (Base/FloatDec.v) and differentially checked; char::is_alphanumeric is a range table dumped from std (Gen/Unicode.v)",
    "nar_dev_utils helpers (starts_with_str incl. its proper-prefix defect, join_lest_multiple_separators, add_space_if_necessary_and_flush_buffer) modelled from their source",
]
for _p in ["C01", "C04", "C08", "C09", "C10", "C12", "C15"]:
    PROPS[_p] = {
        "props": [],
        "run": ["Run/EnumRun.v"],
        "tables": ["T1", "T3", "T4", "T5"],
        "n_quick": 300,
        "n_thorough": 3000,
        "trusted_base": TB_ENUM,
        "assumptions": [],
    }
PROPS["C04"]["props"] = ["Props/C04.v"]
PROPS["C08"]["props"] = ["Props/C08.v"]
PROPS["C12"]["props"] = ["Props/C12.v"]
PROPS["C15"]["props"] = ["Props/C15.v", "Props/C15a.v", "Props/C15b.v"]
PROPS["C01"]["props"] = PROPS["C01"]["props"] + ["Props/C01b.v"]
PROPS["C09"]["props"] = PROPS["C09"]["props"] + ["Props/C09b.v"]
