#!/usr/bin/env python3
"""Model mutation testing of the correspondence check (DESIGN section 9.8, design/model_mutation.md).

The theorems are about the Gallina models; the hand-written control logic of the models is tied to the
Rust code only by the differential correspondence check.  This tool measures how strong that tie is: it
mutates the MODEL (one small syntactic change per mutant), rebuilds the mutated model file and the
runners that depend on it in a scratch copy of coq/ (Proofs/ and Props/ are not built: they are expected
to break), re-evaluates the case files of ONE harness run per property stream against the mutant build
and reports, per mutant, killed (some case mismatches / the evaluation fails) or survived.
A surviving mutant is a behaviour of the model that no generated case exercises, i.e. a place where a
divergence between model and code (a bug in the Rust code in the same place, too) would go unnoticed.

  tools/model_mutate.py cases  [--seed N] [--tier quick]      harness run per stream -> _build/mm/cases, baseline evaluation
  tools/model_mutate.py list   [--files F,..]                 candidate mutants (no build)
  tools/model_mutate.py run    [--target 260] [--seed N] [--files F,..] [--full-matrix] [--matrix-min M] [--out DIR]
                               [--only ID,..] [--from results.json (re-run the same mutants)] [--survivors-of results.json]
  tools/model_mutate.py report results.json ...                regenerate REPORT*.md from result files
  tools/model_mutate.py summary label=results.json ...         seeded/model_mutants/REPORT.md + results.json over several runs
  tools/model_mutate.py show ID                               print the diff of one mutant

Nothing under coq/ is ever written: mutants live in /tmp/mm-<pid>/ (or $MM_SCRATCH).
"""
import argparse
import hashlib
import json
import os
import random
import re
import shutil
import subprocess
import sys
import threading
import time
from concurrent.futures import ThreadPoolExecutor

ROOT = os.path.dirname(os.path.dirname(os.path.abspath(__file__)))
COQ = os.path.join(ROOT, "coq")
BUILD = os.path.join(ROOT, "_build")
MM = os.path.join(BUILD, "mm")
CASES = os.path.join(MM, "cases")
JOBS = int(os.environ.get("VERIF_JOBS", "16"))
WARN = "-notation-overridden,-deprecated-hint-without-locality,-deprecated-instance-without-locality"

sys.path.insert(0, os.path.join(ROOT, "tools"))
from props import PROPS  # noqa: E402

MODEL_FILES = ["EnumParser", "EnumFormatter", "LexParser", "LexFormatter", "Fold", "Typst", "Access", "Mutate",
               "EqHash", "Number"]
ANCHOR = {"EnumParser": ["C09", "C04", "C01", "C08"], "EnumFormatter": ["C01", "C11"], "LexParser": ["C02", "C05"],
          "LexFormatter": ["C02"], "Fold": ["C03", "C05F"], "Typst": ["C16"], "Access": ["C14", "C16"], "Mutate": ["C17", "C09"],
          "EqHash": ["C06", "C07", "C09"], "Number": ["C13", "C04"]}
STREAMS = ["C01", "C04", "C08", "C09", "C10", "C12", "C15", "C03", "C05F", "C02", "C05", "C11", "C16", "C06", "C07",
           "C14", "C17", "C13"]


def sh(cmd, timeout=None, cwd=None, env=None):
    try:
        p = subprocess.run(cmd, shell=isinstance(cmd, str), cwd=cwd, env=env, timeout=timeout,
                           stdout=subprocess.PIPE, stderr=subprocess.STDOUT)
        return p.returncode, p.stdout.decode("utf-8", "replace")
    except subprocess.TimeoutExpired as e:
        return 124, (e.stdout or b"").decode("utf-8", "replace") + "\n[timeout]"


# ------------------------------------------------------------------------------------------
# tokenizer for the Gallina of the model files (comments masked, positions kept)
MULTI = ["let*", ":=", "=>", "->", "<-", "<=?", "<?", "=?", "&&", "||", "++", "::", "{|", "|}", "<=", ">=", "<>", "'("]
KEYWORDS = {"match", "with", "end", "if", "then", "else", "let", "in", "fun", "fix", "forall", "exists", "as", "return",
            "struct", "Definition", "Fixpoint", "Let", "Section", "End", "Variable", "Record", "Inductive", "Notation",
            "Arguments", "From", "Require", "Import", "Export", "Open", "Scope", "Context", "Local"}
ID_RE = re.compile(r"[A-Za-z_][A-Za-z0-9_']*(?:\.[A-Za-z_][A-Za-z0-9_']*)*")
NUM_RE = re.compile(r"0x[0-9A-Fa-f]+|\d+")


def mask_comments(txt):
    out, depth, i, n = [], 0, 0, len(txt)
    while i < n:
        if txt.startswith("(*", i):
            depth += 1
            out.append("  ")
            i += 2
        elif txt.startswith("*)", i) and depth:
            depth -= 1
            out.append("  ")
            i += 2
        else:
            out.append(txt[i] if depth == 0 or txt[i] == "\n" else " ")
            i += 1
    return "".join(out)


class Tok:
    __slots__ = ("kind", "text", "start", "end")

    def __init__(self, kind, text, start, end):
        self.kind, self.text, self.start, self.end = kind, text, start, end

    def __repr__(self):
        return f"{self.kind}:{self.text}@{self.start}"


def tokenize(code):
    toks, i, n = [], 0, len(code)
    while i < n:
        c = code[i]
        if c.isspace():
            i += 1
            continue
        if c == '"':
            j = code.index('"', i + 1)
            toks.append(Tok("str", code[i:j + 1], i, j + 1))
            i = j + 1
            continue
        m = NUM_RE.match(code, i)
        if m and not (i > 0 and (code[i - 1].isalnum() or code[i - 1] in "_'")):
            toks.append(Tok("num", m.group(0), i, m.end()))
            i = m.end()
            continue
        m = ID_RE.match(code, i)
        if m:
            toks.append(Tok("id", m.group(0), i, m.end()))
            i = m.end()
            continue
        for op in MULTI:
            if code.startswith(op, i):
                toks.append(Tok("op", op, i, i + len(op)))
                i += len(op)
                break
        else:
            toks.append(Tok("op", c, i, i + 1))
            i += 1
    return toks


def sentences(toks, code):
    """split into vernacular sentences: a '.' token followed by whitespace / end of file ends one"""
    out, cur = [], []
    for t in toks:
        cur.append(t)
        if t.text == "." and (t.end >= len(code) or code[t.end].isspace()):
            out.append(cur)
            cur = []
    if cur:
        out.append(cur)
    return out


OPEN = {"(": ")", "[": "]", "{|": "|}", "{": "}", "'(": ")"}
CLOSE = {")", "]", "|}", "}"}


def in_pattern(ts, i):
    """is token i inside a match pattern (between `|`/`with` and `=>`)?  heuristic backward scan"""
    depth = 0
    j = i - 1
    while j >= 0:
        x = ts[j].text
        if x in CLOSE:
            depth += 1
        elif x in OPEN:
            depth -= 1
        elif depth <= 0:
            if x in ("=>", ":=", "then", "else", "in", "if"):
                return False
            if x in ("|", "with"):
                return True
        j -= 1
    return False


def match_structs(ts):
    """[(i_match, i_with, i_end, [(pat_lo, arrow, body_lo, body_hi)])] for every match ... end in the sentence"""
    res = []
    stack = []
    for i, t in enumerate(ts):
        if t.kind == "id" and t.text == "match":
            stack.append({"m": i, "w": None, "bars": [], "arrows": [], "depth": 0})
        elif stack:
            top = stack[-1]
            if t.text in OPEN:
                top["depth"] += 1
            elif t.text in CLOSE:
                top["depth"] -= 1
            elif t.kind == "id" and t.text == "with" and top["w"] is None and top["depth"] == 0:
                top["w"] = i
            elif t.text == "|" and top["w"] is not None and top["depth"] == 0:
                top["bars"].append(i)
            elif t.text == "=>" and top["w"] is not None and top["depth"] == 0:
                top["arrows"].append(i)
            elif t.kind == "id" and t.text == "end":
                stack.pop()
                arms = []
                arrows = top["arrows"]
                for k, a in enumerate(arrows):
                    # the arm's pattern starts after the last bar/with before the arrow that follows the previous arm
                    nxt = arrows[k + 1] if k + 1 < len(arrows) else None
                    if nxt is None:
                        body_hi = i
                    else:
                        # body ends at the first bar after `a` whose pattern leads to nxt: the first bar after a that
                        # is followed (before nxt) only by pattern tokens -- take the first bar b > a such that no
                        # other arrow lies between; or-patterns: choose the FIRST such bar after the body, which we
                        # approximate by the first bar after a (bodies of these files contain no top-level bars)
                        bars = [b for b in top["bars"] if a < b < nxt]
                        if not bars:
                            body_hi = None
                        else:
                            body_hi = bars[0]
                    if body_hi is not None:
                        arms.append((a, a + 1, body_hi))
                if top["w"] is not None:
                    res.append((top["m"], top["w"], i, arms))
    return res


def body_start(ts):
    for i, t in enumerate(ts):
        if t.text == ":=":
            return i + 1
    return None


def if_cond_span(ts, i):
    """for `if` at index i: (cond_lo, cond_hi) token indexes, cond = ts[cond_lo:cond_hi], ts[cond_hi] = then"""
    depth, nest = 0, 0
    for j in range(i + 1, len(ts)):
        x = ts[j].text
        if x in OPEN:
            depth += 1
        elif x in CLOSE:
            depth -= 1
            if depth < 0:
                return None
        elif ts[j].kind == "id" and x == "if":
            nest += 1
        elif ts[j].kind == "id" and x == "then":
            if nest == 0 and depth == 0:
                return (i + 1, j)
            if nest > 0:
                nest -= 1
    return None


ST_FAMILY = re.compile(r"st\d*'?$")
IDX_FAMILY = {"term_begin", "right_border", "begin_index", "content_start", "connecter_start", "subject_start",
              "copula_start", "predicate_start", "right_bracket_start", "left_border", "content_len", "border"}
SLICE_FAMILY = re.compile(r"(s|e)\d$")
RES_SWAP = {"LErr": ["LPanic"], "LPanic": ["LErr"], "FErr": ["FPanic"], "FPanic": ["FErr"], "RPanic": ["RErr"],
            "RErr": ["RPanic"], "perr": ["PErr"], "TPanic": ["(TOk [])"], "LOk": [], "None": []}
SKIP_REPL = {"skip_spaces": "(fun mm_x => mm_x)", "skip_and_spaces": "skip", "skip_after_spaces": "skip",
             "idealize_env": "(fun mm_x => mm_x)", "trim_start_matches": "(fun _ mm_x => mm_x)",
             "trim_end_matches": "(fun _ mm_x => mm_x)", "trim": "(fun mm_x => mm_x)", "trim_start": "(fun mm_x => mm_x)",
             "trim_end": "(fun mm_x => mm_x)", "post_process": "TOk", "fmt_of": "(fun mm_x => mm_x)",
             "mk_set": "(fun mm_x => mm_x)", "rev": "(fun mm_x => mm_x)", "filter": "(fun _ mm_x => mm_x)"}
HDR_L = "Definition mm_l {A} (a b : A) : A := a. "
HDR_R = "Definition mm_r {A} (a b : A) : A := b. "
NOTA = {
    "&&<": HDR_L + 'Local Notation "a &&< b" := (mm_l (a : bool) (b : bool)) (at level 40, left associativity). ',
    "&&>": HDR_R + 'Local Notation "a &&> b" := (mm_r (a : bool) (b : bool)) (at level 40, left associativity). ',
    "||<": HDR_L + 'Local Notation "a ||< b" := (mm_l (a : bool) (b : bool)) (at level 50, left associativity). ',
    "||>": HDR_R + 'Local Notation "a ||> b" := (mm_r (a : bool) (b : bool)) (at level 50, left associativity). ',
    "++<": HDR_L + 'Local Notation "a ++< b" := (mm_l a b) (at level 60, right associativity). ',
    "++>": HDR_R + 'Local Notation "a ++> b" := (mm_r a b) (at level 60, right associativity). ',
}


def candidates(model):
    """all candidate mutants of coq/Model/<model>.v: dicts {file, op, line, edits:[(start,end,repl)], descr}"""
    path = os.path.join(COQ, "Model", model + ".v")
    txt = open(path, encoding="utf-8").read()
    code = mask_comments(txt)
    toks = tokenize(code)
    cands = []

    def line_of(pos):
        return txt.count("\n", 0, pos) + 1

    def add(op, sent, edits, descr, header=""):
        # header (helper definitions / local notations) goes right before the mutated sentence
        ed = list(edits)
        if header:
            ed.append((sent[0].start, sent[0].start, header + "\n"))
        cands.append({"file": model, "op": op, "line": line_of(edits[0][0]), "edits": ed, "descr": descr,
                      "context": txt[txt.rfind("\n", 0, edits[0][0]) + 1: (txt.find("\n", edits[0][1]) if txt.find("\n", edits[0][1]) >= 0 else len(txt))].strip()})

    for sent in sentences(toks, code):
        if not sent or sent[0].text not in ("Definition", "Fixpoint", "Let"):
            continue
        b0 = body_start(sent)
        if b0 is None:
            continue
        defname = sent[1].text if len(sent) > 1 else "?"
        ts = sent
        names_in_sentence = [t.text for t in ts if t.kind == "id"]
        st_family = sorted({x for x in names_in_sentence if ST_FAMILY.match(x)})
        idx_family = sorted({x for x in names_in_sentence if x in IDX_FAMILY})
        sl_family = sorted({x for x in names_in_sentence if SLICE_FAMILY.match(x)})
        for i in range(b0, len(ts)):
            t = ts[i]
            prev = ts[i - 1] if i > 0 else None
            nxt = ts[i + 1] if i + 1 < len(ts) else None
            pat = None  # computed lazily

            def is_pat():
                nonlocal pat
                if pat is None:
                    pat = in_pattern(ts, i)
                return pat
            if t.kind == "id":
                x = t.text
                # A: drop a whitespace skip / normalisation step
                if x in SKIP_REPL and defname != x and not is_pat():
                    add("SKIP", ts, [(t.start, t.end, SKIP_REPL[x])], f"{defname}: `{x}` -> `{SKIP_REPL[x]}`")
                # B: negate the condition of an `if` (= swap its branches)
                if x == "if":
                    sp = if_cond_span(ts, i)
                    if sp and sp[1] > sp[0]:
                        lo, hi = ts[sp[0]].start, ts[sp[1] - 1].end
                        add("IFSWAP", ts, [(lo, hi, "negb (" + txt[lo:hi] + ")")],
                            f"{defname}: branches of `if {' '.join(txt[lo:hi].split())[:60]}` swapped")
                # C: comparison functions
                for a, b in (("Nat.ltb", "Nat.leb"), ("Nat.leb", "Nat.ltb"), ("N.ltb", "N.leb"), ("N.leb", "N.ltb"),
                             ("Nat.eqb", "Nat.leb"), ("N.eqb", "N.leb")):
                    if x == a and not is_pat():
                        add("CMP", ts, [(t.start, t.end, b)], f"{defname}: `{a}` -> `{b}`")
                # K: drop a negation
                if x == "negb":
                    add("NEGDROP", ts, [(t.start, t.end, "(fun mm_b : bool => mm_b)")], f"{defname}: `negb` dropped")
                # L: boolean literal
                if x in ("true", "false") and not is_pat():
                    add("BOOL", ts, [(t.start, t.end, "false" if x == "true" else "true")], f"{defname}: `{x}` flipped")
                # N: result constructor swaps (Err <-> Panic, perr without the window check)
                if x in RES_SWAP and not is_pat():
                    for r in RES_SWAP[x]:
                        add("RES", ts, [(t.start, t.end, r)], f"{defname}: `{x}` -> `{r}`")
                # F: another variable of the same family (cursor states, indices, slices)
                for fam in (st_family, idx_family, sl_family):
                    if x in fam and not is_pat() and prev is not None and prev.text not in ("fun", "'(", ",") \
                            and not (nxt is not None and nxt.text in (":=", ":")) and not (prev.text == "let"):
                        for y in fam:
                            if y != x:
                                add("VAR", ts, [(t.start, t.end, y)], f"{defname}: variable `{x}` -> `{y}`")
                # G: swap two adjacent identifier arguments
                if nxt is not None and nxt.kind == "id" and prev is not None and (prev.kind == "id" and prev.text not in KEYWORDS or prev.text == ")") \
                        and x not in KEYWORDS and nxt.text not in KEYWORDS and x != nxt.text and x[0].islower() and nxt.text[0].islower() \
                        and not is_pat():
                    after = ts[i + 2] if i + 2 < len(ts) else None
                    if after is None or after.text not in (":=", ":"):
                        add("ARGSWAP", ts, [(t.start, nxt.end, nxt.text + txt[t.end:nxt.start] + x)],
                            f"{defname}: arguments `{x} {nxt.text}` swapped (after `{prev.text}`)")
            elif t.kind == "num":
                if t.text.startswith("0x") or is_pat() and False:
                    continue
                v = int(t.text)
                inpat = is_pat()
                add("NUM", ts, [(t.start, t.end, str(v + 1))], f"{defname}: numeral {v} -> {v + 1}" + (" (pattern)" if inpat else ""))
                if v > 0:
                    add("NUM", ts, [(t.start, t.end, str(v - 1))], f"{defname}: numeral {v} -> {v - 1}" + (" (pattern)" if inpat else ""))
            elif t.kind == "op":
                x = t.text
                if x in ("<?", "<=?"):
                    y = "<=?" if x == "<?" else "<?"
                    add("CMP", ts, [(t.start, t.end, y)], f"{defname}: `{x}` -> `{y}`")
                if x == "=?":
                    add("CMP", ts, [(t.start, t.end, "<=?")], f"{defname}: `=?` -> `<=?`")
                if x in ("&&", "||", "++") and not is_pat():
                    if x == "++" and nxt is not None and nxt.text == "[" and prev is not None and prev.kind == "id" \
                            and i + 3 < len(ts) and ts[i + 2].kind == "id" and ts[i + 3].text == "]":
                        # H: acc ++ [x]  ->  x :: acc
                        add("CONSAPP", ts, [(prev.start, ts[i + 3].end, f"({ts[i + 2].text} :: {prev.text})")],
                            f"{defname}: `{prev.text} ++ [{ts[i + 2].text}]` -> `{ts[i + 2].text} :: {prev.text}`")
                    for side, nm in (("<", "right operand dropped"), (">", "left operand dropped")):
                        op = {"&&": "ANDDROP", "||": "ORDROP", "++": "APPDROP"}[x]
                        add(op, ts, [(t.start, t.end, x + side)], f"{defname}: `{x}` {nm}", header=NOTA[x + side])
                if x == "+" and not is_pat():
                    add("ARITH", ts, [(t.start, t.end, "-")], f"{defname}: `+` -> `-`")
                if x == "-" and not is_pat() and prev is not None and prev.text != "(" and nxt is not None and nxt.text != ">":
                    add("ARITH", ts, [(t.start, t.end, "+")], f"{defname}: `-` -> `+`")
        # I: redirect a match arm to the neighbouring arm's body
        for (_m, _w, _e, arms) in match_structs(ts):
            spans = []
            for (a, lo, hi) in arms:
                if lo < hi:
                    spans.append((ts[lo].start, ts[hi - 1].end))
            for k, (lo, hi) in enumerate(spans):
                for k2 in (k - 1, k + 1):
                    if 0 <= k2 < len(spans):
                        other = txt[spans[k2][0]:spans[k2][1]]
                        if " ".join(other.split()) != " ".join(txt[lo:hi].split()) and len(other) < 400:
                            add("ARM", ts, [(lo, hi, other)],
                                f"{defname}: arm body `{' '.join(txt[lo:hi].split())[:40]}` -> neighbour's `{' '.join(other.split())[:40]}`")
    # stable ids
    seen = {}
    for c in cands:
        key = f"{c['file']}|{c['op']}|{c['edits'][0][0]}|{c['edits'][0][2]}"
        h = hashlib.sha1(key.encode()).hexdigest()[:6]
        c["id"] = f"{c['file']}-L{c['line']}-{c['op']}-{h}"
        seen[c["id"]] = c
    return list(seen.values()), txt


def apply_edits(txt, edits):
    out = txt
    for (s, e, r) in sorted(edits, key=lambda x: (x[0], x[1]), reverse=True):
        out = out[:s] + r + out[e:]
    return out


# ------------------------------------------------------------------------------------------
# dependency graph of the files a runner needs
_DEPS = None


def deps():
    """{'Model/X': ['Base/Str', ...]} over Run, Model, Base, Gen"""
    global _DEPS
    if _DEPS is not None:
        return _DEPS
    files = []
    for d in ("Run", "Model", "Base", "Gen"):
        for f in sorted(os.listdir(os.path.join(COQ, d))):
            if f.endswith(".v") and not f.startswith("Cases_"):
                files.append(f"{d}/{f}")
    rc, out = sh(["coqdep", "-Q", ".", "Nv"] + files, cwd=COQ, timeout=300)
    g = {}
    for line in out.split("\n"):
        m = re.match(r"^(\S+)\.vo\b[^:]*:\s*(.*)$", line)
        if not m:
            continue
        tgt = m.group(1)
        ds = [x[:-3] for x in m.group(2).split() if x.endswith(".vo")]
        g[tgt] = ds
    _DEPS = g
    return g


def ancestors(node):
    g = deps()
    seen, todo = set(), [node]
    while todo:
        x = todo.pop()
        for d in g.get(x, []):
            if d not in seen:
                seen.add(d)
                todo.append(d)
    return seen


def topo(nodes):
    g = deps()
    nodes = set(nodes)
    out, seen = [], set()

    def visit(x):
        if x in seen:
            return
        seen.add(x)
        for d in g.get(x, []):
            if d in nodes:
                visit(d)
        out.append(x)
    for x in sorted(nodes):
        visit(x)
    return out


def stream_runners(stream):
    """runner modules (Run/XRun) the shards of a stream import"""
    d = os.path.join(CASES, stream)
    rs = set()
    for f in os.listdir(d):
        if f.startswith("Cases_") and f.endswith(".v"):
            head = open(os.path.join(d, f), encoding="utf-8").read(400)
            for m in re.finditer(r"From Nv Require Import ([\w.]+)\.", head):
                rs.add(m.group(1).replace(".", "/"))
    return rs


def relevant_streams(model, streams):
    node = f"Model/{model}"
    out = []
    for s in streams:
        for r in stream_runners(s):
            if node in ancestors(r):
                out.append(s)
                break
    return out


# ------------------------------------------------------------------------------------------
def harness_binary():
    for p in (os.path.join(BUILD, "cargo-target", "debug", "nvh"),):
        if os.path.exists(p):
            return p
    raise SystemExit("harness binary missing: run ./check --setup")


def gen_cases(seed, tier, streams):
    """ONE harness run per stream, exactly as `check` does for the quick tier"""
    binary = harness_binary()
    # rebuild the harness if its sources changed (same command as check)
    env = dict(os.environ, CARGO_NET_OFFLINE="true", RUSTFLAGS="--cfg narsese_verif", CARGO_TARGET_DIR=os.path.join(BUILD, "cargo-target"))
    rc, out = sh(["cargo", "build", "--offline", "--quiet"], cwd=os.path.join(ROOT, "harness"), env=env, timeout=1800)
    if rc != 0:
        raise SystemExit("harness build failed:\n" + out[-3000:])
    meta = {}

    def one(s):
        d = os.path.join(CASES, s)
        shutil.rmtree(d, ignore_errors=True)
        os.makedirs(d, exist_ok=True)
        n = PROPS[s].get("n_thorough" if tier == "thorough" else "n_quick", 400)
        cmd = [binary, s, "--seed", str(seed), "--n", str(n), "--out", d, "--shards", str(JOBS)] + (["--thorough"] if tier == "thorough" else [])
        t0 = time.time()
        rc, out = sh(cmd, timeout=1800, env=env)
        rp = os.path.join(d, f"result_{s}.json")
        if rc != 0 or not os.path.exists(rp):
            raise SystemExit(f"harness failed on {s}: {out[-1500:]}")
        rep = json.load(open(rp))
        return s, {"evaluations": rep.get("evaluations"), "shards": [os.path.basename(x["path"]) for x in rep["shards"]],
                   "lo": {os.path.basename(x["path"]): x["lo"] for x in rep["shards"]}, "n": n, "harness_s": round(time.time() - t0, 1)}
    with ThreadPoolExecutor(max_workers=6) as ex:
        for s, m in ex.map(one, streams):
            meta[s] = m
            print(f"cases {s}: {m['evaluations']} evaluations, {len(m['shards'])} shards, harness {m['harness_s']}s", flush=True)
    return meta


def run_shard(coqdir, shard, outdir, timeout):
    """evaluate one case file against the build in coqdir; returns (status, indices, seconds)
    status: ok (no mismatch) | mismatch | error | timeout.  The .vo goes to outdir (own directory per task:
    coqc wants the target's base name to be the source's)"""
    t0 = time.time()
    os.makedirs(outdir, exist_ok=True)
    outvo = os.path.join(outdir, os.path.basename(shard)[:-2] + ".vo")
    rc, out = sh(["coqc", "-noglob", "-Q", coqdir, "Nv", "-w", "-all", "-o", outvo, shard], timeout=timeout, cwd=os.path.dirname(shard))
    dt = time.time() - t0
    shutil.rmtree(outdir, ignore_errors=True)
    if rc == 124:
        return "timeout", [], dt
    m = re.search(r"result\s*=\s*(.*?)\s*:\s*list", out, re.S)
    if rc != 0 or not m:
        return "error", [out[-300:]], dt
    idx = [int(x) for x in re.findall(r"\d+", m.group(1))]
    return ("mismatch" if idx else "ok"), idx, dt


def baseline(meta, scratch):
    """all shards against the unmutated build: must be clean; records the time of every shard"""
    tasks = [(s, f) for s in meta for f in meta[s]["shards"]]
    os.makedirs(os.path.join(scratch, "base"), exist_ok=True)

    def one(t):
        s, f = t
        st, idx, dt = run_shard(COQ, os.path.join(CASES, s, f), os.path.join(scratch, "base", f"{s}_{f}"), 1500)
        return s, f, st, idx, dt
    bad = []
    with ThreadPoolExecutor(max_workers=JOBS) as ex:
        for s, f, st, idx, dt in ex.map(one, tasks):
            meta[s].setdefault("base_s", {})[f] = round(dt, 2)
            if st != "ok":
                bad.append((s, f, st, idx[:5]))
    for s in meta:
        meta[s]["base_cpu_s"] = round(sum(meta[s]["base_s"].values()), 1)
    return bad


# ------------------------------------------------------------------------------------------
def build_mutant(c, src, scratch, streams, meta):
    """scratch copy: symlinks to the .vo of everything that does not depend on the mutated file; the mutated
    file and the runner-side files that depend on it are compiled.  Returns (ok, coqdir, log, seconds)"""
    t0 = time.time()
    d = os.path.join(scratch, "m", c["id"])
    shutil.rmtree(d, ignore_errors=True)
    node = f"Model/{c['file']}"
    rel = relevant_streams(c["file"], streams)
    needed = set()
    for s in rel:
        for r in stream_runners(s):
            needed.add(r)
            needed |= ancestors(r)
    recompile = [x for x in needed if x == node or node in ancestors(x)]
    order = topo(recompile)
    for sub in ("Run", "Model", "Base", "Gen"):
        os.makedirs(os.path.join(d, sub), exist_ok=True)
    for x in needed:
        if x in recompile:
            shutil.copyfile(os.path.join(COQ, x + ".v"), os.path.join(d, x + ".v"))
        else:
            os.symlink(os.path.join(COQ, x + ".vo"), os.path.join(d, x + ".vo"))
    mut = apply_edits(src, c["edits"])
    open(os.path.join(d, node + ".v"), "w", encoding="utf-8").write(mut)
    log = ""
    for x in order:
        rc, out = sh(["coqc", "-q", "-noglob", "-Q", ".", "Nv", "-w", WARN, x + ".v"], cwd=d, timeout=600)
        if rc != 0:
            log = f"{x}: " + out[-600:]
            shutil.rmtree(d, ignore_errors=True)
            return False, None, log, time.time() - t0, rel
    return True, d, log, time.time() - t0, rel


def select(cands_by_file, target, rng, quota=None):
    """spread the target over files (by number of candidates, min 8) and, inside a file, over operators round-robin"""
    total = sum(len(v) for v in cands_by_file.values())
    order = {}
    for f, cs in cands_by_file.items():
        byop = {}
        for c in cs:
            byop.setdefault(c["op"], []).append(c)
        for op in byop:
            rng.shuffle(byop[op])
        ops = sorted(byop)
        seq = []
        while any(byop[o] for o in ops):
            for o in ops:
                if byop[o]:
                    seq.append(byop[o].pop())
        order[f] = seq
    want = {}
    for f, cs in cands_by_file.items():
        want[f] = min(len(cs), max(8, round(target * (len(cs) ** 0.7) / sum(len(v) ** 0.7 for v in cands_by_file.values()))))
    if quota:
        want.update(quota)
    return order, want


def cmd_list(args):
    files = args.files.split(",") if args.files else MODEL_FILES
    tot = 0
    for f in files:
        cs, _ = candidates(f)
        ops = {}
        for c in cs:
            ops[c["op"]] = ops.get(c["op"], 0) + 1
        print(f"{f}: {len(cs)} candidates  " + " ".join(f"{k}={v}" for k, v in sorted(ops.items())))
        tot += len(cs)
        if args.verbose:
            for c in cs:
                print(f"   {c['id']}: {c['descr']}")
    print(f"total {tot}")


def cmd_show(args):
    for f in MODEL_FILES:
        cs, src = candidates(f)
        for c in cs:
            if c["id"] == args.id:
                mut = apply_edits(src, c["edits"])
                a, b = os.path.join("/tmp", "mm_show_a.v"), os.path.join("/tmp", "mm_show_b.v")
                open(a, "w").write(src)
                open(b, "w").write(mut)
                print(c["descr"])
                print(sh(["diff", "-u", a, b])[1])
                return
    print("no such mutant")


def ensure_runners():
    """the unmutated runners must be up to date (a stale Run/*.vo would look like a kill)"""
    targets = [l.strip()[:-2] + ".vo" for l in open(os.path.join(COQ, "_CoqProject")) if l.startswith("Run/") and l.strip().endswith(".v")]
    rc, out = sh(["make", "-f", "Makefile.coq", "-j", str(JOBS)] + targets, cwd=COQ, timeout=3000)
    if rc != 0:
        raise SystemExit("building the runners failed:\n" + out[-2000:])


def cmd_cases(args):
    os.makedirs(MM, exist_ok=True)
    ensure_runners()
    streams = args.streams.split(",") if args.streams else STREAMS
    mp = os.path.join(MM, "cases.json")
    meta = json.load(open(mp)) if os.path.exists(mp) and args.streams else {}
    meta.update(gen_cases(args.seed, args.tier, streams))
    scratch = os.environ.get("MM_SCRATCH", f"/tmp/mm-{os.getpid()}")
    os.makedirs(scratch, exist_ok=True)
    sub = {s: meta[s] for s in streams}
    bad = baseline(sub, scratch)
    json.dump(meta, open(mp, "w"), indent=1)
    shutil.rmtree(scratch, ignore_errors=True)
    for s in streams:
        print(f"baseline {s}: cpu {meta[s]['base_cpu_s']}s over {len(meta[s]['shards'])} shards")
    if bad:
        print("BASELINE NOT CLEAN:", bad)
        return 1
    print("baseline clean (0 mismatches on the unmutated model)")
    return 0


def cmd_run(args):
    t_start = time.time()
    mp = os.path.join(MM, "cases.json")
    if not os.path.exists(mp):
        raise SystemExit("run `tools/model_mutate.py cases` first")
    meta = json.load(open(mp))
    streams = [s for s in STREAMS if s in meta]
    files = args.files.split(",") if args.files else MODEL_FILES
    rng = random.Random(args.seed)
    scratch = os.environ.get("MM_SCRATCH", f"/tmp/mm-{os.getpid()}")
    os.makedirs(os.path.join(scratch, "o"), exist_ok=True)
    srcs, cbf = {}, {}
    for f in files:
        cbf[f], srcs[f] = candidates(f)
    byid = {c["id"]: c for f in files for c in cbf[f]}
    if args.ops:
        keep = set(args.ops.split(","))
        for f in files:
            cbf[f] = [c for c in cbf[f] if c["op"] in keep]
    if args.exclude:
        # a further sample: leave out the mutants (and the candidates found ill-typed) of earlier campaigns
        gone = set()
        for p in args.exclude.split(","):
            prev = json.load(open(p))
            gone |= {m["id"] for m in prev["mutants"]} | {m["id"] for m in prev["discarded"]}
        for f in files:
            cbf[f] = [c for c in cbf[f] if c["id"] not in gone]
    fixed = None
    if args.only:
        fixed = [byid[i] for i in args.only.split(",")]
    elif getattr(args, "from_json", None):
        prev = json.load(open(args.from_json))
        fixed = [byid[m["id"]] for m in prev["mutants"] if m["id"] in byid and m["file"] in files]
        missing = [m["id"] for m in prev["mutants"] if m["id"] not in byid]
        if missing:
            print(f"WARNING: {len(missing)} mutants of the previous run no longer exist (model changed?): {missing[:5]}")
    elif args.survivors_of:
        prev = json.load(open(args.survivors_of))
        fixed = [byid[m["id"]] for m in prev["mutants"] if m["verdict"] == "survived" and m["id"] in byid]
    # ---- build phase: keep building candidates until the per-file quota of type-correct mutants is reached
    built, discarded = [], []
    lock = threading.Lock()
    if fixed is not None:
        queue = [(c, None) for c in fixed]
        want = None
    else:
        order, want = select(cbf, args.target, rng)
        queue = None
    print(f"scratch {scratch}; streams {streams}", flush=True)

    def build_one(c):
        ok, d, log, dt, rel = build_mutant(c, srcs[c["file"]], scratch, streams, meta)
        return c, ok, d, log, dt, rel
    if fixed is not None:
        with ThreadPoolExecutor(max_workers=JOBS) as ex:
            for c, ok, d, log, dt, rel in ex.map(build_one, fixed):
                (built if ok else discarded).append(dict(c, dir=d, build_s=round(dt, 1), streams=rel, log=log))
    else:
        have = {f: 0 for f in files}
        pos = {f: 0 for f in files}
        while True:
            batch = []
            for f in files:
                need = want[f] - have[f]
                # over-provision a little: some will not type-check
                take = min(len(order[f]) - pos[f], max(0, need))
                batch += order[f][pos[f]:pos[f] + take]
                pos[f] += take
            if not batch:
                break
            with ThreadPoolExecutor(max_workers=JOBS) as ex:
                for c, ok, d, log, dt, rel in ex.map(build_one, batch):
                    if ok:
                        have[c["file"]] += 1
                        built.append(dict(c, dir=d, build_s=round(dt, 1), streams=rel))
                    else:
                        discarded.append(dict(c, log=log))
            print(f"built {len(built)} type-correct mutants, {len(discarded)} discarded ({time.time() - t_start:.0f}s)", flush=True)
    print(f"build phase done: {len(built)} mutants, {len(discarded)} discarded, {time.time() - t_start:.0f}s", flush=True)
    # ---- evaluation
    # phase A (verdicts): every mutant against its relevant streams until the FIRST kill; a survivor has seen every
    #   case of every relevant stream.  Task order: shard index outermost, then the stream's rank for the mutated
    #   file (anchor streams first), so that a kill in an early shard spares everything that follows.
    # phase B (matrix): for a random sample of the killed mutants (all of them if time allows) the remaining
    #   (mutant, stream) pairs are decided too, mutant after mutant, until the time budget is used up; per-stream
    #   kill rates are computed over the mutants whose row is complete.
    nsh = {s: len(meta[s]["shards"]) for s in streams}
    res = {m["id"]: {s: {"status": "pending", "shards_run": 0, "first": None} for s in m["streams"]} for m in built}
    dead = set()         # (id, stream) decided killed
    mdead = set()        # id killed by some stream
    done = [0]
    t_eval = time.time()
    deadline = [None]

    def rank(m, s):
        pref = ANCHOR.get(m["file"], [])
        return pref.index(s) if s in pref else len(pref) + sorted(streams, key=lambda x: meta[x].get("base_cpu_s", 0)).index(s)

    def ev(t, first_kill):
        k, s, m = t
        key = (m["id"], s)
        if key in dead or (first_kill and m["id"] in mdead):
            return
        if deadline[0] is not None and time.time() > deadline[0]:
            return
        f = meta[s]["shards"][k]
        base = meta[s].get("base_s", {}).get(f, 30)
        to = max(args.min_timeout, base * args.timeout_factor)
        st, idx, dt = run_shard(m["dir"], os.path.join(CASES, s, f), os.path.join(scratch, "o", f"{m['id']}_{s}_{k}"), to)
        with lock:
            r = res[m["id"]][s]
            r["shards_run"] += 1
            r["cpu_s"] = round(r.get("cpu_s", 0) + dt, 1)
            if st != "ok" and r["status"] == "pending":
                r["status"] = {"mismatch": "killed", "error": "killed-error", "timeout": "killed-timeout"}[st]
                r["first"] = {"shard": f, "cases": [meta[s]["lo"][f] + i for i in idx[:5]] if st == "mismatch" else [], "msg": "" if st == "mismatch" else str(idx[:1])[:300]}
                dead.add(key)
                mdead.add(m["id"])
            done[0] += 1
            if done[0] % 500 == 0:
                print(f"  {done[0]} shard evaluations, {len(mdead)} mutants killed so far, {time.time() - t_eval:.0f}s", flush=True)
    tasks = [(k, s, m) for m in built for s in m["streams"] for k in range(nsh[s])]
    tasks.sort(key=lambda t: (t[0], rank(t[2], t[1])))
    with ThreadPoolExecutor(max_workers=JOBS) as ex:
        list(ex.map(lambda t: ev(t, not args.full_matrix), tasks))
    t_a = time.time() - t_eval
    print(f"phase A done: {len(mdead)} of {len(built)} killed, {done[0]} shard evaluations, {t_a:.0f}s", flush=True)
    if not args.full_matrix and args.matrix_min > 0:
        deadline[0] = time.time() + 60 * args.matrix_min
        killed = [m for m in built if m["id"] in mdead]
        random.Random(args.seed + 1).shuffle(killed)
        tb = []
        for m in killed:
            row = [(k, s, m) for s in m["streams"] if (m["id"], s) not in dead for k in range(nsh[s]) ]
            row.sort(key=lambda t: (t[0], rank(m, t[1])))
            tb += row
        # shards already evaluated in phase A are evaluated again here (cheap relative to bookkeeping); reset the counters
        for m in killed:
            for s in m["streams"]:
                if (m["id"], s) not in dead:
                    res[m["id"]][s]["shards_run"] = 0
        with ThreadPoolExecutor(max_workers=JOBS) as ex:
            list(ex.map(lambda t: ev(t, False), tb))
        print(f"phase B done: {time.time() - t_eval - t_a:.0f}s", flush=True)
    # descriptions of the killing cases
    descr_cache = {}

    def descr(s, i):
        if s not in descr_cache:
            p = os.path.join(CASES, s, f"cases_{s}.txt")
            descr_cache[s] = open(p, encoding="utf-8").read().split("\n") if os.path.exists(p) else []
        d = descr_cache[s]
        return d[i][:200] if isinstance(i, int) and i < len(d) else ""
    out_m = []
    for m in built:
        per = res[m["id"]]
        for s, r in per.items():
            if r["status"] == "pending":
                r["status"] = "survived" if r["shards_run"] >= nsh[s] else "not-run"
            if r["status"] == "killed" and r["first"]:
                r["first"]["descr"] = descr(s, r["first"]["cases"][0]) if r["first"]["cases"] else ""
        killers = [s for s, r in per.items() if r["status"].startswith("killed")]
        verdict = "killed" if killers else "survived"
        complete = all(r["status"] != "not-run" for r in per.values())
        if verdict == "survived" and not complete:
            verdict = "undecided"
        out_m.append({"id": m["id"], "file": m["file"], "op": m["op"], "line": m["line"], "descr": m["descr"], "context": m["context"],
                      "verdict": verdict, "killed_by": killers, "row_complete": complete, "streams": per, "build_s": m["build_s"]})
        shutil.rmtree(m["dir"], ignore_errors=True)
    result = {"seed": args.seed, "streams": {s: {k: meta[s][k] for k in ("evaluations", "n", "base_cpu_s")} for s in streams},
              "full_matrix": bool(args.full_matrix), "wall_s": round(time.time() - t_start), "mutants": out_m,
              "discarded": [{"id": c["id"], "descr": c["descr"], "log": c.get("log", "")[-300:]} for c in discarded]}
    outdir = args.out or os.path.join(ROOT, "seeded", "model_mutants")
    os.makedirs(outdir, exist_ok=True)
    json.dump(result, open(os.path.join(outdir, args.name + ".json"), "w"), indent=1, ensure_ascii=False)
    write_report(result, os.path.join(outdir, args.name.replace("results", "REPORT") + ".md"))
    shutil.rmtree(scratch, ignore_errors=True)
    nk = sum(1 for m in out_m if m["verdict"] == "killed")
    print(f"{len(out_m)} mutants: {nk} killed, {len(out_m) - nk} survived; {len(discarded)} discarded (not type-correct); wall {result['wall_s']}s")
    for m in out_m:
        if m["verdict"] != "killed":
            print(f"  {m['verdict'].upper()} {m['id']}: {m['descr']}")
    return 0


def write_report(result, path):
    ms = result["mutants"]
    L = []
    L.append("# Model mutation testing of the correspondence check\n")
    L.append("Generated by `tools/model_mutate.py run` (see `design/model_mutation.md` for method and analysis).\n")
    nk = sum(1 for m in ms if m["verdict"] == "killed")
    full = [m for m in ms if m.get("row_complete")]
    L.append(f"* mutants built (type-correct): **{len(ms)}**; killed **{nk}** ({100.0 * nk / max(1, len(ms)):.1f} %); survived **{len(ms) - nk}**; "
             f"candidates discarded because they do not type-check: {len(result['discarded'])}")
    L.append(f"* selection seed {result['seed']}; wall time {result['wall_s']} s; verdicts: every mutant is run against every stream whose runner "
             f"depends on the mutated file until the first kill (a survivor has seen every case of every such stream); "
             f"matrix: {len(full)} mutants (all survivors + a random sample of the killed) were run against ALL their streams\n")
    L.append("## Kill rate per model file\n")
    L.append("| model file | mutants | killed | survived | kill rate |")
    L.append("|---|---|---|---|---|")
    files = []
    for m in ms:
        if m["file"] not in files:
            files.append(m["file"])
    for f in files:
        sub = [m for m in ms if m["file"] == f]
        k = sum(1 for m in sub if m["verdict"] == "killed")
        L.append(f"| Model/{f}.v | {len(sub)} | {k} | {len(sub) - k} | {100.0 * k / len(sub):.0f} % |")
    L.append("")
    L.append("## Kill rate per mutation operator\n")
    L.append("| operator | mutants | killed | survived |")
    L.append("|---|---|---|---|")
    for op in sorted({m["op"] for m in ms}):
        sub = [m for m in ms if m["op"] == op]
        k = sum(1 for m in sub if m["verdict"] == "killed")
        L.append(f"| {op} | {len(sub)} | {k} | {len(sub) - k} |")
    L.append("")
    L.append("## Kill rate per property stream\n")
    kfull = [m for m in full if m["verdict"] == "killed"]
    L.append(f"Computed over the **{len(kfull)} killed mutants that were run against ALL their streams** (a random sample of the killed "
             "mutants; survivors are killed by no stream by definition and are left out here).  `exposed` = those among them whose "
             "mutated file the stream's runner depends on; `kills` = how many of these the stream kills on its own; `only killer of` = "
             "killed by this stream and by no other (what would be lost without the stream).  `first killer` counts, over ALL killed "
             "mutants, the stream that killed first in the verdict phase (the anchor streams of a file are tried first).\n")
    L.append("| stream | cases | exposed | kills | share | only killer of | first killer |")
    L.append("|---|---|---|---|---|---|---|")
    for s in result["streams"]:
        sub = [m for m in kfull if s in m["streams"]]
        k = [m for m in sub if m["streams"][s]["status"].startswith("killed")]
        only = [m for m in k if len(m["killed_by"]) == 1]
        fk = sum(1 for m in ms if m["killed_by"] and m["killed_by"][0] == s)
        if sub:
            L.append(f"| {s} | {result['streams'][s]['evaluations']} | {len(sub)} | {len(k)} | {100.0 * len(k) / len(sub):.0f} % | {len(only)} | {fk} |")
    L.append("")
    L.append("## Kill matrix: model file x stream (kills / exposed, killed mutants with a complete row)\n")
    ss = list(result["streams"])
    L.append("| file | " + " | ".join(ss) + " |")
    L.append("|---|" + "---|" * len(ss))
    for f in files:
        row = []
        for s in ss:
            sub = [m for m in kfull if m["file"] == f and s in m["streams"]]
            k = sum(1 for m in sub if m["streams"][s]["status"].startswith("killed"))
            row.append(f"{k}/{len(sub)}" if sub else "")
        L.append(f"| {f} | " + " | ".join(row) + " |")
    L.append("")
    L.append("## Survivors\n")
    for m in ms:
        if m["verdict"] != "killed":
            L.append(f"* `{m['id']}` (line {m['line']}, {m['verdict']}): {m['descr']}  \n  `{m['context'][:160]}`")
    L.append("")
    L.append("## Mutants killed only through an evaluation error / timeout (no mismatching case)\n")
    for m in ms:
        if m["verdict"] == "killed" and all(not m["streams"][s]["status"] == "killed" for s in m["killed_by"]):
            L.append(f"* `{m['id']}`: {m['descr']} -- " + ", ".join(f"{s}:{m['streams'][s]['status']}" for s in m["killed_by"]))
    L.append("")
    L.append("## All mutants\n")
    L.append("| id | mutation | verdict | killed by (first case) |")
    L.append("|---|---|---|---|")
    for m in ms:
        kb = []
        for s in m["killed_by"]:
            fc = (m["streams"][s].get("first") or {}).get("cases") or []
            kb.append(f"{s}#{fc[0]}" if fc else f"{s}({m['streams'][s]['status'][7:]})")
        L.append(f"| `{m['id']}` | {m['descr'].replace('|', '&#124;')} | {m['verdict']} | {' '.join(kb)} |")
    open(path, "w", encoding="utf-8").write("\n".join(L) + "\n")


def cmd_summary(args):
    """seeded/model_mutants/REPORT.md + results.json: the campaigns side by side (label=file pairs; a label ending in
    `:before` marks a run on the harness as found)"""
    outdir = os.path.join(ROOT, "seeded", "model_mutants")
    runs = []
    for spec in args.runs:
        label, path = spec.split("=", 1)
        runs.append((label, path, json.load(open(path))))
    L = ["# Model mutation testing of the correspondence check: summary\n",
         "Method, analysis of the survivors and the blind spots that were repaired: `design/model_mutation.md` (DESIGN 9.8); "
         "classification of every survivor: `ANALYSIS.md`; one report per run: the `REPORT_*.md` files next to this one; tool: "
         "`tools/model_mutate.py`.\n",
         "## Runs\n",
         "| run | result file | mutants | killed | survived | kill rate | ill-typed candidates | wall s |", "|---|---|---|---|---|---|---|---|"]
    summary = {"runs": []}
    for label, path, r in runs:
        ms = r["mutants"]
        k = sum(1 for m in ms if m["verdict"] == "killed")
        L.append(f"| {label.replace(':before', '')} | `{os.path.basename(path)}` | {len(ms)} | {k} | {len(ms) - k} | {100.0 * k / len(ms):.1f} % | {len(r['discarded'])} | {r['wall_s']} |")
        summary["runs"].append({"label": label, "file": os.path.basename(path), "mutants": len(ms), "killed": k, "survived": len(ms) - k,
                                "survivors": [m["id"] for m in ms if m["verdict"] != "killed"]})
    L.append("")
    final = [(l, p_, r) for (l, p_, r) in runs if not l.endswith(":before")]
    allm = [m for (_l, _p, r) in final for m in r["mutants"]]
    k = sum(1 for m in allm if m["verdict"] == "killed")
    L.append(f"## All mutants on the harness as it is now ({len(allm)} distinct mutants, {k} killed = {100.0 * k / len(allm):.1f} %, "
             f"{len(allm) - k} survivors, every one classified as equivalent / unreachable in `ANALYSIS.md`)\n")
    L.append("### per model file\n")
    L.append("| model file | mutants | killed | survived | kill rate |")
    L.append("|---|---|---|---|---|")
    per_file = {}
    for f in MODEL_FILES:
        sub = [m for m in allm if m["file"] == f]
        if sub:
            kk = sum(1 for m in sub if m["verdict"] == "killed")
            per_file[f] = {"mutants": len(sub), "killed": kk}
            L.append(f"| Model/{f}.v | {len(sub)} | {kk} | {len(sub) - kk} | {100.0 * kk / len(sub):.0f} % |")
    L.append("")
    L.append("### per mutation operator\n")
    L.append("| operator | mutants | killed | survived |")
    L.append("|---|---|---|---|")
    for op in sorted({m["op"] for m in allm}):
        sub = [m for m in allm if m["op"] == op]
        kk = sum(1 for m in sub if m["verdict"] == "killed")
        L.append(f"| {op} | {len(sub)} | {kk} | {len(sub) - kk} |")
    L.append("")
    L.append("### per property stream\n")
    kfull = [m for m in allm if m["verdict"] == "killed" and m.get("row_complete")]
    L.append(f"Over the {len(kfull)} killed mutants that were run against ALL their streams (random samples; see the single reports for the "
             "definitions).\n")
    L.append("| stream | exposed | kills | share | only killer of | first killer (all killed mutants) |")
    L.append("|---|---|---|---|---|---|")
    per_stream = {}
    for st in STREAMS:
        sub = [m for m in kfull if st in m["streams"]]
        kk = [m for m in sub if m["streams"][st]["status"].startswith("killed")]
        only = [m for m in kk if len(m["killed_by"]) == 1]
        fk = sum(1 for m in allm if m["killed_by"] and m["killed_by"][0] == st)
        if sub:
            per_stream[st] = {"exposed": len(sub), "kills": len(kk), "only_killer_of": len(only), "first_killer": fk}
            L.append(f"| {st} | {len(sub)} | {len(kk)} | {100.0 * len(kk) / len(sub):.0f} % | {len(only)} | {fk} |")
    L.append("")
    L.append("## Survivors on the harness as it is now\n")
    for m in allm:
        if m["verdict"] != "killed":
            L.append(f"* `{m['id']}`: {m['descr']}")
    summary["now"] = {"mutants": len(allm), "killed": k, "per_file": per_file, "per_stream": per_stream}
    open(os.path.join(outdir, "REPORT.md"), "w", encoding="utf-8").write("\n".join(L) + "\n")
    json.dump(summary, open(os.path.join(outdir, "results.json"), "w"), indent=1, ensure_ascii=False)
    print(f"{len(allm)} mutants, {k} killed")
    return 0



def main():
    ap = argparse.ArgumentParser()
    sub = ap.add_subparsers(dest="cmd")
    a = sub.add_parser("cases")
    a.add_argument("--seed", type=int, default=20260926)
    a.add_argument("--tier", default="quick")
    a.add_argument("--streams", default="")
    a = sub.add_parser("list")
    a.add_argument("--files", default="")
    a.add_argument("-v", "--verbose", action="store_true")
    a = sub.add_parser("show")
    a.add_argument("id")
    a = sub.add_parser("summary")
    a.add_argument("runs", nargs="+", help="label=results.json ...")
    a = sub.add_parser("report")
    a.add_argument("json", nargs="+")
    a = sub.add_parser("run")
    a.add_argument("--target", type=int, default=260)
    a.add_argument("--seed", type=int, default=1)
    a.add_argument("--files", default="")
    a.add_argument("--only", default="")
    a.add_argument("--from", dest="from_json", default="")
    a.add_argument("--survivors-of", default="")
    a.add_argument("--exclude", default="", help="results json files of earlier campaigns whose mutants are left out")
    a.add_argument("--ops", default="", help="restrict to these mutation operators (comma separated)")
    a.add_argument("--full-matrix", action="store_true", help="every mutant against every relevant stream (slow)")
    a.add_argument("--matrix-min", type=float, default=20.0, help="time budget (minutes) of the matrix phase")
    a.add_argument("--out", default="")
    a.add_argument("--name", default="results")
    a.add_argument("--timeout-factor", type=float, default=6.0)
    a.add_argument("--min-timeout", type=float, default=240.0)
    args = ap.parse_args()
    if args.cmd == "cases":
        return cmd_cases(args)
    if args.cmd == "list":
        return cmd_list(args)
    if args.cmd == "show":
        return cmd_show(args)
    if args.cmd == "run":
        return cmd_run(args)
    if args.cmd == "summary":
        return cmd_summary(args)
    if args.cmd == "report":
        for p in args.json:
            write_report(json.load(open(p)), os.path.join(os.path.dirname(p), os.path.basename(p)[:-5].replace("results", "REPORT") + ".md"))
        return 0
    ap.print_help()
    return 2


if __name__ == "__main__":
    sys.exit(main())
