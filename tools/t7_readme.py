"""Translator table T7 (property C11).

  README.md   ```pest block  ->  coq/Gen/ReadmeGrammar.v   `readme_grammar` (PEG AST of Model/Readme.v)
  README.en.md               ->  compared rule by rule: `readme_en_diff`
  Python unicodedata         ->  coq/Gen/ReadmeUnicode.v   general categories L/N/P/S as range tables
                                 (= pest LETTER / NUMBER / PUNCTUATION / SYMBOL)
  impl_lexical/format_instances.rs `create_format_ascii`
                             ->  coq/Gen/ReadmeLexAscii.v  keyword lists of the lexical ASCII format

Fails closed (TranslateError) on every pest construct the Coq interpreter does not implement.
`gen_T7(repo, T)` takes the translator module `T` (helpers read / load / coq_str / HEADER ...).
"""
import re

from rustlex import TranslateError, OPEN, match_close, find_seq, split_top, text, fn_body

PEST_BUILTIN_CLASSES = {  # built-in character-class rules of pest handled by Model/Readme.v `uclass`
    "ASCII_DIGIT": "UAsciiDigit", "LETTER": "ULetter", "NUMBER": "UNumber",
    "PUNCTUATION": "UPunctuation", "SYMBOL": "USymbol", "WHITE_SPACE": "UWhiteSpace",
}
PEST_BUILTIN_ATOMS = {"ANY": "PAny", "SOI": "PSoi", "EOI": "PEoi"}
PEST_MODIFIERS = {"": "MNormal", "_": "MSilent", "@": "MAtomic", "$": "MCompound", "!": "MNonAtomic"}
_PEST_ESC = {"n": "\n", "r": "\r", "t": "\t", "0": "\0", "\\": "\\", '"': '"', "'": "'"}


def pest_block(md, what):
    """the single ```pest fenced block of a markdown text"""
    blocks = re.findall(r"^```pest[ \t]*\r?\n(.*?)^```[ \t]*\r?$", md, re.S | re.M)
    if len(blocks) != 1:
        raise TranslateError(f"{what}: expected exactly one ```pest block, found {len(blocks)}")
    return blocks[0]


def pest_unescape(body):
    out, i, n = [], 0, len(body)
    while i < n:
        c = body[i]
        if c == "\\":
            if i + 1 >= n:
                raise TranslateError("pest: dangling backslash in literal")
            d = body[i + 1]
            if d in _PEST_ESC:
                out.append(_PEST_ESC[d])
                i += 2
            elif d == "x":
                out.append(chr(int(body[i + 2:i + 4], 16)))
                i += 4
            elif d == "u":
                j = body.index("}", i)
                out.append(chr(int(body[i + 3:j], 16)))
                i = j + 1
            else:
                raise TranslateError(f"pest: unknown escape \\{d}")
        else:
            out.append(c)
            i += 1
    return "".join(out)


def pest_tokenize(src):
    """tokens: ('id', name) | ('str', text) | ('chr', c) | ('op', s); comments (`//`, `///`, `/* */`) dropped"""
    toks, i, n = [], 0, len(src)
    while i < n:
        c = src[i]
        if c in " \t\r\n":
            i += 1
        elif src.startswith("//", i):
            j = src.find("\n", i)
            i = n if j < 0 else j
        elif src.startswith("/*", i):
            depth, i = 1, i + 2
            while depth and i < n:
                if src.startswith("/*", i):
                    depth, i = depth + 1, i + 2
                elif src.startswith("*/", i):
                    depth, i = depth - 1, i + 2
                else:
                    i += 1
            if depth:
                raise TranslateError("pest: unterminated block comment")
        elif c == '"' or c == "'":
            j = i + 1
            while j < n and src[j] != c:
                j += 2 if src[j] == "\\" else 1
            if j >= n:
                raise TranslateError("pest: unterminated literal")
            val = pest_unescape(src[i + 1:j])
            if c == "'" and len(val) != 1:
                raise TranslateError("pest: character literal of length != 1")
            toks.append(("str" if c == '"' else "chr", val))
            i = j + 1
        elif re.match(r"[A-Za-z_]", c):
            m = re.match(r"[A-Za-z_][A-Za-z0-9_]*", src[i:])
            toks.append(("id", m.group(0)))
            i += len(m.group(0))
        elif src.startswith("..", i):
            toks.append(("op", ".."))
            i += 2
        elif c in "={}()~|*+?!&@$^,#[]<>-":
            toks.append(("op", c))
            i += 1
        else:
            raise TranslateError(f"pest: unexpected character {c!r}")
    return toks


class PestParser:
    """recursive descent over pest_tokenize output for the subset of pest used by the README:
         expression := seq ('|' seq)* ;  seq := pre ('~' pre)* ;  pre := ('!'|'&')* post ;
         post := prim ('*'|'+'|'?')* ;   prim := string | 'c'..'c' | identifier | '(' expression ')'
       (pest's own precedence: a prefix predicate applies to the operand with all its postfix operators;
       `~` binds tighter than `|`; both are emitted right-nested, which is what pest's optimizer produces).
       Everything else (PUSH/PEEK/POP, ^"..", {n,m}, #tags, leading '|') raises TranslateError."""

    def __init__(self, toks, rule_names):
        self.t, self.i, self.rules = toks, 0, rule_names

    def peek(self):
        return self.t[self.i] if self.i < len(self.t) else ("eof", "")

    def take(self):
        tok = self.peek()
        self.i += 1
        return tok

    def expression(self):
        alts = [self.seq()]
        while self.peek() == ("op", "|"):
            self.take()
            alts.append(self.seq())
        e = alts[-1]
        for a in reversed(alts[:-1]):
            e = ("choice", a, e)
        return e

    def seq(self):
        items = [self.pre()]
        while self.peek() == ("op", "~"):
            self.take()
            items.append(self.pre())
        e = items[-1]
        for a in reversed(items[:-1]):
            e = ("seq", a, e)
        return e

    def pre(self):
        tok = self.peek()
        if tok == ("op", "!"):
            self.take()
            return ("not", self.pre())
        if tok == ("op", "&"):
            self.take()
            return ("and", self.pre())
        return self.post()

    def post(self):
        e = self.prim()
        while True:
            tok = self.peek()
            if tok == ("op", "*"):
                e = ("star", e)
            elif tok == ("op", "+"):
                e = ("plus", e)
            elif tok == ("op", "?"):
                e = ("opt", e)
            elif tok == ("op", "{"):
                raise TranslateError("pest: bounded repetition `{n,m}` is not handled")
            else:
                return e
            self.take()

    def prim(self):
        kind, val = self.take()
        if kind == "str":
            return ("str", val)
        if kind == "chr":
            if self.take() != ("op", ".."):
                raise TranslateError("pest: character literal outside a range")
            k2, v2 = self.take()
            if k2 != "chr":
                raise TranslateError("pest: malformed character range")
            return ("range", val, v2)
        if kind == "id":
            if self.peek() == ("op", "("):
                raise TranslateError(f"pest: call syntax `{val}(...)` (PUSH/PEEK/POP) is not handled")
            if val in self.rules:
                return ("ref", val)
            if val in PEST_BUILTIN_ATOMS:
                return ("atom", val)
            if val in PEST_BUILTIN_CLASSES:
                return ("class", val)
            raise TranslateError(f"pest: `{val}` is neither a rule of the grammar nor a built-in handled by the model")
        if (kind, val) == ("op", "("):
            e = self.expression()
            if self.take() != ("op", ")"):
                raise TranslateError("pest: missing `)`")
            return e
        raise TranslateError(f"pest: unexpected token {val!r} in an expression")


def pest_split_rules(toks):
    """[(name, modifier, body_tokens)] ; fails closed on anything that is not `name = modifier? { ... }`"""
    rules, i, n = [], 0, len(toks)
    while i < n:
        if toks[i][0] != "id" or i + 2 >= n or toks[i + 1] != ("op", "="):
            raise TranslateError(f"pest: expected `name = {{ ... }}` at token {toks[i]!r}")
        name = toks[i][1]
        j = i + 2
        mod = ""
        if toks[j] in (("id", "_"), ("op", "@"), ("op", "$"), ("op", "!")):
            mod = toks[j][1]
            j += 1
        if j >= n or toks[j] != ("op", "{"):
            raise TranslateError(f"pest: rule {name}: expected `{{`")
        depth, k = 0, j
        while k < n:
            if toks[k] == ("op", "{"):
                depth += 1
            elif toks[k] == ("op", "}"):
                depth -= 1
                if depth == 0:
                    break
            k += 1
        if k >= n:
            raise TranslateError(f"pest: rule {name}: unbalanced braces")
        rules.append((name, mod, toks[j + 1:k]))
        i = k + 1
    return rules


def pest_parse(src, lenient=False):
    """-> (ordered [(name, modifier, ast)], {name: error}) ; strict mode raises on the first error"""
    split = pest_split_rules(pest_tokenize(src))
    names = [r[0] for r in split]
    if len(set(names)) != len(names):
        raise TranslateError("pest: duplicate rule names")
    if "COMMENT" in names:
        raise TranslateError("pest: an implicit COMMENT rule is not handled by the model")
    for nm in names:
        if nm in PEST_BUILTIN_ATOMS or nm in PEST_BUILTIN_CLASSES:
            raise TranslateError(f"pest: rule `{nm}` redefines a built-in")
    out, errors = [], {}
    for name, mod, body in split:
        try:
            p = PestParser(body, set(names))
            e = p.expression()
            if p.i != len(body):
                raise TranslateError(f"pest: rule {name}: trailing tokens after the expression: {body[p.i:][:3]!r}")
            out.append((name, mod, e))
        except TranslateError as e:
            if not lenient:
                raise
            errors[name] = str(e)
    return out, errors


def coq_ss(T, s):
    """Gallina `str` literal through Model/Readme.v `ss` (printable ASCII without a double quote) or a numeric list"""
    if s and all(32 <= ord(c) < 127 and c != '"' for c in s):
        return f'(ss "{s}")'
    return T.coq_str(s) if s else "[]"


def pest_emit(T, e):
    k = e[0]
    if k == "str":
        return f"PStr {coq_ss(T, e[1])}"
    if k == "range":
        return f"PRange {ord(e[1])}%N {ord(e[2])}%N"
    if k == "ref":
        return f"PRef {coq_ss(T, e[1])}"
    if k == "atom":
        return PEST_BUILTIN_ATOMS[e[1]]
    if k == "class":
        return f"PClass {PEST_BUILTIN_CLASSES[e[1]]}"
    if k in ("seq", "choice"):
        return f"{'PSeq' if k == 'seq' else 'PChoice'} ({pest_emit(T, e[1])}) ({pest_emit(T, e[2])})"
    return {"star": "PStar", "plus": "PPlus", "opt": "POpt", "not": "PNot", "and": "PAnd"}[k] + f" ({pest_emit(T, e[1])})"


def unicode_category_ranges(first_letter):
    import unicodedata
    out, cur = [], None
    for cp in range(0x110000):
        if unicodedata.category(chr(cp))[0] == first_letter:
            if cur is not None and cur[1] + 1 == cp:
                cur[1] = cp
            else:
                if cur is not None:
                    out.append(tuple(cur))
                cur = [cp, cp]
    if cur is not None:
        out.append(tuple(cur))
    return out


def lex_ascii_lists(T, repo):
    """keyword lists of impl_lexical/format_instances.rs `create_format_ascii` (macros x_fix_match_dict!,
       bi_fix_match_dict_pair!, suffix_match_dict_pair!, s!)"""
    rel = "src/conversion/string/impl_lexical/format_instances.rs"
    toks = T.load(repo, rel)
    body, _ = fn_body(toks, "create_format_ascii")
    i = find_seq(body, ["NarseseFormat", "{"])
    if i < 0:
        raise TranslateError("create_format_ascii: struct literal `NarseseFormat { .. }` not found")
    e = match_close(body, i + 1)
    if e != len(body) - 1:
        raise TranslateError("create_format_ascii: the struct literal is not the tail expression")

    def macro(ts):
        if len(ts) >= 4 and ts[0].kind == "id" and ts[1].is_p("!") and ts[2].kind == "punct" and ts[2].val in OPEN \
                and match_close(ts, 2) == len(ts) - 1:
            return ts[0].val, ts[3:-1]
        return None, None

    def value(ts, path):
        name, inner = macro(ts)
        if name == "s":
            parts = [p for p in split_top(inner, ",") if p]
            if not parts or not all(len(p) == 1 and p[0].kind == "str" for p in parts):
                raise TranslateError(f"{path}: s!(..) with non-literal arguments")
            return parts[0][0].val if len(parts) == 1 else tuple(p[0].val for p in parts)
        if name == "x_fix_match_dict":
            if not all(t.kind == "str" or t.is_p(",") for t in inner):
                raise TranslateError(f"{path}: x_fix_match_dict! with non-literal entries")
            return [t.val for t in inner if t.kind == "str"]
        if name in ("bi_fix_match_dict_pair", "suffix_match_dict_pair", "prefix_match_dict_pair"):
            items = [t for t in inner if not t.is_p(",")]
            if len(items) % 3 or not all(items[k].kind == "str" and items[k + 1].is_p("=>") and items[k + 2].kind == "str"
                                        for k in range(0, len(items), 3)):
                raise TranslateError(f"{path}: {name}! entries are not `\"l\" => \"r\"`")
            return [(items[k].val, items[k + 2].val) for k in range(0, len(items), 3)]
        if len(ts) >= 3 and ts[0].kind == "id" and ts[1].is_p("{") and match_close(ts, 1) == len(ts) - 1:
            return fields(ts[2:-1], path)
        return ("expr", text(ts))

    def fields(ts, path):
        out = {}
        for part in split_top(ts, ","):
            if not part:
                continue
            if len(part) == 1 and part[0].kind == "id":
                out[part[0].val] = ("expr", part[0].val)
                continue
            if not (part[0].kind == "id" and part[1].is_p(":")):
                raise TranslateError(f"{path}: unrecognised field `{text(part)}`")
            out[part[0].val] = value(part[2:], f"{path}.{part[0].val}")
        return out

    f = fields(body[i + 2:e], "ascii")
    want = [
        ("prefixes", ("atom", "prefixes"), list), ("set_brackets", ("compound", "set_brackets"), list),
        ("brackets", ("compound", "brackets"), tuple), ("separator", ("compound", "separator"), str),
        ("connecters", ("compound", "connecters"), list), ("statement_brackets", ("statement", "brackets"), tuple),
        ("copulas", ("statement", "copulas"), list), ("punctuations", ("sentence", "punctuations"), list),
        ("stamp_brackets", ("sentence", "stamp_brackets"), list), ("truth_brackets", ("sentence", "truth_brackets"), tuple),
        ("truth_separator", ("sentence", "truth_separator"), str), ("budget_brackets", ("task", "budget_brackets"), tuple),
        ("budget_separator", ("task", "budget_separator"), str), ("space_format_terms", ("space", "format_terms"), str),
        ("space_format_items", ("space", "format_items"), str),
    ]
    res = {}
    for k, (a, b), ty in want:
        v = f.get(a, {}).get(b) if isinstance(f.get(a), dict) else None
        if not isinstance(v, ty) or (ty is tuple and len(v) != 2):
            raise TranslateError(f"create_format_ascii: field {a}.{b} has an unrecognised shape: {v!r}")
        res[k] = v
    return rel, res


def gen_T7(repo, T):
    src = pest_block(T.read(repo, "README.md"), "README.md")
    rules, _ = pest_parse(src)
    names = [r[0] for r in rules]
    for name, mod, _ast in rules:
        if name == "WHITESPACE" and mod != "_":
            raise TranslateError("pest: a non-silent WHITESPACE rule is not handled by the model")
    # README.en.md: compared rule by rule (it need not be valid pest)
    en_src = pest_block(T.read(repo, "README.en.md"), "README.en.md")
    diff, en_detail = [], ""
    try:
        en_rules, en_err = pest_parse(en_src, lenient=True)
        en = {r[0]: r for r in en_rules}
        en_names = [r[0] for r in pest_split_rules(pest_tokenize(en_src))]
        for name, mod, ast in rules:
            if name in en_err:
                diff.append((name, "unparsable"))
            elif name not in en:
                diff.append((name, "missing"))
            elif en[name][1:] != (mod, ast):
                diff.append((name, "differs"))
        for name in en_names:
            if name not in names:
                diff.append((name, "extra"))
        if not diff and en_names != names:
            diff.append(("", "order"))
        en_detail = "; ".join(f"{k}: {v}" for k, v in en_err.items())
    except TranslateError as e:
        diff = [("", "unsplittable")]
        en_detail = str(e)
    g = [T.HEADER % "README.md (the pest block), README.en.md (compared)",
         "From Nv Require Import Model.Readme.\nFrom Coq Require Import String.\nOpen Scope N_scope.\n",
         "Definition readme_grammar : grammar := ["]
    for k, (name, mod, ast) in enumerate(rules):
        g.append(f"  {{| pr_name := {coq_ss(T, name)}; pr_mod := {PEST_MODIFIERS[mod]};\n     pr_body := {pest_emit(T, ast)} |}}"
                 + (";" if k + 1 < len(rules) else ""))
    g.append("].\n")
    g.append("(* rules of README.md whose counterpart in README.en.md is absent / different / not valid pest,\n   and rules only README.en.md has *)")
    if en_detail:
        g.append(f"(* README.en.md: {T.coq_comment_safe(en_detail)} *)")
    g.append("Definition readme_en_diff : list (str * str) := ["
             + "; ".join(f"({coq_ss(T, a)}, {coq_ss(T, b)})" for a, b in diff) + "].\n")

    import unicodedata
    u = [T.HEADER % f"Python unicodedata (Unicode {unicodedata.unidata_version}): general categories L / N / P / S = pest LETTER / NUMBER / PUNCTUATION / SYMBOL",
         "From Coq Require Import NArith List.\nImport ListNotations.\nOpen Scope N_scope.\n",
         f"(* Unicode version of the tables: {unicodedata.unidata_version} *)"]
    for nm, letter in (("letter", "L"), ("number", "N"), ("punctuation", "P"), ("symbol", "S")):
        rs = unicode_category_ranges(letter)
        u.append(f"Definition {nm}_ranges : list (N * N) := [" + "; ".join(f"({a},{b})" for a, b in rs) + "].")
    u.append("")

    rel, lx = lex_ascii_lists(T, repo)
    pair = lambda p: f"({T.coq_str(p[0])}, {T.coq_str(p[1])})"
    la = [T.HEADER % (rel + " (create_format_ascii)"),
          "From Nv Require Import Base.Str.\nOpen Scope N_scope.\n"]
    for k, v in lx.items():
        if isinstance(v, str):
            la.append(f"Definition lex_ascii_{k} : str := {T.coq_str(v)}. (* {T.coq_comment_safe(v)} *)")
        elif isinstance(v, tuple):
            la.append(f"Definition lex_ascii_{k} : str * str := {pair(v)}. (* {T.coq_comment_safe(' '.join(v))} *)")
        elif v and isinstance(v[0], tuple):
            la.append(f"Definition lex_ascii_{k} : list (str * str) := [" + "; ".join(pair(x) for x in v) + "]. (* "
                      + T.coq_comment_safe(" ".join(a + "=>" + b for a, b in v)) + " *)")
        else:
            la.append(f"Definition lex_ascii_{k} : list str := [" + "; ".join(T.coq_str(x) for x in v) + "]. (* "
                      + T.coq_comment_safe(" ".join(v)) + " *)")
    la.append("")
    return ({"ReadmeGrammar.v": "\n".join(g), "ReadmeUnicode.v": "\n".join(u), "ReadmeLexAscii.v": "\n".join(la)},
            {"rules": names, "readme_en_diff": diff, "readme_en_detail": en_detail, "unicode": unicodedata.unidata_version})
