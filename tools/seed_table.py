#!/usr/bin/env python3
"""Writes the seeded-change table of DESIGN.md section 9.6 from seeded/*/meta.json.
   usage: tools/seed_table.py [--inplace]   (replaces the block between the SEED-TABLE markers in DESIGN.md)"""
import glob
import json
import os
import re
import sys

ROOT = os.path.dirname(os.path.dirname(os.path.abspath(__file__)))


def first_line(txt):
    for l in txt.split("\n"):
        l = l.strip(" -*#")
        if len(l) > 20:
            return l
    return txt.strip()[:120]


def main():
    rows = []
    for mp in sorted(glob.glob(os.path.join(ROOT, "seeded", "*", "meta.json"))):
        m = json.load(open(mp))
        name = m["name"]
        what = first_line(m.get("needs_to_manifest", ""))[:150].replace("|", "/")
        if not m.get("confirmed"):
            rows.append(f"| {name} | {what} | (not confirmed: not kept as a test) | | |")
            continue
        for p, c in sorted(m["checks"].items()):
            how = []
            for l in c["lines"]:
                if "translator:" in l:
                    how.append("table/translator obligation")
                elif l.startswith("BROKEN: proof") or "proof:" in l:
                    how.append("proof obligation")
                elif "correspondence" in l:
                    how.append("correspondence")
                elif "harness failed" in l:
                    how.append("process crash (breadcrumb)")
            rs = c.get("replay_summary") or {}
            if rs.get("kind") == "property-failure-on-implementation":
                how.append("real-code search")
            nofail = any("no-failing-input-found" in l for l in c["lines"])
            verdict = "caught" if c["detected"] else "MISSED"
            if c["detected"] and nofail:
                verdict = "caught (no failing input found)"
            rep = (rs.get("input") or "")[:70].replace("|", "/").replace("\n", " ")
            rows.append(f"| {name} | {what} | {p}: {verdict} | {', '.join(sorted(set(how)))} | `{rep}` |")
    head = ("| seed | change (first line of the seeder's notes) | check: verdict | noticed by | replay (start) |\n"
            "|------|------------------------------------------|----------------|------------|----------------|\n")
    table = head + "\n".join(rows) + "\n"
    n = len({r.split('|')[1].strip() for r in rows})
    caught = sum(1 for r in rows if ": caught" in r)
    missed = sum(1 for r in rows if "MISSED" in r)
    table += f"\n{n} seeded changes, {caught} (seed, check) pairs caught, {missed} missed (a seed run against a second check that does not cover its mechanism counts as missed there).\n"
    # behaviour-preserving refactorings (false-alarm measurement)
    rrows = []
    for mp in sorted(glob.glob(os.path.join(ROOT, "seeded", "refactors", "*.json"))):
        m = json.load(open(mp))
        what = first_line(m.get("notes", ""))[:140].replace("|", "/")
        quiet = [p for p, c in sorted(m["checks"].items()) if not c["alarm"]]
        alarms = [p + (" (no failing input)" if c["no_failing_input"] else " (WITH failing input)") for p, c in sorted(m["checks"].items()) if c["alarm"]]
        rrows.append(f"| {m['name']} | {what} | {'yes' if m.get('suite_passes') else 'NO'} | {', '.join(quiet)} | {', '.join(alarms) or '-'} |")
    rtable = ("| refactoring | change (first line of the notes) | suite passes | quiet checks | alarms |\n"
              "|-------------|----------------------------------|--------------|--------------|--------|\n" + "\n".join(rrows) + "\n")
    if "--inplace" in sys.argv:
        p = os.path.join(ROOT, "DESIGN.md")
        s = open(p).read()
        if "REFACTOR_TABLE_PLACEHOLDER" in s:
            s = s.replace("REFACTOR_TABLE_PLACEHOLDER", "<!-- REFACTOR-TABLE-BEGIN -->\n" + rtable + "<!-- REFACTOR-TABLE-END -->")
        else:
            s = re.sub(r"<!-- REFACTOR-TABLE-BEGIN -->.*?<!-- REFACTOR-TABLE-END -->", lambda _: "<!-- REFACTOR-TABLE-BEGIN -->\n" + rtable + "<!-- REFACTOR-TABLE-END -->", s, flags=re.S)
        open(p, "w").write(s)
        s = None
    if "--inplace" in sys.argv:
        p = os.path.join(ROOT, "DESIGN.md")
        s = open(p).read()
        if "SEED_TABLE_PLACEHOLDER" in s:
            s = s.replace("SEED_TABLE_PLACEHOLDER", "<!-- SEED-TABLE-BEGIN -->\n" + table + "<!-- SEED-TABLE-END -->")
        else:
            s = re.sub(r"<!-- SEED-TABLE-BEGIN -->.*?<!-- SEED-TABLE-END -->", lambda _: "<!-- SEED-TABLE-BEGIN -->\n" + table + "<!-- SEED-TABLE-END -->", s, flags=re.S)
        open(p, "w").write(s)
    else:
        print(table)


if __name__ == "__main__":
    main()
