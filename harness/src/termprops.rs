//! C06 C07 C14 C17: term-level properties (equality, hashing, component access, mutators).
use crate::coqw::*;
use crate::gen::*;
use crate::prng::Rng;
use crate::ser::*;
use crate::util::*;
use narsese::api::{ExtractTerms, GetCapacity, GetCategory, TermCapacity, TermCategory};
use narsese::conversion::string::impl_enum::format_instances::{FORMAT_ASCII, FORMAT_HAN, FORMAT_LATEX};
use narsese::enum_narsese::Term;
use std::collections::{HashMap, HashSet};
use std::hash::{BuildHasher, Hash, Hasher};

fn tgen(style: NameStyle, depth: usize, width: usize, wild: bool) -> TermGen {
    TermGen { max_depth: depth, max_width: width, style, name_ok: Box::new(|_| true), wild }
}

fn has_unordered(t: &Term) -> bool {
    use Term::*;
    match t {
        SetExtension(..) | SetIntension(..) | IntersectionExtension(..) | IntersectionIntension(..) | Conjunction(..)
        | Disjunction(..) | ConjunctionParallel(..) | Similarity(..) | Equivalence(..) | EquivalenceConcurrent(..) => true,
        _ => t.get_atom_name().is_none() && t.get_components().iter().any(|c| has_unordered(c)),
    }
}

// ------------------------------------------------------------------------------------------
pub fn run_c06(o: &Opts) -> Report {
    let mut rep = Report::new(
        "C06",
        "pairs of enum terms: (t, rebuild(t)) along shuffled insertion orders with duplicates in fresh HashSets, \
         (t, perturb(t)), (t, t parsed twice from its ASCII text), independent pairs; nested to depth<=5; \
         values built through the public variants: near-miss images whose own list holds a placeholder / whose index lies beyond the list \
         (same expanded sequence, different index), the placeholder as an ordinary component of every constructor, both orders, bare and nested; \
         atoms that differ in the constructor only (same name) at one position of every constructor; a != b against a == b; \
         the same description rebuilt on another thread; \
         distinct = distinct canonical-form pairs; non-trivial = at least one side contains an unordered or symmetric node",
    );
    let mut rng = Rng::new(o.seed ^ 0xC06);
    let g = tgen(NameStyle::Mixed, if o.thorough { 6 } else { 5 }, 4, false);
    let gascii = TermGen { max_depth: 4, max_width: 4, style: NameStyle::Ascii, name_ok: Box::new(|n| crate::wf::wf_name(&FORMAT_ASCII, n)), wild: false };
    let mut cases = vec![];
    let n = o.n;
    for i in 0..n {
        let a = if i < 46 { g.term_of(&mut rng, 0, 7 + i % 23) } else { g.term(&mut rng, 0) };
        // every seventh: some atoms turned into the placeholder (an ordinary component wherever it stands)
        let a = if i % 7 == 6 { sprinkle_placeholders(&a, &mut rng, 1, 4) } else { a };
        let (b, stream) = match i % 5 {
            0 | 1 => (rebuild(&a, &mut rng), "rebuild"),
            2 => (perturb(&a, &mut rng, &g), "perturb"),
            3 => {
                // two separate parses of the same string
                let t = if i < 46 { gascii.term_of(&mut rng, 0, 7 + i % 23) } else { gascii.term(&mut rng, 0) };
                let s = FORMAT_ASCII.format_term(&t);
                match (FORMAT_ASCII.parse::<narsese::enum_narsese::Narsese>(&s), FORMAT_ASCII.parse::<narsese::enum_narsese::Narsese>(&s)) {
                    (Ok(x), Ok(y)) => match (x.try_into_term(), y.try_into_term()) {
                        (Ok(x), Ok(y)) => {
                            push_c06(&mut rep, &mut cases, &x, &y, "parse-twice", &mut rng);
                            continue;
                        }
                        _ => (rebuild(&a, &mut rng), "rebuild"),
                    },
                    _ => (rebuild(&a, &mut rng), "rebuild"),
                }
            }
            _ => (g.term(&mut rng, 0), "independent"),
        };
        push_c06(&mut rep, &mut cases, &a, &b, stream, &mut rng);
    }
    // wide unordered containers (also nested): rebuilt along another insertion order, and one element changed
    for k in 0..6 {
        let a = wide_unordered(&mut rng, &g, k);
        let b = rebuild(&a, &mut rng);
        push_c06(&mut rep, &mut cases, &a, &b, "wide-rebuild", &mut rng);
        let c = perturb(&a, &mut rng, &g);
        push_c06(&mut rep, &mut cases, &a, &c, "wide-perturb", &mut rng);
    }
    // near misses of the symmetric statements: repeated operands, one operand shared (either side, both orders of ==),
    // and of the set-like constructors: one element replaced / duplicated
    for k in [22usize, 24, 29] {
        for _ in 0..4 {
            let x = g.term(&mut rng, 3);
            let y = g.term(&mut rng, 3);
            let mk = |a: &Term, b: &Term| match k {
                22 => Term::new_similarity(a.clone(), b.clone()),
                24 => Term::new_equivalence(a.clone(), b.clone()),
                _ => Term::new_equivalence_concurrent(a.clone(), b.clone()),
            };
            let forms = [mk(&x, &x), mk(&x, &y), mk(&y, &x), mk(&y, &y)];
            for a in &forms {
                for b in &forms {
                    push_c06(&mut rep, &mut cases, a, b, "symmetric-near-miss", &mut rng);
                    // the same pair nested inside an unordered and an ordered compound
                    let z = g.atom(&mut rng);
                    push_c06(&mut rep, &mut cases, &Term::new_conjunction(vec![a.clone(), z.clone()]), &Term::new_conjunction(vec![z.clone(), b.clone()]), "symmetric-near-miss-nested", &mut rng);
                }
            }
        }
    }
    // one-field near misses, BOTH orders of == (model mutation testing: an asymmetric comparison of the image index --
    // `<=` for `==` -- survived because the perturbed side always came second): images that differ in the index only,
    // intervals, a set against a proper superset, a sequence against a proper extension; bare and nested
    {
        let both = |rep: &mut Report, cases: &mut Vec<String>, a: &Term, b: &Term, rng: &mut Rng| {
            push_c06(rep, cases, a, b, "field-near-miss", rng);
            push_c06(rep, cases, b, a, "field-near-miss", rng);
            let z = g.atom(rng);
            push_c06(rep, cases, &Term::new_product(vec![z.clone(), a.clone()]), &Term::new_product(vec![z.clone(), b.clone()]), "field-near-miss-nested", rng);
            push_c06(rep, cases, &Term::new_set_extension(vec![b.clone(), z.clone()]), &Term::new_set_extension(vec![z.clone(), a.clone()]), "field-near-miss-nested", rng);
        };
        for round in 0..3 {
            let v: Vec<Term> = (0..(1 + round)).map(|_| g.term(&mut rng, 3)).collect();
            for (i, j) in [(0usize, 1usize), (0, v.len()), (1.min(v.len()), 0)] {
                if i == j {
                    continue;
                }
                both(&mut rep, &mut cases, &Term::ImageExtension(i, v.clone()), &Term::ImageExtension(j, v.clone()), &mut rng);
                both(&mut rep, &mut cases, &Term::ImageIntension(i, v.clone()), &Term::ImageIntension(j, v.clone()), &mut rng);
            }
            let (x, y) = (rng.below(1000), rng.below(1000) + 1000);
            both(&mut rep, &mut cases, &Term::new_interval(x), &Term::new_interval(y), &mut rng);
            let extra = g.term(&mut rng, 3);
            let mut w = v.clone();
            w.push(extra);
            both(&mut rep, &mut cases, &Term::new_set_intension(v.clone()), &Term::new_set_intension(w.clone()), &mut rng);
            both(&mut rep, &mut cases, &Term::new_conjunction(v.clone()), &Term::new_conjunction(w.clone()), &mut rng);
            both(&mut rep, &mut cases, &Term::new_product(v.clone()), &Term::new_product(w.clone()), &mut rng);
            both(&mut rep, &mut cases, &Term::new_conjunction_sequential(v.clone()), &Term::new_conjunction_sequential(w.clone()), &mut rng);
        }
    }
    // images that differ only in the placeholder index (same components)
    for _ in 0..4 {
        let v: Vec<Term> = (0..rng.range(1, 3)).map(|_| g.term(&mut rng, 3)).collect();
        for i in 0..=v.len() {
            for j in 0..=v.len() {
                push_c06(&mut rep, &mut cases, &Term::ImageExtension(i, v.clone()), &Term::ImageExtension(j, v.clone()), "image-index", &mut rng);
                push_c06(&mut rep, &mut cases, &Term::new_product(vec![Term::ImageIntension(i, v.clone())]), &Term::new_product(vec![Term::ImageIntension(j, v.clone())]), "image-index-nested", &mut rng);
            }
        }
    }
    // values only the public variants / constructors build (no parser or formatter produces them):
    // images whose own component list holds a placeholder or whose index lies beyond the list.  The index is part of the
    // value ("pairwise equal components in order for ... images"), also when the placeholder-expanded sequences coincide.
    // Bare, both orders, and nested in an ordered compound, a set, an asymmetric and a symmetric statement, a negation.
    for (p, q) in image_near_misses(&mut rng, &g) {
        push_c06(&mut rep, &mut cases, &p, &q, "image-near-miss", &mut rng);
        push_c06(&mut rep, &mut cases, &q, &p, "image-near-miss", &mut rng);
        let z = g.atom(&mut rng);
        let bx = |t: &Term| Box::new(t.clone());
        match rng.below(5) {
            0 => push_c06(&mut rep, &mut cases, &Term::Product(vec![z.clone(), p.clone()]), &Term::Product(vec![z.clone(), q.clone()]), "image-near-miss-nested", &mut rng),
            1 => push_c06(&mut rep, &mut cases, &Term::new_set_extension(vec![q.clone(), z.clone()]), &Term::new_set_extension(vec![z.clone(), p.clone()]), "image-near-miss-nested", &mut rng),
            2 => push_c06(&mut rep, &mut cases, &Term::Inheritance(bx(&p), bx(&z)), &Term::Inheritance(bx(&q), bx(&z)), "image-near-miss-nested", &mut rng),
            3 => push_c06(&mut rep, &mut cases, &Term::Similarity(bx(&p), bx(&z)), &Term::Similarity(bx(&z), bx(&q)), "image-near-miss-nested", &mut rng),
            _ => push_c06(&mut rep, &mut cases, &Term::Negation(bx(&q)), &Term::Negation(bx(&p)), "image-near-miss-nested", &mut rng),
        }
    }
    // atoms that differ in the constructor only and report the same name (A / $A / #A / ?A / ^A, +7 / the word 7, _ / a word
    // named ""): bare, at one position of otherwise identical component lists of EVERY compound / statement constructor
    // (the ordered ones compare through Vec ==, which std implements with `!=` per element), and one level deeper; both orders
    for (x, y) in atom_kind_near_misses(&mut rng, &g) {
        push_c06(&mut rep, &mut cases, &x, &y, "atom-kind-near-miss", &mut rng);
        push_c06(&mut rep, &mut cases, &y, &x, "atom-kind-near-miss", &mut rng);
        for kind in 7..30usize {
            if let Some((a, b)) = same_context(kind, &mut rng, &g, &x, &y) {
                push_c06(&mut rep, &mut cases, &a, &b, "atom-kind-near-miss-component", &mut rng);
                if kind % 3 == 0 {
                    let outer = *rng.pick(&[13usize, 14, 19, 7, 21, 22]);
                    if let Some((a2, b2)) = same_context(outer, &mut rng, &g, &a, &b) {
                        push_c06(&mut rep, &mut cases, &b2, &a2, "atom-kind-near-miss-nested", &mut rng);
                    }
                }
            }
        }
    }
    // the placeholder as an ordinary component of every compound / statement constructor, against the same constructor
    // without it (variable arity) or with the operands exchanged (fixed arity), and against its own re-spelling
    for (p, q) in placeholder_compounds(&mut rng, &g) {
        push_c06(&mut rep, &mut cases, &p, &q, "placeholder-component", &mut rng);
        push_c06(&mut rep, &mut cases, &q, &p, "placeholder-component", &mut rng);
        push_c06(&mut rep, &mut cases, &p, &respell(&p), "placeholder-component-respelled", &mut rng);
        let z = g.atom(&mut rng);
        push_c06(&mut rep, &mut cases, &Term::new_conjunction(vec![p.clone(), z.clone()]), &Term::new_conjunction(vec![z.clone(), q.clone()]), "placeholder-component-nested", &mut rng);
    }
    // "however and in whatever order they were constructed": the same description built on ANOTHER THREAD (fresh HashSets
    // filled there) compares like the one built here
    {
        let mine: Vec<Term> = (0..(o.n / 4).max(40)).map(|i| if i % 3 == 0 { wide_unordered(&mut rng, &g, i) } else { g.term(&mut rng, 0) }).collect();
        let sent = mine.clone();
        let mut trng = rng.fork(0x7C06);
        let theirs = std::thread::spawn(move || sent.iter().map(|t| guard(|| (rebuild(t, &mut trng), respell(t)))).collect::<Vec<_>>()).join();
        match theirs {
            Ok(theirs) => {
                for (a, r) in mine.iter().zip(theirs) {
                    match r {
                        Some((b, c)) => {
                            push_c06(&mut rep, &mut cases, a, &b, "rebuilt-on-another-thread", &mut rng);
                            push_c06(&mut rep, &mut cases, &c, a, "rebuilt-on-another-thread", &mut rng);
                        }
                        None => rep.fail(Failure { stream: "rebuilt-on-another-thread".into(), what: "building a term on another thread panicked".into(), input: show(a), expected: "a term".into(), got: "panic".into(), known: None }),
                    }
                }
            }
            Err(_) => rep.fail(Failure { stream: "rebuilt-on-another-thread".into(), what: "the building thread died".into(), input: "".into(), expected: "".into(), got: "panic".into(), known: None }),
        }
    }
    rep.shards = write_shards(&o.outdir, "C06", "Nv.Run.TermRun", "mismatches_c06", "c06case", "N_scope", &cases, o.shards, "").unwrap();
    rep
}

fn push_c06(rep: &mut Report, cases: &mut Vec<String>, a: &Term, b: &Term, stream: &str, rng: &mut Rng) {
    rep.evaluations += 1;
    rep.hist.add(format!("stream:{}", stream));
    let (ca, cb) = (canon(a), canon(b));
    let reference = ca == cb;
    let got = a == b;
    rep.hist.add(format!("equal:{}", reference));
    if has_unordered(a) || has_unordered(b) {
        rep.note_distinct(&format!("{}|{}", ca, cb));
    }
    let descr = format!("[{}] {} == {}", stream, show(a), show(b));
    rep.sample(descr.clone());
    let mut bad = |what: &str, got: String| {
        rep.fail(Failure { stream: stream.into(), what: what.into(), input: descr.clone(), expected: format!("canonical forms equal: {}", reference), got, known: None });
    };
    if got != reference {
        bad("a == b differs from equality of canonical forms", format!("{}", got));
    }
    if (b == a) != got {
        bad("== is not symmetric", format!("a==b {} b==a {}", got, b == a));
    }
    // `!=` is the same relation read negatively (std's Vec / slice equality is written with it): an overriding `ne` must agree
    #[allow(clippy::nonminimal_bool)]
    if (a != b) == got || (b != a) == got {
        bad("a != b is not the negation of a == b", format!("a==b {} a!=b {} b!=a {}", got, a != b, b != a));
    }
    if !(a == a) || !(b == b) {
        bad("== is not reflexive", "false".into());
    }
    // stability: the same description built again compares the same way
    let a2 = rebuild(a, rng);
    let b2 = rebuild(b, rng);
    if (a2 == b2) != got || !(a2 == *a) || !(b2 == *b) {
        bad("== is not stable under rebuilding the same description", format!("a2==b2 {} a2==a {} b2==b {}", a2 == b2, a2 == *a, b2 == *b));
    }
    rep.case_descr.push(descr);
    cases.push(format!("C06 {} {} {}", cterm(a), cterm(b), cbool(got)));
}

// ------------------------------------------------------------------------------------------
#[derive(Debug, Clone, PartialEq)]
enum W {
    Bytes(Vec<u8>),
    U8(u8),
    U64(u64),
    Usize(usize),
    Other(String),
}
#[derive(Default)]
struct Recorder(Vec<W>);
impl Hasher for Recorder {
    fn finish(&self) -> u64 {
        0
    }
    fn write(&mut self, bytes: &[u8]) {
        self.0.push(W::Bytes(bytes.to_vec()));
    }
    fn write_u8(&mut self, i: u8) {
        self.0.push(W::U8(i));
    }
    fn write_u64(&mut self, i: u64) {
        self.0.push(W::U64(i));
    }
    fn write_usize(&mut self, i: usize) {
        self.0.push(W::Usize(i));
    }
    fn write_u32(&mut self, i: u32) {
        self.0.push(W::Other(format!("u32:{}", i)));
    }
    fn write_u16(&mut self, i: u16) {
        self.0.push(W::Other(format!("u16:{}", i)));
    }
}

/// the implementation's write stream as model hitems; None if it contains a write the model has no item for
fn feed_of(t: &Term) -> Option<Vec<String>> {
    let mut r = Recorder::default();
    t.hash(&mut r);
    let mut out = vec![];
    let w = r.0;
    let mut i = 0;
    while i < w.len() {
        match &w[i] {
            W::Bytes(b) if i + 1 < w.len() && w[i + 1] == W::U8(0xff) => {
                out.push(format!("HStr {}", cstr(std::str::from_utf8(b).ok()?)));
                i += 2;
            }
            W::Usize(n) => {
                out.push(format!("HNum {}", n));
                i += 1;
            }
            W::U64(n) => {
                out.push(format!("HSum {}", n));
                i += 1;
            }
            _ => return None,
        }
    }
    Some(out)
}

fn default_hash(t: &Term) -> u64 {
    let mut h = std::collections::hash_map::DefaultHasher::new();
    t.hash(&mut h);
    h.finish()
}

fn collect_unordered_elems<'a>(t: &'a Term, out: &mut Vec<&'a Term>) {
    use Term::*;
    match t {
        SetExtension(s) | SetIntension(s) | IntersectionExtension(s) | IntersectionIntension(s) | Conjunction(s)
        | Disjunction(s) | ConjunctionParallel(s) => {
            for e in s {
                out.push(e);
                collect_unordered_elems(e, out);
            }
        }
        Similarity(a, b) | Equivalence(a, b) | EquivalenceConcurrent(a, b) => {
            out.push(a);
            out.push(b);
            collect_unordered_elems(a, out);
            collect_unordered_elems(b, out);
        }
        _ => {
            if t.get_atom_name().is_none() {
                for c in t.get_components() {
                    // every sub-term may be hashed by a fixed hasher if an enclosing arm is unordered
                    out.push(c);
                    collect_unordered_elems(c, out);
                }
            }
        }
    }
}


/// an unordered compound with many (9..40) components, alone or nested inside another unordered compound / symmetric
/// statement: caps or truncations of the per-element hashing only show on wide containers
fn wide_unordered(rng: &mut Rng, g: &TermGen, salt: usize) -> Term {
    let n = 9 + rng.below(32);
    let elems: Vec<Term> = (0..n).map(|k| if k % 7 == 3 { g.term(rng, 3) } else { Term::new_word(format!("w{}_{}", salt, k)) }).collect();
    let inner = match rng.below(5) {
        0 => Term::new_set_extension(elems),
        1 => Term::new_set_intension(elems),
        2 => Term::new_conjunction(elems),
        3 => Term::new_intersection_extension(elems),
        _ => Term::new_disjunction(elems),
    };
    match rng.below(4) {
        0 => inner,
        1 => Term::new_set_extension(vec![inner, g.atom(rng)]),
        2 => Term::new_similarity(inner, g.atom(rng)),
        _ => Term::new_conjunction_parallel(vec![g.atom(rng), inner, g.atom(rng)]),
    }
}

/// C07 on a pair: if the two compare equal (either order) they must hash alike under one RandomState and under a fresh
/// DefaultHasher, and each must be found in a HashSet / HashMap holding the other
fn equal_implies_same_hash(rep: &mut Report, p: &Term, q: &Term, stream: &str) {
    rep.evaluations += 1;
    rep.hist.add(format!("pairs:{}", stream));
    if !(p == q || q == p) {
        return;
    }
    rep.hist.add(format!("pairs-equal:{}", stream));
    let rs = std::collections::hash_map::RandomState::new();
    let mut bad = |what: &str, got: String| {
        rep.fail(Failure { stream: stream.into(), what: what.into(), input: format!("{} vs {}", show(p), show(q)), expected: "unequal, or equal hashes".into(), got, known: None });
    };
    if rs.hash_one(p) != rs.hash_one(q) || default_hash(p) != default_hash(q) {
        bad("terms that compare equal hash differently", format!("== but hashes {:x} vs {:x}", default_hash(p), default_hash(q)));
    }
    let mut hs = HashSet::new();
    hs.insert(p.clone());
    let mut hm = HashMap::new();
    hm.insert(q.clone(), 1);
    if !hs.contains(q) || hm.get(p).is_none() {
        bad("a term inserted into a hash set / map is not found by an equal term", "== but not found".into());
    }
}

/// the hash of a value under a given hasher is a function of the value, not of the thread that computes it
fn other_threads(rep: &mut Report, inputs: &[Term], rng: &mut Rng) {
    let sent: Vec<Term> = inputs.to_vec();
    let hashes = std::thread::spawn(move || sent.iter().map(|t| guard(|| default_hash(t))).collect::<Vec<_>>()).join();
    let sent: Vec<Term> = inputs.to_vec();
    let filled = std::thread::spawn(move || {
        let mut hs = HashSet::new();
        let mut hm = HashMap::new();
        for (i, t) in sent.into_iter().enumerate() {
            hm.insert(t.clone(), i);
            hs.insert(t);
        }
        (hs, hm)
    })
    .join();
    let (hashes, (hs, hm)) = match (hashes, filled) {
        (Ok(h), Ok(f)) => (h, f),
        _ => {
            rep.fail(Failure { stream: "other-thread".into(), what: "hashing / filling a hash set on another thread panicked".into(), input: "".into(), expected: "".into(), got: "panic".into(), known: None });
            return;
        }
    };
    for (t, h) in inputs.iter().zip(hashes) {
        rep.evaluations += 1;
        rep.hist.add("other-thread");
        let here = default_hash(t);
        if h != Some(here) {
            rep.fail(Failure { stream: "other-thread".into(), what: "the same term hashed with a fresh DefaultHasher on another thread gives another hash".into(), input: show(t), expected: format!("{:x}", here), got: format!("{:x?}", h), known: None });
        }
        let b = rebuild(t, rng);
        if !hs.contains(t) || hm.get(t).is_none() || (b == *t && (!hs.contains(&b) || hm.get(&b).is_none())) {
            rep.fail(Failure { stream: "other-thread".into(), what: "a term inserted into a hash set / map on another thread is not found from this thread".into(), input: show(t), expected: "found".into(), got: "not found".into(), known: None });
        }
    }
}

/// C07 over HISTORIES ("same hash under the same hasher", "found again by any equal term"): the hash of a term is a
/// function of the term and the hasher, not of what the thread has hashed before.  On one thread (large stack, so that the
/// recursion depth itself is no obstacle): hash the probes (fresh DefaultHasher = a fixed-key hasher, one RandomState),
/// fill a HashSet / HashMap with them; then hash and look up many OTHER terms -- ordinary ones and terms nested 130..300
/// deep along every kind of spine, repeatedly -- and at several checkpoints hash the probes (and separately built equal
/// copies) again, look them up again, and hash them on a fresh thread.  Probes: a sample of the ordinary inputs, small
/// everyday terms, and spines of every shape whose depth lies around the powers of two up to 256 (where a depth limit,
/// cache size or truncation would sit).  Equal deep terms must hash alike as well.
fn hash_history(rep: &mut Report, inputs: &[Term], rng: &mut Rng, thorough: bool) {
    let mut probes: Vec<Term> = vec![];
    let step = (inputs.len() / 40).max(1);
    probes.extend(inputs.iter().step_by(step).take(40).cloned());
    probes.push(Term::new_similarity(Term::new_set_extension(vec![Term::new_word("A"), Term::new_word("B")]), Term::new_word("C")));
    probes.push(Term::new_word("A"));
    probes.push(Term::new_product(vec![Term::new_word("A"), Term::Placeholder]));
    // equal copies, built separately (fresh HashSets, symmetric operands exchanged)
    let mut copies: Vec<Term> = probes.iter().map(|p| rebuild(p, rng)).collect();
    for shape in 0..DEEP_SHAPES {
        let mut ds: Vec<usize> = [1usize, 2, 7, 8, 15, 16, 31, 32, 63, 64, 100, 126, 127, 128, 129].into_iter().filter(|_| shape < 2 || shape == 9 || rng.chance(1, 3)).collect();
        ds.push(255 + rng.below(3));
        for d in ds {
            probes.push(deep_term(shape, d, "p"));
            copies.push(deep_term_spelled(shape, d, "p", true));
        }
    }
    let rounds = if thorough { 12 } else { 5 };
    let mut trng = rng.fork(0x7C07);
    let (tp, tc) = (probes.clone(), copies.clone());
    type Found = (String, String, String, String);
    let work = move || -> (Vec<Found>, u64, u64) {
        let (probes, copies) = (tp, tc);
        let mut found: Vec<Found> = vec![];
        let mut deep_hashed = 0u64;
        let mut checks = 0u64;
        let rs = std::collections::hash_map::RandomState::new();
        let base: Vec<(u64, u64)> = probes.iter().map(|p| (default_hash(p), rs.hash_one(p))).collect();
        let mut hs: HashSet<Term> = HashSet::new();
        let mut hm: HashMap<Term, usize> = HashMap::new();
        for (i, p) in probes.iter().enumerate() {
            hs.insert(p.clone());
            hm.insert(p.clone(), i);
        }
        let mut history = String::from("only the probes themselves, each hashed twice and inserted into a HashSet and a HashMap (they include spines of every shape up to 257 deep)");
        let check = |found: &mut Vec<Found>, history: &str, checks: &mut u64| {
            // the same probes hashed on a fresh thread at this moment
            let sent = probes.clone();
            let there = std::thread::Builder::new().stack_size(256 << 20).spawn(move || sent.iter().map(|t| guard(|| default_hash(t))).collect::<Vec<_>>()).ok().and_then(|h| h.join().ok());
            for (i, p) in probes.iter().enumerate() {
                *checks += 1;
                let c = &copies[i];
                let now = guard(|| (default_hash(p), rs.hash_one(p), default_hash(c), rs.hash_one(c)));
                let input = format!("{}   [history of the hashing thread: {}]", show(p), history);
                match now {
                    None => found.push(("hashing a term panicked".into(), input.clone(), "a hash".into(), "panic".into())),
                    Some((d, r, dc, rc)) => {
                        if (d, r) != base[i] {
                            found.push(("the same term hashes differently (same hasher) after the thread has hashed other terms".into(), input.clone(), format!("{:x}/{:x}", base[i].0, base[i].1), format!("{:x}/{:x}", d, r)));
                        }
                        if c == p && (dc, rc) != base[i] {
                            found.push(("an equal term hashes differently from the hash its equal had before the thread hashed other terms".into(), input.clone(), format!("{:x}/{:x}", base[i].0, base[i].1), format!("{:x}/{:x}", dc, rc)));
                        }
                    }
                }
                let looked = guard(|| (hs.contains(p), hm.get(p).map(|j| probes[*j] == *p) == Some(true), c != p || (hs.contains(c) && hm.get(c).map(|j| probes[*j] == *c) == Some(true))));
                if looked != Some((true, true, true)) {
                    found.push(("a term inserted into a hash set / map is not found again (by itself, by an equal term) after the thread has hashed other terms".into(), input.clone(), "found".into(), format!("{:?}", looked)));
                }
                match &there {
                    Some(v) => {
                        if v[i] != Some(base[i].0) {
                            found.push(("the same term hashed with a fresh DefaultHasher on a fresh thread gives another hash than on the thread with a history".into(), input.clone(), format!("{:x}", base[i].0), format!("{:x?}", v[i])));
                        }
                    }
                    None => found.push(("hashing on a fresh thread died".into(), input.clone(), "hashes".into(), "panic".into())),
                }
            }
        };
        check(&mut found, &history, &mut checks);
        // the other terms: ordinary ones and deep ones; built HERE (building sets hashes too), after the baseline
        let ordinary: Vec<Term> = (0..30).map(|k| deep_term(k, 3 + k % 9, "o")).collect();
        let mut deep: Vec<(usize, usize, Term)> = vec![];
        for shape in 0..DEEP_SHAPES {
            for levels in [130 + trng.below(12), 150 + trng.below(151)] {
                deep.push((shape, levels, deep_term(shape, levels, "d")));
            }
        }
        // ONE deep term, hashed once
        let first = deep_term(1, 300, "f");
        let _ = guard(|| default_hash(&first));
        deep_hashed += 1;
        history = "one product nested 300 deep, hashed once (deep_term(1,300,\"f\"))".into();
        check(&mut found, &history, &mut checks);
        for round in 0..rounds {
            for t in &ordinary {
                let _ = guard(|| (default_hash(t), hs.contains(t)));
            }
            for (shape, levels, d) in deep.iter() {
                let looked = guard(|| (default_hash(d), rs.hash_one(d), hs.contains(d), hm.get(d).is_some()));
                deep_hashed += 1;
                if looked.is_none() {
                    found.push(("hashing a deeply nested term panicked".into(), format!("deep_term({}, {}, \"d\") = {}", shape, levels, show(d)), "a hash".into(), "panic".into()));
                }
                if round == 0 {
                    // equal deep terms hash alike and find each other
                    let d2 = deep_term_spelled(*shape, *levels, "d", true);
                    let same = guard(|| {
                        if *d == d2 {
                            let mut one = HashSet::new();
                            one.insert(d.clone());
                            default_hash(d) == default_hash(&d2) && rs.hash_one(d) == rs.hash_one(&d2) && one.contains(&d2)
                        } else {
                            false
                        }
                    });
                    if same != Some(true) {
                        found.push(("two equal deeply nested terms built separately are unequal, hash differently, or do not find each other".into(), show(d), "equal, same hash, found".into(), format!("{:?}", same)));
                    }
                }
            }
            history = format!("one product nested 300 deep, then {} round(s) of: 30 ordinary terms and {} terms nested 130..300 deep (every spine shape of gen::deep_term), each hashed twice and looked up in a HashSet and a HashMap", round + 1, deep.len());
            if round == 0 || round + 1 == rounds || round == rounds / 2 {
                check(&mut found, &history, &mut checks);
            }
        }
        (found, deep_hashed, checks)
    };
    let res = std::thread::Builder::new().stack_size(256 << 20).spawn(work).ok().and_then(|h| h.join().ok());
    match res {
        Some((mut found, deep_hashed, checks)) => {
            rep.evaluations += checks;
            rep.hist.0.insert("history:probe-checks".into(), checks);
            rep.hist.0.insert("history:deep-terms-hashed".into(), deep_hashed);
            // the smallest inputs first
            found.sort_by_key(|f| f.1.len());
            for (what, input, expected, got) in found.into_iter().take(12) {
                rep.fail(Failure { stream: "hash-history".into(), what, input, expected, got, known: None });
            }
        }
        None => rep.fail(Failure { stream: "hash-history".into(), what: "the thread hashing a history of terms died".into(), input: "probes, then gen::deep_term(shape, 130..300, ..) for every shape".into(), expected: "".into(), got: "panic / stack overflow".into(), known: None }),
    }
}

pub fn run_c07(o: &Opts) -> Report {
    let mut rep = Report::new(
        "C07",
        "terms t with the recorded write stream of t.hash() (recording Hasher) and the DefaultHasher value of every sub-term \
         (oracle for the model's fixed_hash); plus on the real code: equal pairs (t, rebuild(t)) hashed under fresh RandomStates, \
         HashSet::contains / HashMap::get with the equal key; near-miss pairs (images with placeholder components / out-of-range indices, \
         placeholder components) must be unequal or hash alike; the same term hashed on a spawned thread, hash sets / maps filled on another thread; \
         histories: probes (inputs, everyday terms, spines of every constructor kind 1..257 deep) hashed / looked up before and after the thread hashed many other terms \
         incl. terms nested 130..300 deep, and on a fresh thread; \
         distinct = distinct canonical forms; non-trivial = contains an unordered or symmetric node",
    );
    let mut rng = Rng::new(o.seed ^ 0xC07);
    let g = tgen(NameStyle::Mixed, if o.thorough { 6 } else { 5 }, 4, true);
    let mut cases = vec![];
    // the terms whose write stream is compared with the model and which are hashed on the real code
    let mut inputs: Vec<Term> = vec![];
    for i in 0..o.n {
        let a = if i < 60 {
            g.term_of(&mut rng, 0, i % 30)
        } else if i % 25 == 0 {
            wide_unordered(&mut rng, &g, i)
        } else {
            g.term(&mut rng, 0)
        };
        // every seventh: some atoms turned into the placeholder (an ordinary component wherever it stands)
        inputs.push(if i % 7 == 6 { sprinkle_placeholders(&a, &mut rng, 1, 4) } else { a });
    }
    // values only the public variants / constructors build: images whose own component list holds a placeholder or whose
    // index lies beyond the list (near-miss pairs: same expanded sequence, different index), the placeholder as an ordinary
    // component of every constructor
    let near = image_near_misses(&mut rng, &g);
    let phc = placeholder_compounds(&mut rng, &g);
    for (k, (p, q)) in near.iter().enumerate() {
        if k % 3 == 0 {
            inputs.push(p.clone());
            inputs.push(Term::new_set_intension(vec![q.clone(), g.atom(&mut rng)]));
        }
    }
    for (p, _) in &phc {
        inputs.push(p.clone());
    }
    // whatever == says, terms that compare equal must hash equally and find each other in hash sets / maps: the near-miss
    // pairs, both orders, bare and nested in a set, a symmetric statement and an ordered compound
    for (p, q) in near.iter().chain(phc.iter()) {
        let z = g.atom(&mut rng);
        let bx = |t: &Term| Box::new(t.clone());
        equal_implies_same_hash(&mut rep, p, q, "near-miss-pairs");
        equal_implies_same_hash(&mut rep, q, p, "near-miss-pairs");
        equal_implies_same_hash(&mut rep, &Term::new_set_extension(vec![p.clone(), z.clone()]), &Term::new_set_extension(vec![z.clone(), q.clone()]), "near-miss-pairs-nested");
        equal_implies_same_hash(&mut rep, &Term::Similarity(bx(p), bx(&z)), &Term::Similarity(bx(&z), bx(q)), "near-miss-pairs-nested");
        equal_implies_same_hash(&mut rep, &Term::Product(vec![z.clone(), q.clone()]), &Term::Product(vec![z.clone(), p.clone()]), "near-miss-pairs-nested");
    }
    // atoms that differ in the constructor only, at one position of otherwise identical ordered compounds / sets
    for (x, y) in atom_kind_near_misses(&mut rng, &g) {
        equal_implies_same_hash(&mut rep, &x, &y, "atom-kind-near-miss");
        for kind in [13usize, 14, 15, 19, 7, 16, 22] {
            if let Some((a, b)) = same_context(kind, &mut rng, &g, &x, &y) {
                equal_implies_same_hash(&mut rep, &a, &b, "atom-kind-near-miss");
                equal_implies_same_hash(&mut rep, &Term::new_set_extension(vec![b.clone()]), &Term::new_set_extension(vec![a.clone()]), "atom-kind-near-miss");
            }
        }
    }
    // "under the same hasher" does not depend on the thread: the same values hashed with a fresh DefaultHasher on a spawned
    // thread, and a HashSet / HashMap filled on another thread and looked up here
    other_threads(&mut rep, &inputs, &mut rng);
    // ... nor on what the thread has hashed before (histories): see hash_history
    hash_history(&mut rep, &inputs, &mut rng, o.thorough);
    for (i, a) in inputs.iter().enumerate() {
        let a = a.clone();
        rep.evaluations += 1;
        let ca = canon(&a);
        if has_unordered(&a) {
            rep.note_distinct(&ca);
        }
        rep.hist.add(format!("top:{}", ctor_name(&a)));
        let descr = format!("hash({})", show(&a));
        rep.sample(descr.clone());
        // property on the real code
        let b = rebuild(&a, &mut rng);
        if a == b {
            for _ in 0..3 {
                let rs = std::collections::hash_map::RandomState::new();
                let (ha, hb) = (rs.hash_one(&a), rs.hash_one(&b));
                if ha != hb {
                    rep.fail(Failure { stream: "equal-pairs".into(), what: "equal terms hash differently under the same hasher".into(), input: format!("{} vs {}", show(&a), show(&b)), expected: "equal hashes".into(), got: format!("{:x} vs {:x}", ha, hb), known: None });
                    break;
                }
            }
            let mut hs = HashSet::new();
            hs.insert(a.clone());
            let mut hm = HashMap::new();
            hm.insert(a.clone(), 1);
            if !hs.contains(&b) || hm.get(&b).is_none() {
                rep.fail(Failure { stream: "equal-pairs".into(), what: "a term inserted into a hash set / map is not found by an equal term".into(), input: format!("{} vs {}", show(&a), show(&b)), expected: "found".into(), got: "not found".into(), known: None });
            }
        } else if canon(&a) == canon(&b) {
            rep.fail(Failure { stream: "equal-pairs".into(), what: "rebuilt term is not == to the original (C06) so hashing cannot be compared".into(), input: format!("{} vs {}", show(&a), show(&b)), expected: "equal".into(), got: "unequal".into(), known: None });
        }
        // whatever == says, equal terms must hash equally: near misses of symmetric statements (repeated operands) and
        // images with the same components and another placeholder index must either be unequal or hash alike
        if i % 10 == 0 {
            let (x, y) = (g.term(&mut rng, 3), g.term(&mut rng, 3));
            let mut pairs: Vec<(Term, Term)> = vec![
                (Term::new_similarity(x.clone(), x.clone()), Term::new_similarity(x.clone(), y.clone())),
                (Term::new_equivalence(x.clone(), y.clone()), Term::new_equivalence(y.clone(), y.clone())),
                (Term::new_equivalence_concurrent(y.clone(), y.clone()), Term::new_equivalence_concurrent(x.clone(), y.clone())),
                (Term::ImageExtension(0, vec![x.clone(), y.clone()]), Term::ImageExtension(2, vec![x.clone(), y.clone()])),
                (Term::ImageIntension(1, vec![x.clone()]), Term::ImageIntension(0, vec![x.clone()])),
            ];
            pairs.push((Term::new_set_extension(vec![pairs[0].0.clone()]), Term::new_set_extension(vec![pairs[0].1.clone()])));
            for (p, q) in pairs {
                equal_implies_same_hash(&mut rep, &p, &q, "near-miss-pairs");
            }
        }
        // model case
        let feed = feed_of(&a);
        let mut elems = vec![];
        collect_unordered_elems(&a, &mut elems);
        let mut table = vec![];
        let mut seen = HashSet::new();
        let mut ok = feed.is_some();
        for e in elems {
            match feed_of(e) {
                Some(f) => {
                    let key = f.join(";");
                    if seen.insert(key) {
                        table.push(format!("([{}], {})", f.join("; "), default_hash(e)));
                    }
                }
                None => ok = false,
            }
        }
        rep.case_descr.push(descr);
        if ok {
            cases.push(format!("C07 {} [{}] [{}]", cterm(&a), table.join("; "), feed.unwrap().join("; ")));
        } else {
            // a write the model has no item for: force a mismatch so that it is reported
            cases.push(format!("C07 {} [] [HStr [0;0;0]]", cterm(&a)));
        }
    }
    rep.shards = write_shards(&o.outdir, "C07", "Nv.Run.TermRun", "mismatches_c07", "c07case", "N_scope", &cases, o.shards, "").unwrap();
    rep
}

// ------------------------------------------------------------------------------------------
fn cat_idx(c: TermCategory) -> usize {
    match c {
        TermCategory::Atom => 0,
        TermCategory::Compound => 1,
        TermCategory::Statement => 2,
    }
}
fn cap_idx(c: TermCapacity) -> usize {
    match c {
        TermCapacity::Atom => 0,
        TermCapacity::Unary => 1,
        TermCapacity::BinaryVec => 2,
        TermCapacity::BinarySet => 3,
        TermCapacity::Vec => 4,
        TermCapacity::Set => 5,
    }
}

/// the components as stored in the public variant (an atom: itself; an image: its own list, without the index placeholder),
/// and whether they form a set
fn stored_components(t: &Term) -> (Vec<Term>, bool) {
    use Term::*;
    match t {
        Word(..) | Placeholder | VariableIndependent(..) | VariableDependent(..) | VariableQuery(..) | Interval(..) | Operator(..) => (vec![t.clone()], false),
        SetExtension(s) | SetIntension(s) | IntersectionExtension(s) | IntersectionIntension(s) | Conjunction(s) | Disjunction(s) | ConjunctionParallel(s) => (s.iter().cloned().collect(), true),
        Product(v) | ConjunctionSequential(v) | ImageExtension(_, v) | ImageIntension(_, v) => (v.clone(), false),
        Negation(a) => (vec![(**a).clone()], false),
        DifferenceExtension(a, b) | DifferenceIntension(a, b) | Inheritance(a, b) | Similarity(a, b) | Implication(a, b) | Equivalence(a, b)
        | ImplicationPredictive(a, b) | ImplicationConcurrent(a, b) | ImplicationRetrospective(a, b) | EquivalencePredictive(a, b)
        | EquivalenceConcurrent(a, b) => (vec![(**a).clone(), (**b).clone()], false),
    }
}

pub fn run_c14(o: &Opts) -> Report {
    let mut rep = Report::new(
        "C14",
        "every constructor x every image index 0..n for n in 0..4 (exhaustive), nested random terms (depth<=4), incl. images whose index exceeds the length; \
         the placeholder as an ordinary component of every compound / statement constructor (and sprinkled over random terms), images whose own list holds it; \
         on the real code also: get_components == the stored payload of the variant, == components_including_placeholder off images; \
         on the real code: extract == components_including_placeholder, placeholder at index, category partition, capacity vs count; lexical terms: extraction and category vs fold; \
         distinct = distinct canonical forms; non-trivial = compound or statement",
    );
    let mut rng = Rng::new(o.seed ^ 0xC14);
    let g = tgen(NameStyle::Mixed, 4, 4, true);
    let mut cases = vec![];
    let mut terms: Vec<Term> = vec![];
    for k in 0..30 {
        for _ in 0..3 {
            terms.push(g.term_of(&mut rng, 2, k));
        }
    }
    // all image indexes 0..=n+1, n in 0..4
    for n in 0..=4usize {
        for idx in 0..=n + 1 {
            let v: Vec<Term> = (0..n).map(|_| g.term(&mut rng, 3)).collect();
            terms.push(Term::ImageExtension(idx, v.clone()));
            terms.push(Term::ImageIntension(idx, v));
        }
    }
    for i in 0..o.n {
        let t = g.term(&mut rng, 0);
        // every fifth: some atoms turned into the placeholder (an ordinary component wherever it stands)
        terms.push(if i % 5 == 4 { sprinkle_placeholders(&t, &mut rng, 1, 3) } else { t });
    }
    // the placeholder as an ORDINARY component (it is an atom; the parsers accept `(*, _, A)`, `(&/, A, _)`, `{_}`, `<_ --> A>`):
    // every compound / statement constructor over lists that hold it (only, first, middle, last, twice), images with every
    // index; and images whose own list holds a placeholder or whose index lies beyond the list.  Bare and as a component.
    for (p, q) in placeholder_compounds(&mut rng, &g) {
        terms.push(Term::Product(vec![g.atom(&mut rng), p.clone()]));
        terms.push(p);
        terms.push(q);
    }
    for (k, (p, q)) in image_near_misses(&mut rng, &g).into_iter().enumerate() {
        if k % 2 == 0 {
            terms.push(p);
            terms.push(q);
        }
    }
    for t in &terms {
        rep.evaluations += 1;
        rep.hist.add(format!("top:{}", ctor_name(t)));
        if t.get_atom_name().is_none() && stored_components(t).0.iter().any(|c| matches!(c, Term::Placeholder)) {
            rep.hist.add(format!("placeholder-component:{}", ctor_name(t)));
        }
        let descr = format!("access({})", show(t));
        if t.get_atom_name().is_none() {
            rep.note_distinct(&canon(t));
        }
        rep.sample(descr.clone());
        let comps: Vec<Term> = t.get_components().into_iter().cloned().collect();
        let incl: Vec<Term> = t.get_components_including_placeholder().into_iter().cloned().collect();
        let compound: Option<Vec<Term>> = t.get_compound_components().map(|v| v.into_iter().cloned().collect());
        let ex = guard(|| t.clone().extract_terms_to_vec());
        let (cat, cap) = (t.get_category(), t.get_capacity());
        let name = t.get_atom_name();
        // property on the real code
        let is_set = cap == TermCapacity::Set;
        let img = match t {
            Term::ImageExtension(i, v) | Term::ImageIntension(i, v) => Some((*i, v.len())),
            _ => None,
        };
        let wf_img = img.map(|(i, n)| i <= n).unwrap_or(true);
        let mut bad = |what: &str, got: String| {
            rep.fail(Failure { stream: "access".into(), what: what.into(), input: show(t), expected: "".into(), got, known: None });
        };
        // the stored payload, read off the public variant: the borrowing accessor reports exactly these (an image's own list
        // for the placeholder-free accessor), in order for ordered terms and as a set for unordered ones -- whatever they are
        let (stored, unordered) = stored_components(t);
        let key = |v: &[Term]| -> Vec<String> {
            let mut x: Vec<String> = v.iter().map(canon).collect();
            if unordered {
                x.sort();
            }
            x
        };
        if key(&comps) != key(&stored) {
            bad("get_components does not report the stored components", format!("{:?} vs stored {:?}", comps, stored));
        }
        if img.is_none() && key(&incl) != key(&comps) {
            bad("get_components_including_placeholder differs from get_components on a term that is not an image", format!("{:?} vs {:?}", incl, comps));
        }
        if wf_img {
            match &ex {
                None => bad("extract_terms panicked on a well-formed term", "panic".into()),
                Some(ex) => {
                    let same = if is_set {
                        let mut x: Vec<String> = ex.iter().map(canon).collect();
                        let mut y: Vec<String> = incl.iter().map(canon).collect();
                        x.sort();
                        y.sort();
                        x == y
                    } else {
                        ex.iter().map(canon).collect::<Vec<_>>() == incl.iter().map(canon).collect::<Vec<_>>()
                    };
                    if !same {
                        bad("extract_terms differs from get_components_including_placeholder", format!("{:?} vs {:?}", ex, incl));
                    }
                }
            }
            if let Some((i, n)) = img {
                if incl.len() != n + 1 || incl.get(i) != Some(&Term::Placeholder) || comps.len() != n {
                    bad("image placeholder is not at its recorded index", format!("{:?}", incl));
                }
                let mut without = incl.clone();
                if i < without.len() {
                    without.remove(i);
                }
                if without.iter().map(canon).collect::<Vec<_>>() != comps.iter().map(canon).collect::<Vec<_>>() {
                    bad("get_components is not get_components_including_placeholder minus the placeholder", format!("{:?} vs {:?}", comps, incl));
                }
            }
        }
        let flags = [t.is_atom(), t.is_compound(), t.is_statement()];
        if flags.iter().filter(|x| **x).count() != 1 || flags[cat_idx(cat)] != true {
            bad("atom/compound/statement predicates do not partition", format!("{:?}", flags));
        }
        let count_ok = match cap {
            TermCapacity::Atom => comps.len() == 1 && t.is_atom(),
            TermCapacity::Unary => comps.len() == 1 && !t.is_atom(),
            TermCapacity::BinaryVec | TermCapacity::BinarySet => comps.len() == 2,
            TermCapacity::Vec | TermCapacity::Set => !t.is_atom() && !t.is_statement(),
        };
        let ordered_ok = match t {
            Term::SetExtension(..) | Term::SetIntension(..) | Term::IntersectionExtension(..) | Term::IntersectionIntension(..)
            | Term::Conjunction(..) | Term::Disjunction(..) | Term::ConjunctionParallel(..) => cap == TermCapacity::Set,
            Term::Similarity(..) | Term::Equivalence(..) | Term::EquivalenceConcurrent(..) => cap == TermCapacity::BinarySet,
            Term::Product(..) | Term::ImageExtension(..) | Term::ImageIntension(..) | Term::ConjunctionSequential(..) => cap == TermCapacity::Vec,
            Term::Negation(..) => cap == TermCapacity::Unary,
            _ => t.is_atom() == (cap == TermCapacity::Atom) && (t.is_atom() || cap == TermCapacity::BinaryVec),
        };
        if !count_ok || !ordered_ok {
            bad("capacity class does not match component count / ordered nature", format!("{:?} with {} components", cap, comps.len()));
        }
        if t.is_atom() != name.is_some() || t.is_compound() != compound.is_some() {
            bad("get_atom_name / get_compound_components disagree with the category", format!("{:?} {:?}", name, compound.is_some()));
        }
        rep.case_descr.push(descr);
        cases.push(format!(
            "C14 {} {} {} {} {} {} {} {}",
            cterm(t),
            match &ex { Some(v) => format!("(ROk {})", cterms(v.iter())), None => "RPanic".into() },
            cterms(comps.iter()),
            cterms(incl.iter()),
            copt(&compound, |v| cterms(v.iter())),
            cat_idx(cat),
            cap_idx(cap),
            copt(&name, |n| cstr(n)),
        ));
    }
    // lexical terms: extraction returns the stored components; category equals the category of the fold
    lexical_c14(&mut rep, &mut rng, o);
    rep.shards = write_shards(&o.outdir, "C14", "Nv.Run.TermRun", "mismatches_c14", "c14case", "N_scope", &cases, o.shards, "").unwrap();
    rep
}

fn lexical_c14(rep: &mut Report, rng: &mut Rng, o: &Opts) {
    use narsese::conversion::inter_type::lexical_fold::TryFoldInto;
    use narsese::conversion::string::impl_lexical::format_instances as lf;
    use narsese::lexical::Term as LTerm;
    let gs = [
        (TermGen { max_depth: 4, max_width: 4, style: NameStyle::Ascii, name_ok: Box::new(|n| crate::wf::wf_name(&FORMAT_ASCII, n)), wild: false }, &FORMAT_ASCII, &*lf::FORMAT_ASCII),
        (TermGen { max_depth: 4, max_width: 4, style: NameStyle::Mixed, name_ok: Box::new(|n| crate::wf::wf_name(&FORMAT_LATEX, n)), wild: false }, &FORMAT_LATEX, &*lf::FORMAT_LATEX),
        (TermGen { max_depth: 3, max_width: 3, style: NameStyle::Han, name_ok: Box::new(|n| crate::wf::wf_name(&FORMAT_HAN, n)), wild: false }, &FORMAT_HAN, &*lf::FORMAT_HAN),
    ];
    for i in 0..(o.n / 2).max(90) {
        let (g, ef, lfmt) = &gs[i % 3];
        let t = if i < 90 {
            g.term_of(rng, 1, i % 30)
        } else if i % 9 == 0 {
            // nested unary / fixed-arity compounds directly inside each other (constructors that might normalise)
            let x = g.term(rng, 3);
            // built from the variants directly: a constructor that normalises must not hide the shape from the check
            let neg = |t: Term| Term::Negation(Box::new(t));
            match i % 27 {
                0 => neg(neg(x)),
                9 => neg(neg(neg(x))),
                _ => Term::DifferenceExtension(Box::new(neg(neg(x.clone()))), Box::new(x)),
            }
        } else {
            g.term(rng, 0)
        };
        let s = ef.format_term(&t);
        let lx = match lfmt.parse_term(&s) {
            Ok(x) => x,
            Err(_) => continue,
        };
        // hand-built variants the parser cannot produce from formatter output: repeated (adjacent) components
        // in sets and compounds -- the lexical model does not interpret them, extraction returns them as stored
        let lx = if i % 4 == 3 {
            let dup = |mut terms: Vec<LTerm>| {
                if let Some(first) = terms.first().cloned() {
                    terms.insert(0, first);
                }
                if let Some(last) = terms.last().cloned() {
                    terms.push(last);
                }
                terms
            };
            match lx {
                LTerm::Set { left_bracket, terms, right_bracket } => LTerm::Set { left_bracket, terms: dup(terms), right_bracket },
                LTerm::Compound { connecter, terms } => LTerm::Compound { connecter, terms: dup(terms) },
                other => LTerm::Set { left_bracket: "{".into(), terms: vec![other.clone(), other.clone(), other], right_bracket: "}".into() },
            }
        } else {
            lx
        };
        rep.evaluations += 1;
        rep.hist.add(if i % 4 == 3 { "lexical-with-duplicates" } else { "lexical" });
        let stored: Vec<LTerm> = match &lx {
            LTerm::Atom { .. } => vec![lx.clone()],
            LTerm::Compound { terms, .. } | LTerm::Set { terms, .. } => terms.clone(),
            LTerm::Statement { subject, predicate, .. } => vec![(**subject).clone(), (**predicate).clone()],
        };
        let ex = lx.clone().extract_terms_to_vec();
        if ex != stored {
            rep.fail(Failure { stream: "lexical".into(), what: "lexical extract_terms does not return the stored components".into(), input: s.clone(), expected: format!("{:?}", stored), got: format!("{:?}", ex), known: None });
        }
        let lflags = [lx.is_atom(), lx.is_compound(), lx.is_statement()];
        if lflags.iter().filter(|x| **x).count() != 1 {
            rep.fail(Failure { stream: "lexical".into(), what: "lexical category predicates do not partition".into(), input: s.clone(), expected: "".into(), got: format!("{:?}", lflags), known: None });
        }
        if let Ok(folded) = lx.clone().try_fold_into(ef) {
            if folded.get_category() != lx.get_category() {
                rep.fail(Failure { stream: "lexical".into(), what: "category of a lexical term differs from the category of the enum term it folds to".into(), input: s.clone(), expected: format!("{:?}", lx.get_category()), got: format!("{:?}", folded.get_category()), known: None });
            }
        }
    }
}

// ------------------------------------------------------------------------------------------
const NAME_POOL: &[&str] = &[
    "", "+", "+5", "-5", "0005", "0", "7", "42", "+0007", "18446744073709551615", "18446744073709551616", "+18446744073709551615",
    "99999999999999999999999", "１２", "٣", " 5", "5 ", "5a", "a", "a-b", "名", "++5", "+-5", "-0", "+0", "1_000", "0x10", "1e3", "1.0", "🦀",
    // names that start with an atom prefix of some format (the accessor must report them back verbatim)
    "^go", "^", "$x", "#y", "?z", "_w", "+1a", "\\$v", "某甲", "操作x", "^^", "$",
];

/// an iterator with the weakest LEGAL size hint `(0, None)` / `(0, Some(n))` around a batch
struct VagueHint(std::vec::IntoIter<Term>, bool);
impl Iterator for VagueHint {
    type Item = Term;
    fn next(&mut self) -> Option<Term> {
        self.0.next()
    }
    fn size_hint(&self) -> (usize, Option<usize>) {
        (0, if self.1 { None } else { Some(self.0.len()) })
    }
}

/// number of ways `push_batch` delivers a batch
const BATCH_KINDS: usize = 22;
fn batch_kind_name(kind: usize) -> &'static str {
    [
        "Vec", "array", "VecDeque", "boxed slice -> into_vec", "vec::IntoIter by value", "filter(|_| true)", "boxed filter(|_| true)", "flat_map(Some)",
        "map(Some).flatten()", "iter::from_fn", "skip_while(|_| false)", "take_while(|_| true)", "chain(filter, filter)", "chain(exact, filter)",
        "iter::successors over indices", "size_hint (0, None)", "size_hint (0, Some(len))", "scan", "filter_map(Some)", "peekable", "map(identity) (exact hint)", "rev of reversed",
    ][kind]
}
/// `t.push_components(batch)` with the batch `v` delivered through one of many kinds of `IntoIterator<Item = Term>`, all
/// yielding exactly the elements of `v` in order; true = Ok
fn push_batch(t: &mut Term, kind: usize, v: Vec<Term>) -> bool {
    use std::collections::VecDeque;
    let n = v.len();
    match kind {
        0 => t.push_components(v).is_ok(),
        1 => match n {
            0 => t.push_components(<[Term; 0]>::try_from(v).ok().unwrap()).is_ok(),
            1 => t.push_components(<[Term; 1]>::try_from(v).ok().unwrap()).is_ok(),
            2 => t.push_components(<[Term; 2]>::try_from(v).ok().unwrap()).is_ok(),
            3 => t.push_components(<[Term; 3]>::try_from(v).ok().unwrap()).is_ok(),
            4 => t.push_components(<[Term; 4]>::try_from(v).ok().unwrap()).is_ok(),
            _ => t.push_components(v).is_ok(),
        },
        2 => t.push_components(VecDeque::from(v)).is_ok(),
        3 => t.push_components(v.into_boxed_slice().into_vec()).is_ok(),
        4 => t.push_components(v.into_iter()).is_ok(),
        5 => t.push_components(v.into_iter().filter(|_| true)).is_ok(),
        6 => t.push_components(Box::new(v.into_iter().filter(|_| true)) as Box<dyn Iterator<Item = Term>>).is_ok(),
        7 => t.push_components(v.into_iter().flat_map(Some)).is_ok(),
        8 => t.push_components(v.into_iter().map(Some).flatten()).is_ok(),
        9 => {
            let mut it = v.into_iter();
            t.push_components(std::iter::from_fn(move || it.next())).is_ok()
        }
        10 => t.push_components(v.into_iter().skip_while(|_| false)).is_ok(),
        11 => t.push_components(v.into_iter().take_while(|_| true)).is_ok(),
        12 => {
            let mut a = v;
            let b = a.split_off(n / 2);
            t.push_components(a.into_iter().filter(|_| true).chain(b.into_iter().filter(|_| true))).is_ok()
        }
        13 => {
            let mut a = v;
            let b = a.split_off(n / 2);
            t.push_components(a.into_iter().chain(b.into_iter().filter(|_| true))).is_ok()
        }
        14 => t.push_components(std::iter::successors(if n > 0 { Some(0usize) } else { None }, move |i| if i + 1 < n { Some(i + 1) } else { None }).map(move |i| v[i].clone())).is_ok(),
        15 => t.push_components(VagueHint(v.into_iter(), true)).is_ok(),
        16 => t.push_components(VagueHint(v.into_iter(), false)).is_ok(),
        17 => t.push_components(v.into_iter().scan((), |_, x| Some(x))).is_ok(),
        18 => t.push_components(v.into_iter().filter_map(Some)).is_ok(),
        19 => t.push_components(v.into_iter().peekable()).is_ok(),
        20 => t.push_components(v.into_iter().map(|x| x)).is_ok(),
        _ => {
            let mut r = v;
            r.reverse();
            t.push_components(r.into_iter().rev()).is_ok()
        }
    }
}

/// C17, "for all component lists cs": the list may reach `push_components` through ANY `IntoIterator<Item = Term>` (the
/// parameter type) -- containers with exact size hints and lazy adaptors whose lower size hint is 0 or partial.  Outcome and
/// post-state must be those for the plain Vec (which the reference and the model judge), for every constructor.
fn push_through_iterators(rep: &mut Report, rng: &mut Rng, g: &TermGen, work: &mut Vec<(Term, Option<String>, Option<Vec<Term>>)>, n: usize) {
    let mut targets: Vec<Term> = vec![];
    for k in 0..30 {
        targets.push(g.term_of(rng, 2, k));
    }
    // every variable-arity constructor also empty and with one component
    for kind in [7usize, 8, 9, 10, 13, 14, 15, 16, 17, 19, 20] {
        targets.extend(compound_of(kind, 0, &[]));
        targets.extend(compound_of(kind, 1, &[g.atom(rng)]));
    }
    for _ in 0..(n / 10).max(20) {
        targets.push(g.term(rng, 1));
    }
    for t in targets {
        let len = rng.below(5);
        let mut news: Vec<Term> = (0..len).map(|_| g.term(rng, 3)).collect();
        if len >= 2 && rng.chance(1, 3) {
            news[len - 1] = news[0].clone();
        }
        if len >= 1 && rng.chance(1, 3) {
            if let Some(c) = t.get_components().first() {
                news[0] = respell(c);
            }
        }
        let mut plain = t.clone();
        let ok_plain = push_batch(&mut plain, 0, news.clone());
        for kind in 1..BATCH_KINDS {
            rep.evaluations += 1;
            rep.hist.add(format!("push-through:{}", batch_kind_name(kind)));
            let mut after = t.clone();
            let got = guard(|| push_batch(&mut after, kind, news.clone()));
            if got != Some(ok_plain) || after != plain || canon(&after) != canon(&plain) {
                rep.fail(Failure {
                    stream: "push-through-iterators".into(),
                    what: "push_components with the batch delivered through another kind of IntoIterator differs from the same batch given as a Vec".into(),
                    input: format!("push_components({}, {:?} delivered as {})", show(&t), news, batch_kind_name(kind)),
                    expected: format!("{} {}", if ok_plain { "Ok" } else { "Err" }, show(&plain)),
                    got: format!("{} {}", match got { Some(true) => "Ok", Some(false) => "Err", None => "panic" }, show(&after)),
                    known: None,
                });
            }
        }
        // the plain Vec call is judged by the reference below and by the model
        work.push((t, None, Some(news)));
    }
}

pub fn run_c17(o: &Opts) -> Report {
    let mut rep = Report::new(
        "C17",
        "every constructor x adversarial names (\"\", +, +5, -5, 0005, 2^64-1, 2^64, fullwidth digits, spaces ...) for set_atom_name; \
         every constructor x component lists (0..4 items, incl. duplicates of existing components) for push_components; \
         every variable-arity constructor x batches holding an element equal to an existing one but spelled differently (operands of <->, <=>, <|> exchanged, \
         sets re-inserted in another order; bare and nested): the union holds no two == components and lacks none; \
         every constructor x batches of 0..4 delivered through 22 kinds of IntoIterator (Vec, array, VecDeque, filter, flat_map, flatten, from_fn, skip_while, take_while, chain, \
         successors, scan, vague size hints ...): same outcome and post-state as for the Vec; \
         on the real code: outcome and post-state vs an independent reference, on Err unchanged; distinct = distinct (term, op) canonical pairs; non-trivial = all",
    );
    let mut rng = Rng::new(o.seed ^ 0xC17);
    let g = tgen(NameStyle::Mixed, 3, 3, true);
    let mut cases = vec![];
    let mut work: Vec<(Term, Option<String>, Option<Vec<Term>>)> = vec![];
    for k in 0..30 {
        for name in NAME_POOL {
            if k < 7 || rng.chance(1, 6) {
                work.push((g.term_of(&mut rng, 2, k), Some(name.to_string()), None));
            }
        }
        for _ in 0..4 {
            let t = g.term_of(&mut rng, 2, k);
            let mut news: Vec<Term> = (0..rng.below(4)).map(|_| g.term(&mut rng, 3)).collect();
            if rng.chance(1, 2) {
                // re-insert an existing component (union must not duplicate it)
                if let Some(c) = t.get_components().first() {
                    news.push((*c).clone());
                }
            }
            work.push((t, None, Some(news)));
        }
    }
    for _ in 0..o.n {
        let t = g.term(&mut rng, 0);
        if rng.chance(1, 2) {
            let name = if rng.chance(1, 2) { rng.pick(NAME_POOL).to_string() } else { gen_name(&mut rng, NameStyle::Mixed) };
            work.push((t, Some(name), None));
        } else {
            let mut news: Vec<Term> = (0..rng.below(4)).map(|_| g.term(&mut rng, 3)).collect();
            // an existing component again, spelled differently (see below), and the placeholder as an ordinary new component
            if rng.chance(1, 3) {
                if let Some(c) = t.get_components().first() {
                    news.push(respell(c));
                }
            }
            if rng.chance(1, 6) {
                news.insert(0, Term::Placeholder);
            }
            work.push((t, None, Some(news)));
        }
    }
    // "uniting into unordered ones": the batch holds an element EQUAL (by ==) to an existing one but not spelled identically --
    // a symmetric statement (<->, <=>, <|>) with exchanged operands, a set inserted in another order into a fresh HashSet,
    // bare or nested inside an ordered compound / a negation / an asymmetric statement.  The union must hold one of them.
    // Every variable-arity constructor (the ordered ones append both), existing compound empty / one / several components,
    // the re-spelled element alone, next to an identical copy, twice, or only inside the batch.
    for kind in [7usize, 8, 9, 10, 16, 17, 20, 13, 19, 14, 15] {
        for xk in [22usize, 24, 29, 7, 16, 20] {
            for shape in 0..6 {
                let bx = |t: &Term| Box::new(t.clone());
                let core = g.term_of(&mut rng, 2, xk);
                let z = g.atom(&mut rng);
                let x = match shape {
                    0 | 1 | 5 => core,
                    2 => Term::Product(vec![core, z.clone()]),
                    3 => Term::Negation(bx(&core)),
                    _ => Term::Inheritance(bx(&z), bx(&core)),
                };
                let y = respell(&x);
                let other = g.term(&mut rng, 3);
                let (old, news): (Vec<Term>, Vec<Term>) = match shape {
                    0 => (vec![x.clone()], vec![y]),
                    1 => (vec![other.clone(), x.clone()], vec![g.term(&mut rng, 3), y, x.clone()]),
                    5 => (vec![], vec![x.clone(), y, other.clone()]),
                    _ => (vec![x.clone(), other.clone()], vec![y.clone(), respell(&y), other.clone()]),
                };
                if let Some(t) = compound_of(kind, 0, &old) {
                    work.push((t, None, Some(news)));
                }
            }
        }
    }
    // the same batches through every kind of IntoIterator (lazy adaptors, vague size hints, other containers)
    push_through_iterators(&mut rep, &mut rng, &g, &mut work, o.n);
    for (t, name, news) in work {
        rep.evaluations += 1;
        let mut after = t.clone();
        let (op, ok, descr) = match (&name, &news) {
            (Some(n), _) => {
                let ok = after.set_atom_name(n).is_ok();
                (format!("(OpSetName {})", cstr(n)), ok, format!("set_atom_name({}, {:?})", show(&t), n))
            }
            (_, Some(v)) => {
                let ok = after.push_components(v.clone()).is_ok();
                (format!("(OpPush {})", cterms(v.iter())), ok, format!("push_components({}, {:?})", show(&t), v))
            }
            _ => unreachable!(),
        };
        rep.note_distinct(&format!("{}|{}", canon(&t), op));
        rep.hist.add(format!("{}:{}:{}", if name.is_some() { "set_name" } else { "push" }, ctor_name(&t), ok));
        rep.sample(descr.clone());
        // reference
        let mut bad = |what: &str, got: String| {
            rep.fail(Failure { stream: "mutate".into(), what: what.into(), input: descr.clone(), expected: "".into(), got, known: None });
        };
        if !ok && canon(&after) != canon(&t) {
            bad("a failing mutator changed the term", show(&after));
        }
        if let Some(n) = &name {
            use Term::*;
            match &t {
                Word(..) | VariableIndependent(..) | VariableDependent(..) | VariableQuery(..) | Operator(..) => {
                    if !ok || after.get_atom_name().as_deref() != Some(n.as_str()) || ctor_name(&after) != ctor_name(&t) {
                        bad("renaming a named atom must succeed and be reported back verbatim", show(&after));
                    }
                }
                Placeholder => {
                    if !ok || after != Placeholder {
                        bad("renaming a placeholder must succeed and change nothing", show(&after));
                    }
                }
                Interval(_) => {
                    let body = n.strip_prefix('+').unwrap_or(n);
                    let refv: Option<usize> = if !body.is_empty() && body.bytes().all(|b| b.is_ascii_digit()) {
                        body.trim_start_matches('0').parse::<u128>().ok().or(if body.bytes().all(|b| b == b'0') { Some(0) } else { None }).and_then(|v| usize::try_from(v).ok())
                    } else {
                        None
                    };
                    match refv {
                        Some(v) => {
                            if !ok || after != Interval(v) {
                                bad("renaming an interval to an unsigned decimal that fits must set that value", show(&after));
                            }
                        }
                        None => {
                            if ok {
                                bad("renaming an interval to a non-number / overflowing number must fail", show(&after));
                            }
                        }
                    }
                }
                _ => {
                    if ok {
                        bad("renaming a compound or statement must fail", show(&after));
                    }
                }
            }
        }
        if let Some(v) = &news {
            use Term::*;
            match &t {
                Product(old) | ConjunctionSequential(old) | ImageExtension(_, old) | ImageIntension(_, old) => {
                    let mut want: Vec<String> = old.iter().map(canon).collect();
                    want.extend(v.iter().map(canon));
                    let got: Vec<String> = after.get_components().into_iter().map(canon).collect();
                    let idx_same = match (&t, &after) {
                        (ImageExtension(i, _), ImageExtension(j, _)) | (ImageIntension(i, _), ImageIntension(j, _)) => i == j,
                        (Product(..), Product(..)) | (ConjunctionSequential(..), ConjunctionSequential(..)) => true,
                        _ => false,
                    };
                    if !ok || want != got || !idx_same {
                        bad("appending to an ordered compound must append in order and keep the image index", show(&after));
                    }
                }
                SetExtension(old) | SetIntension(old) | IntersectionExtension(old) | IntersectionIntension(old) | Conjunction(old) | Disjunction(old) | ConjunctionParallel(old) => {
                    let mut want: Vec<String> = old.iter().map(canon).collect();
                    want.extend(v.iter().map(canon));
                    want.sort();
                    want.dedup();
                    let mut got: Vec<String> = after.get_components().into_iter().map(canon).collect();
                    got.sort();
                    let n_got = got.len();
                    got.dedup();
                    if !ok || want != got || n_got != got.len() || ctor_name(&after) != ctor_name(&t) {
                        bad("appending to an unordered compound must unite the components", show(&after));
                    }
                    // a union holds no two equal components (== of the library itself), and every old / new one is found in it
                    let cs = after.get_components();
                    let twice = cs.iter().enumerate().any(|(i, a)| cs.iter().skip(i + 1).any(|b| a == b));
                    let lost = old.iter().chain(v.iter()).any(|e| !cs.iter().any(|c| *c == e));
                    if twice || lost {
                        bad("the union after appending holds two equal components, or lacks an old / appended one", show(&after));
                    }
                }
                _ => {
                    if ok {
                        bad("appending to an atom / negation / difference / statement must fail", show(&after));
                    }
                }
            }
        }
        rep.case_descr.push(descr);
        cases.push(format!("C17 {} {} {} {} {}", cterm(&t), op, cbool(ok), cterm(&after), copt(&after.get_atom_name(), |n| cstr(n))));
    }
    rep.shards = write_shards(&o.outdir, "C17", "Nv.Run.TermRun", "mismatches_c17", "c17case", "N_scope", &cases, o.shards, "").unwrap();
    rep
}
