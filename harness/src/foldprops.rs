//! Correspondence streams and real-code property search for lexical folding
//! (model: Model/Fold.v, runner Run/FoldRun.v): property C03 (direct enum parse = lexical parse + fold)
//! and the fold halves of C05 (no panic), C12 (Ok values well-formed), C14 (category preserved).
use crate::coqw::*;
use crate::enumgen::*;
use crate::enumprops::{printable, real_lexfold, real_parse, wf_out, PR};
use crate::prng::Rng;
use crate::ser::*;
use crate::util::*;
use narsese::api::{GetCapacity, GetCategory, GetTerm, TermCapacity, TermCategory};
use narsese::conversion::inter_type::lexical_fold::TryFoldInto;
use narsese::enum_narsese::{Narsese, Term};
use narsese::lexical::{Narsese as LNarsese, Sentence as LSentence, Task as LTask, Term as LTerm};

// -------------------------------------------------------------------------------------------
// serialisation of lexical values into Gallina literals (Model/Access.v lterm, Model/Sentence.v)
// -------------------------------------------------------------------------------------------
pub fn clterm(t: &LTerm) -> String {
    match t {
        LTerm::Atom { prefix, name } => format!("(LAtom {} {})", cstr(prefix), cstr(name)),
        LTerm::Compound { connecter, terms } => format!("(LCompound {} {})", cstr(connecter), clist(terms, clterm)),
        LTerm::Set { left_bracket, terms, right_bracket } => {
            format!("(LSet {} {} {})", cstr(left_bracket), clist(terms, clterm), cstr(right_bracket))
        }
        LTerm::Statement { copula, subject, predicate } => {
            format!("(LStatement {} {} {})", cstr(copula), clterm(subject), clterm(predicate))
        }
    }
}
pub fn clsentence(s: &LSentence) -> String {
    format!(
        "{{| ls_term := {}; ls_punct := {}; ls_stamp := {}; ls_truth := {} |}}",
        clterm(&s.term),
        cstr(&s.punctuation),
        cstr(&s.stamp),
        clist(&s.truth, |x| cstr(x))
    )
}
pub fn cltask(k: &LTask) -> String {
    format!("{{| lt_budget := {}; lt_sentence := {} |}}", clist(&k.budget, |x| cstr(x)), clsentence(&k.sentence))
}
pub fn clnarsese(v: &LNarsese) -> String {
    match v {
        LNarsese::Term(t) => format!("(NTerm {})", clterm(t)),
        LNarsese::Sentence(s) => format!("(NSentence {})", clsentence(s)),
        LNarsese::Task(k) => format!("(NTask {})", cltask(k)),
    }
}

fn lterm_of(v: &LNarsese) -> &LTerm {
    match v {
        LNarsese::Term(t) => t,
        LNarsese::Sentence(s) => &s.term,
        LNarsese::Task(k) => &k.sentence.term,
    }
}

fn cat_idx(c: TermCategory) -> usize {
    match c {
        TermCategory::Atom => 0,
        TermCategory::Compound => 1,
        TermCategory::Statement => 2,
    }
}
fn cap_idx(c: TermCapacity) -> usize {
    match c {
        TermCapacity::Atom => 0,
        TermCapacity::Unary => 1,
        TermCapacity::BinaryVec => 2,
        TermCapacity::BinarySet => 3,
        TermCapacity::Vec => 4,
        TermCapacity::Set => 5,
    }
}

// -------------------------------------------------------------------------------------------
// running the real fold
// -------------------------------------------------------------------------------------------
pub fn real_fold(fm: &Fm, lv: &LNarsese) -> PR<Narsese> {
    let e = fm.e;
    let lv = lv.clone();
    guard(move || match lv.try_fold_into(e) {
        Ok(v) => Some(v),
        Err(err) => {
            let _ = format!("{:?}", err);
            None
        }
    })
    .ok_or(())
}

fn eres<T>(r: &PR<T>, f: impl Fn(&T) -> String) -> String {
    match r {
        Ok(Some(v)) => format!("(EOk {})", f(v)),
        Ok(None) => "EErr".into(),
        Err(()) => "EPanic".into(),
    }
}
fn pr_tag<T>(r: &PR<T>) -> &'static str {
    match r {
        Ok(Some(_)) => "ok",
        Ok(None) => "err",
        Err(()) => "panic",
    }
}
fn canon_pr(r: &PR<Narsese>) -> String {
    match r {
        Ok(Some(v)) => canon_narsese(v),
        Ok(None) => "Err".into(),
        Err(()) => "PANIC".into(),
    }
}

struct Ctx<'a> {
    rep: &'a mut Report,
    cases: Vec<String>,
}
impl<'a> Ctx<'a> {
    fn push(&mut self, case: String, descr: String) {
        self.cases.push(case);
        self.rep.case_descr.push(descr);
    }
    /// run the real fold, record the model case, evaluate C05 / C12 / C14 on the real result
    fn fold_case(&mut self, fm: &Fm, lv: &LNarsese, stream: &str, check_props: bool) -> PR<Narsese> {
        let r = real_fold(fm, lv);
        self.push(format!("FFold {} {} {}", fm.idx, clnarsese(lv), eres(&r, cnarsese)), format!("fold[{}] {:?}", fm.name, lv));
        self.rep.evaluations += 1;
        self.rep.note_distinct(&format!("f{}|{:?}", fm.idx, lv));
        if check_props {
            let input = format!("[{}] {:?}", fm.name, lv);
            match &r {
                Err(()) => self.fail(stream, "C05: folding a lexical value panicked", input, "Ok or Err".into(), "PANIC".into(), None),
                Ok(Some(v)) => {
                    if let Err(why) = wf_out(v, false) {
                        self.fail(stream, "C12: folding returned an ill-formed value", input.clone(), "well-formed".into(), format!("{}: {}", why, canon_narsese(v)), None);
                    }
                    if let Err(why) = printable(v) {
                        self.fail(stream, "C12: fold output cannot be formatted", input.clone(), "printable".into(), why, None);
                    }
                    let lc = lterm_of(lv).get_category();
                    let ec = v.get_term().get_category();
                    if cat_idx(lc) != cat_idx(ec) {
                        self.fail(stream, "C14: category of the lexical term differs from the category of the folded term", input, format!("{:?}", lc), format!("{:?}", ec), None);
                    }
                }
                Ok(None) => {}
            }
        }
        r
    }
    fn lexcat_case(&mut self, t: &LTerm) {
        self.push(
            format!("FLexCat {} {} {}", clterm(t), cat_idx(t.get_category()), cap_idx(t.get_capacity())),
            format!("lexical category/capacity {:?}", t),
        );
        self.rep.evaluations += 1;
    }
    fn float_case(&mut self, s: &str) {
        let r = s.parse::<f64>().ok();
        self.push(format!("FFloat {} {}", cstr(s), copt(&r, |f| zbits(*f))), format!("parse::<f64>({:?})", s));
        self.rep.evaluations += 1;
        self.rep.note_distinct(&format!("n|{}", s));
        self.rep.hist.add(format!("float:{}", match r {
            None => "err",
            Some(f) if f.is_nan() => "nan",
            Some(f) if f.is_infinite() => "inf",
            Some(f) if (0.0..=1.0).contains(&f) => "in01",
            Some(_) => "outside01",
        }));
    }
    fn fail(&mut self, stream: &str, what: &str, input: String, expected: String, got: String, known: Option<&str>) {
        self.rep.fail(Failure { stream: stream.into(), what: what.into(), input, expected, got, known: known.map(|s| s.to_string()) });
    }
}

fn finish(o: &Opts, prop: &str, mut rep: Report, cases: Vec<String>) -> Report {
    rep.shards = write_shards(&o.outdir, prop, "Nv.Run.FoldRun", "mismatches_fold", "fcase", "N_scope", &cases, o.shards, "").unwrap();
    rep
}

/// the value stream of the enum checks (numeric-name variables, placeholder operands, a wide value, every constructor)
fn value_stream(rng: &mut Rng, fm: &Fm, n: usize, thorough: bool) -> Vec<Narsese> {
    crate::enumprops::value_stream(rng, fm, n, thorough)
}

// -------------------------------------------------------------------------------------------
// float strings (what try_fold_float_vec hands to str::parse::<f64>())
// -------------------------------------------------------------------------------------------
pub const FLOAT_STRINGS: &[&str] = &[
    "0.5", "1", "0", "1.0", "0.0", "0.9", "1.5", "2", "-0", "-0.0", "-1", "-0.5", "+0.5", "+1", "+0", "+", "-", "", ".", ".5", "5.", "+.5", "-.5", "-.",
    "1e-3", "1e0", "1E0", "1e+0", "1e-0", "10e-1", "0.1e1", "1.e0", ".1e1", "1e", "1e+", "1e-", "e5", ".e5", "1e5x", "1e1", "1e400", "1e-400", "-1e-400", "1e308", "1.8e308",
    "5e-324", "2e-324", "3e-324", "2.4703282292062327e-324", "2.4703282292062328e-324", "1e99999", "1e-99999", "0e99999", "1e65535", "1e65536", "1e655360", "0.0e-70000",
    "NaN", "nan", "NAN", "nAn", "-nan", "+nan", "inf", "Inf", "INF", "-inf", "+inf", "infinity", "Infinity", "INFINITY", "-infinity", "+Infinity", "infinit", "infinityy", "in", "na", "nanx", "infx",
    "abc", "0x1", "1_0", "1,0", " 1", "1 ", "1\t", "１", "١", "1.0.0", "1..0", "--1", "+-1", "-+1", "++1", "1f", "1d", "1.0f64",
    "0.99999999999999999999", "1.0000000000000001", "1.0000000000000002", "1.00000000000000011102230246251565404236316680908203125", "1.00000000000000011102230246251565404236316680908203126",
    "0.9999999999999999", "0.99999999999999994", "0.99999999999999995", "00000000000000000000000000000000000000001", "0.000000000000000000000000000000000000000000000000000000001",
    "123456789012345678901234567890", "4.9406564584124654e-324", "2.2250738585072011e-308", "2.2250738585072014e-308", "1.7976931348623157e308", "1.7976931348623159e308", "179769313486231580793728971405303415079934132710037826936173778980444968292764750946649017977587207096330286416692887910946555547851940402630657488671505820681908902000708383676273854845817711531764475730270069855571366959622842914819860834936475292719074168444365510704342711559699508093042880177904174497791",
    "9007199254740993", "9007199254740992", "9007199254740991e-16", "0.1", "0.2", "0.3", "0.30000000000000004", "1e23", "8.41e21", "9.5367431640625e-7",
];

fn gen_float_string(rng: &mut Rng) -> String {
    match rng.below(10) {
        0..=3 => rng.pick(FLOAT_STRINGS).to_string(),
        4 => format!("{}", gen_float(rng)),
        5 => format!("{:e}", gen_float(rng)),
        6 => {
            // random digits with a dot and an exponent
            let mut s = String::new();
            if rng.chance(1, 4) {
                s.push(*rng.pick(&['+', '-']));
            }
            for _ in 0..rng.below(5) {
                s.push(char::from(b'0' + rng.below(10) as u8));
            }
            if rng.chance(2, 3) {
                s.push('.');
                for _ in 0..rng.below(20) {
                    s.push(char::from(b'0' + rng.below(10) as u8));
                }
            }
            if rng.chance(1, 2) {
                s.push(*rng.pick(&['e', 'E']));
                if rng.chance(1, 2) {
                    s.push(*rng.pick(&['+', '-']));
                }
                for _ in 0..rng.below(4) {
                    s.push(char::from(b'0' + rng.below(10) as u8));
                }
            }
            s
        }
        7 => {
            // a float in [0,1] printed with many digits
            format!("{:.30}", (rng.next() >> 11) as f64 / (1u64 << 53) as f64)
        }
        _ => {
            // one mutation of a pool string
            let pool: Vec<String> = ["e", "E", ".", "-", "+", "0", "9", "n", "a", "i", "f", " ", "_"].iter().map(|s| s.to_string()).collect();
            let base: &str = *rng.pick::<&str>(FLOAT_STRINGS);
            mutate(base, rng, &pool)
        }
    }
}

// -------------------------------------------------------------------------------------------
// garbage lexical values
// -------------------------------------------------------------------------------------------
struct LexGen<'a> {
    fm: &'a Fm,
    prefixes: Vec<String>,
    connecters: Vec<String>,
    copulas: Vec<String>,
    brackets: Vec<(String, String)>,
    names: Vec<String>,
    puncts: Vec<String>,
    stamps: Vec<String>,
}

impl<'a> LexGen<'a> {
    fn new(fm: &'a Fm, others: &[Fm]) -> Self {
        let e = fm.e;
        let s = |x: &str| x.to_string();
        let mut prefixes: Vec<String> = vec![
            s(e.atom.prefix_word), s(e.atom.prefix_placeholder), s(e.atom.prefix_variable_independent), s(e.atom.prefix_variable_dependent),
            s(e.atom.prefix_variable_query), s(e.atom.prefix_interval), s(e.atom.prefix_operator),
        ];
        let real_prefixes = prefixes.clone();
        let c = &e.compound;
        let mut connecters: Vec<String> = vec![
            s(c.connecter_intersection_extension), s(c.connecter_intersection_intension), s(c.connecter_difference_extension), s(c.connecter_difference_intension),
            s(c.connecter_product), s(c.connecter_image_extension), s(c.connecter_image_intension), s(c.connecter_conjunction), s(c.connecter_disjunction),
            s(c.connecter_negation), s(c.connecter_conjunction_sequential), s(c.connecter_conjunction_parallel),
        ];
        // images and fixed arities more often
        for _ in 0..2 {
            connecters.push(s(c.connecter_image_extension));
            connecters.push(s(c.connecter_image_intension));
            connecters.push(s(c.connecter_negation));
            connecters.push(s(c.connecter_difference_extension));
            connecters.push(s(c.connecter_difference_intension));
        }
        let mut copulas: Vec<String> = e.copulas().iter().map(|x| s(x)).collect();
        let mut brackets: Vec<(String, String)> = vec![
            (s(c.brackets_set_extension.0), s(c.brackets_set_extension.1)),
            (s(c.brackets_set_intension.0), s(c.brackets_set_intension.1)),
            (s(c.brackets_set_extension.0), s(c.brackets_set_intension.1)),
            (s(c.brackets_set_intension.0), s(c.brackets_set_extension.1)),
            (s(c.brackets_set_extension.1), s(c.brackets_set_extension.0)),
            (s(c.brackets.0), s(c.brackets.1)),
            (s(""), s("")),
            (s(c.brackets_set_extension.0), s("")),
        ];
        // unknown keywords: keywords of the other formats, neighbours of real ones, classes crossed
        for o in others {
            if o.idx == fm.idx {
                continue;
            }
            prefixes.push(s(o.e.atom.prefix_operator));
            prefixes.push(s(o.e.atom.prefix_placeholder));
            connecters.push(s(o.e.compound.connecter_product));
            connecters.push(s(o.e.compound.connecter_image_extension));
            copulas.push(s(o.e.statement.copula_inheritance));
            brackets.push((s(o.e.compound.brackets_set_extension.0), s(o.e.compound.brackets_set_extension.1)));
        }
        for extra in ["", "x", "??", " ", "-->", "&", "_"] {
            prefixes.push(s(extra));
            connecters.push(s(extra));
            copulas.push(s(extra));
        }
        prefixes.push(format!("{} ", e.atom.prefix_operator));
        prefixes.push(format!("{}{}", e.atom.prefix_variable_query, e.atom.prefix_variable_query));
        connecters.push(format!("{}{}", c.connecter_product, c.connecter_product));
        connecters.push(s(e.atom.prefix_operator));
        copulas.push(format!("{} ", e.statement.copula_inheritance));
        copulas.push(s(c.connecter_conjunction));
        let mut names: Vec<String> = ["a", "B", "x1", "go-to", "a_b", "", "", "0", "7", "42", "007", "+5", "-5", "+", "-", "18446744073709551615", "18446744073709551616", "99999999999999999999999", "１２", "1 2", " 5", "5 ", "1e3", "_", "猫", "🦀", "a b", "\n"]
            .iter().map(|x| s(x)).collect();
        for p in &real_prefixes {
            names.push(p.clone());
        }
        names.push(s(e.statement.copula_inheritance));
        let puncts: Vec<String> = vec![
            s(e.sentence.punctuation_judgement), s(e.sentence.punctuation_goal), s(e.sentence.punctuation_question), s(e.sentence.punctuation_quest),
            s(e.sentence.punctuation_judgement), s(e.sentence.punctuation_goal), s(e.sentence.punctuation_question), s(e.sentence.punctuation_quest),
            s(""), format!("{}{}", e.sentence.punctuation_judgement, e.sentence.punctuation_judgement), format!("{} ", e.sentence.punctuation_judgement),
            format!(" {}", e.sentence.punctuation_judgement), s("x"), s("。"), s("@"), s(e.sentence.stamp_past), format!("{}x", e.sentence.punctuation_goal),
        ];
        let (sl, sr) = e.sentence.stamp_brackets;
        let fx = e.sentence.stamp_fixed;
        let mut stamps: Vec<String> = vec![
            s(""), s(""), s(""),
            format!("{sl}{}{sr}", e.sentence.stamp_past), format!("{sl}{}{sr}", e.sentence.stamp_present), format!("{sl}{}{sr}", e.sentence.stamp_future),
            format!("{sl}{fx}0{sr}"), format!("{sl}{fx}-1{sr}"), format!("{sl}{fx}+7{sr}"), format!("{sl}{fx}137{sr}"),
            format!("{sl}{fx}9223372036854775807{sr}"), format!("{sl}{fx}-9223372036854775808{sr}"), format!("{sl}{fx}9223372036854775808{sr}"), format!("{sl}{fx}-9223372036854775809{sr}"),
            format!("{sl}{fx}{sr}"), format!("{sl}{fx}"), format!("{sl}{fx}x{sr}"), format!("{sl}{fx}-{sr}"), format!("{sl}{fx}+-1{sr}"), format!("{sl}{fx}1-1{sr}"), format!("{sl}{fx} 5{sr}"), format!("{sl}{fx}5 {sr}"),
            format!("{sl}{fx}1.5{sr}"), format!("{sl}{fx}５{sr}"), format!("{sl}{fx}00000000000000000000000000005{sr}"),
            s(sl), s(sr), format!("{sl}{sr}"), format!("{sl}{}", e.sentence.stamp_past), format!("{}{sr}", e.sentence.stamp_past), format!(" {sl}{}{sr}", e.sentence.stamp_present),
            format!("{sl} {}{sr}", e.sentence.stamp_present), format!("{sl}{} {sr}", e.sentence.stamp_present), format!("{sl}{}{sr}x", e.sentence.stamp_present), format!("{sl}{}{}{sr}", e.sentence.stamp_past, e.sentence.stamp_future),
            s("x"), s(" "), s(":|:"), s(":!5:"), s("t=5"), s("发生在5"), s("现在"), s(e.sentence.punctuation_judgement), s(e.sentence.truth_brackets.0),
        ];
        for _ in 0..3 {
            stamps.push(e.format_stamp(&narsese::enum_narsese::Stamp::Fixed(-42)));
        }
        LexGen { fm, prefixes, connecters, copulas, brackets, names, puncts, stamps }
    }

    fn atom(&self, rng: &mut Rng, valid_bias: bool) -> LTerm {
        let e = self.fm.e;
        if valid_bias && rng.chance(3, 4) {
            // a foldable atom
            return match rng.below(8) {
                0 => LTerm::new_atom(e.atom.prefix_placeholder, ""),
                1 => LTerm::new_atom(e.atom.prefix_interval, rng.below(1000).to_string()),
                2 => LTerm::new_atom(e.atom.prefix_variable_independent, "x"),
                3 => LTerm::new_atom(e.atom.prefix_operator, "op"),
                _ => LTerm::new_atom(e.atom.prefix_word, rng.pick(&["a", "b", "c", "SELF", "猫"]).to_string()),
            };
        }
        LTerm::new_atom(rng.pick(&self.prefixes).clone(), rng.pick(&self.names).clone())
    }

    fn terms(&self, rng: &mut Rng, depth: usize, max: usize) -> Vec<LTerm> {
        let n = rng.below(max + 1);
        let ph = LTerm::new_atom(self.fm.e.atom.prefix_placeholder, if rng.chance(1, 4) { "name" } else { "" });
        let mut v: Vec<LTerm> = (0..n).map(|_| self.term(rng, depth + 1)).collect();
        // placeholders: none / one / several, at any position
        for _ in 0..*rng.pick(&[0usize, 0, 1, 1, 1, 2, 3]) {
            let at = rng.below(v.len() + 1);
            v.insert(at, ph.clone());
        }
        v
    }

    fn term(&self, rng: &mut Rng, depth: usize) -> LTerm {
        if depth >= 3 || rng.chance(2 + depth, 6 + depth) {
            return self.atom(rng, depth > 0);
        }
        match rng.below(4) {
            0 | 1 => LTerm::new_compound(rng.pick(&self.connecters).clone(), self.terms(rng, depth, 4)),
            2 => {
                let (l, r) = rng.pick(&self.brackets).clone();
                LTerm::new_set(l, self.terms(rng, depth, 3), r)
            }
            _ => LTerm::new_statement(rng.pick(&self.copulas).clone(), self.term(rng, depth + 1), self.term(rng, depth + 1)),
        }
    }

    fn floats(&self, rng: &mut Rng, max: usize) -> Vec<String> {
        let n = *rng.pick(&[0usize, 1, 2, 3, 4, 5, 1, 2, 3]);
        let n = n.min(max);
        (0..n)
            .map(|_| {
                if rng.chance(3, 5) {
                    // mostly in range, so that later entries are reached
                    rng.pick(&["0.5", "1", "0", "1.0", "0.9", "-0", "1e-3", "+0.5", ".5", "5e-324", "-0.0", "1e-400", "0.99999999999999999999", "1E0", "-1e-400"]).to_string()
                } else {
                    gen_float_string(rng)
                }
            })
            .collect()
    }

    fn sentence(&self, rng: &mut Rng) -> LSentence {
        let term = if rng.chance(1, 2) { self.atom(rng, true) } else { self.term(rng, 0) };
        LSentence::new(term, rng.pick(&self.puncts).clone(), rng.pick(&self.stamps).clone(), self.floats(rng, 5))
    }

    fn narsese(&self, rng: &mut Rng) -> LNarsese {
        match rng.below(3) {
            0 => LNarsese::Term(self.term(rng, 0)),
            1 => LNarsese::Sentence(self.sentence(rng)),
            _ => LNarsese::Task(LTask { budget: self.floats(rng, 5), sentence: self.sentence(rng) }),
        }
    }
}

fn garbage_stream(cx: &mut Ctx, rng: &mut Rng, n: usize, stream: &str) {
    let fms = formats();
    for fm in &fms {
        let g = LexGen::new(fm, &fms);
        let e = fm.e;
        // fixed boundary cases first
        let ph = || LTerm::new_atom(e.atom.prefix_placeholder, "");
        let w = |n: &str| LTerm::new_atom(e.atom.prefix_word, n);
        let c = &e.compound;
        let mut fixed: Vec<LNarsese> = vec![];
        for conn in [c.connecter_image_extension, c.connecter_image_intension] {
            for items in [vec![], vec![ph()], vec![w("R")], vec![ph(), w("R")], vec![w("R"), ph()], vec![w("R"), ph(), w("A")], vec![ph(), ph()], vec![w("R"), ph(), ph(), w("A"), ph()], vec![w("R"), w("A")]] {
                fixed.push(LNarsese::Term(LTerm::new_compound(conn, items)));
            }
        }
        for conn in [c.connecter_negation, c.connecter_difference_extension, c.connecter_difference_intension, c.connecter_product, c.connecter_conjunction, c.connecter_intersection_extension] {
            for k in 0..4 {
                fixed.push(LNarsese::Term(LTerm::new_compound(conn, (0..k).map(|i| w(&format!("a{}", i % 2))).collect())));
            }
        }
        for (l, r) in [c.brackets_set_extension, c.brackets_set_intension] {
            fixed.push(LNarsese::Term(LTerm::new_set(l, vec![], r)));
            fixed.push(LNarsese::Term(LTerm::new_set(l, vec![w("a"), w("a"), w("b")], r)));
        }
        for p in [e.atom.prefix_word, e.atom.prefix_placeholder, e.atom.prefix_variable_independent, e.atom.prefix_variable_dependent, e.atom.prefix_variable_query, e.atom.prefix_interval, e.atom.prefix_operator] {
            fixed.push(LNarsese::Term(LTerm::new_atom(p, "")));
            fixed.push(LNarsese::Term(LTerm::new_atom(p, "12")));
            fixed.push(LNarsese::Term(LTerm::new_atom(p, "n")));
        }
        for cop in e.copulas() {
            fixed.push(LNarsese::Term(LTerm::new_statement(cop, w("S"), w("P"))));
        }
        // number ladders: 0-5 entries, range / syntax violation at each position
        for bad in ["1.5", "-1", "NaN", "inf", "x", "", "-0", "1e-3"] {
            for k in 0..5usize {
                for pos in 0..=k {
                    let mut v: Vec<String> = (0..k).map(|_| "0.5".to_string()).collect();
                    if pos < k {
                        v[pos] = bad.to_string();
                    }
                    fixed.push(LNarsese::Sentence(LSentence::new(w("a"), e.sentence.punctuation_judgement, "", v.clone())));
                    fixed.push(LNarsese::Task(LTask { budget: v.clone(), sentence: LSentence::new(w("a"), e.sentence.punctuation_question, "", vec![]) }));
                    if bad != "1.5" {
                        break;
                    }
                }
            }
        }
        for st in g.stamps.clone() {
            fixed.push(LNarsese::Sentence(LSentence::new(w("a"), e.sentence.punctuation_goal, st, vec![])));
        }
        for p in g.puncts.clone() {
            fixed.push(LNarsese::Sentence(LSentence::new(w("a"), p, "", vec!["1".to_string()])));
        }
        // an error and a would-be panic in the same value: the first one in evaluation order decides
        fixed.push(LNarsese::Task(LTask { budget: vec!["x".into()], sentence: LSentence::new(LTerm::new_atom("??", "a"), "", "zz", vec!["2".into()]) }));
        let per = (n / 3).max(30);
        let all: Vec<LNarsese> = fixed.into_iter().chain((0..per).map(|_| g.narsese(rng))).collect();
        for lv in all {
            let r = cx.fold_case(fm, &lv, stream, true);
            let kind = match &lv {
                LNarsese::Term(_) => "term",
                LNarsese::Sentence(_) => "sentence",
                LNarsese::Task(_) => "task",
            };
            cx.rep.hist.add(format!("{}:{}:{}:{}", stream, fm.name, kind, pr_tag(&r)));
            if let Ok(Some(v)) = &r {
                cx.rep.sample(format!("[{}] {:?} -> {}", fm.name, lv, canon_narsese(v)));
            }
            if rng.chance(1, 6) {
                cx.lexcat_case(lterm_of(&lv));
            }
        }
    }
}

fn float_stream(cx: &mut Ctx, rng: &mut Rng, n: usize) {
    for s in FLOAT_STRINGS {
        cx.float_case(s);
    }
    for _ in 0..n {
        let s = gen_float_string(rng);
        cx.float_case(&s);
    }
}

/// stream (a): lexical values obtained by really parsing texts (formatted enum values, derived copulas, re-spaced)
fn parsed_stream(cx: &mut Ctx, rng: &mut Rng, n: usize, thorough: bool, stream: &str, c03: bool) {
    for fm in formats() {
        let e = fm.e;
        let per = (n / 3).max(10);
        for v in value_stream(rng, &fm, per, thorough) {
            let text0 = e.format_narsese(&v);
            if c01_known(e, &v, &text0).is_some() {
                cx.rep.hist.add(format!("{}:{}:skipped-known-class", stream, fm.name));
                continue;
            }
            let toks = narsese_tokens(e, &v, Sugar::Derived, rng);
            let want = canon_narsese(&v);
            let mut texts: Vec<String> = vec![text0.clone(), toks.join(1, rng, e.space.parse), toks.join(2, rng, e.space.parse)];
            texts.dedup();
            for s in texts {
                let sugared = s != text0;
                let lp = guard(|| fm.l.parse(&s).ok());
                cx.rep.evaluations += 1;
                let lv = match lp {
                    Some(Some(lv)) => lv,
                    other => {
                        if c03 {
                            cx.fail(stream, "C03: the lexical parser rejected / panicked on a well-formed string", format!("[{}] {:?}", fm.name, s), want.clone(), if other.is_none() { "PANIC".into() } else { "Err".into() }, None);
                        }
                        continue;
                    }
                };
                let folded = cx.fold_case(&fm, &lv, stream, !c03);
                cx.rep.hist.add(format!("{}:{}:{}:{}:{}", stream, fm.name, ctor_name(v.get_term()), if sugared { "sugared/respaced" } else { "plain" }, pr_tag(&folded)));
                if c03 {
                    let direct = real_parse(e, &s);
                    cx.rep.evaluations += 1;
                    let (cd, cf) = (canon_pr(&direct), canon_pr(&folded));
                    let both_ok = matches!(&direct, Ok(Some(_))) && matches!(&folded, Ok(Some(_)));
                    if !both_ok || cd != cf {
                        cx.fail(stream, "C03: direct enum parse and lexical parse + fold differ (or one of them fails)", format!("[{}] {:?}", fm.name, s), cd.clone(), cf.clone(), None);
                    } else if cd != want {
                        // both pipelines agree with each other but not with the value the text was printed from
                        cx.fail(stream, "C03/C10: both pipelines agree but not on the documented value", format!("[{}] {:?}", fm.name, s), want.clone(), cd.clone(), None);
                    }
                    if let (Ok(Some(a)), Ok(Some(b))) = (&direct, &folded) {
                        if cd == cf && a != b {
                            cx.fail(stream, "C03: values compare unequal with == although their canonical forms agree", format!("[{}] {:?}", fm.name, s), cd, cf, None);
                        }
                    }
                    cx.rep.sample(format!("[{}] {}", fm.name, s));
                }
            }
        }
    }
}

// -------------------------------------------------------------------------------------------
// C03
// -------------------------------------------------------------------------------------------
pub fn run_c03(o: &Opts) -> Report {
    let mut rep = Report::new(
        "C03",
        "well-formed enum values (all 30 constructors on top, nesting, adversarial names, boundary floats, extreme stamps, all truth/budget arities) x 3 formats, printed by format_narsese and by an independent token formatter with the derived copulas (instance, property, instance-property, retrospective equivalence), canonical and random 0-3 spaces per token boundary; texts of the known ambiguity classes K1-K3 are skipped: \
         the lexical value the real lexical parser returns is folded by the real fold and by the model fold (compared); on the real code: enum parse(text) and fold(lexical parse(text)) are both Ok, have equal canonical forms (and are ==), and equal the value the text was printed from; \
         plus the corpus of fixed findings; distinct = distinct (format, lexical value); non-trivial = all",
    );
    let mut rng = Rng::new(o.seed ^ 0xC03);
    let mut cx = Ctx { rep: &mut rep, cases: vec![] };
    // corpus: fixed findings of C03/C10 re-run first
    for (fi, s) in [(0usize, "(~, A, B)"), (0, "(-, A, B)"), (2, "我曾"), (0, "<A {-- B>"), (0, "<A --] B>"), (0, "<A {-] B>"), (0, "<A <\\> B>"), (0, "(/, R, _, B)"), (0, "(\\, _, R, B)"), (0, "$0.5;0.5;0.5$ <A --> B>. :!-1: %1.0;0.9%"), (0, "+0007"), (0, "_name"), (0, "(--, (--, A))"), (0, "(--, (--, <A --> B>))"), (0, "<(--, (--, (--, A))) --> B>."), (1, "\\left(\\neg{}\\; \\left(\\neg{}\\; A\\right)\\right)"), (2, "（非，（非，甲））")] {
        let fm = &formats()[fi];
        let direct = real_parse(fm.e, s);
        match guard(|| fm.l.parse(s).ok()) {
            Some(Some(lv)) => {
                let folded = cx.fold_case(fm, &lv, "corpus", false);
                if canon_pr(&direct) != canon_pr(&folded) || !matches!(&direct, Ok(Some(_))) {
                    cx.fail("corpus", "C03: direct enum parse and lexical parse + fold differ", format!("[{}] {:?}", fm.name, s), canon_pr(&direct), canon_pr(&folded), None);
                }
            }
            _ => cx.fail("corpus", "C03: lexical parser rejected a corpus text", format!("[{}] {:?}", fm.name, s), canon_pr(&direct), "Err/PANIC".into(), None),
        }
    }
    parsed_stream(&mut cx, &mut rng, o.n, o.thorough, "parsed", true);
    // witness of the known class K3 for this property (Han): a name ending in the first character of a two-character
    // copula, WITH a space before the copula: the enum parser keeps the name, the lexical parser strips the space first
    {
        let fm = &formats()[2];
        let s = "「a具 有值」";
        let direct = real_parse(fm.e, s);
        let folded = real_lexfold(fm, s);
        let differ = canon_pr(&direct) != canon_pr(&folded);
        cx.rep.hist.add(format!("witness:K3:{}", if differ { "pipelines disagree" } else { "agree" }));
        if differ {
            cx.fail("witness", "known-class witness: direct enum parse and lexical parse + fold differ", format!("[han] {:?}", s), canon_pr(&direct), canon_pr(&folded), Some("K3"));
        }
    }
    // probes OUTSIDE the property's domain (texts the enum formatter cannot emit): where the two pipelines
    // are allowed to differ.  Recorded in the histogram (and compared with the model), never a failure.
    for (fi, s) in [(0usize, "(--, A, B)"), (0, "(-, A, B, C)"), (0, "(~, A)"), (0, "(--, A)"), (0, "(/, R, _, _)"), (0, "(/, _)"), (0, "{A, A}"), (0, "<A --> B>. %1.0;0.5;0.3%"), (0, "+00000000000000000000007"), (0, "+18446744073709551616"), (0, "A. :!+5:"), (0, "A. %1e0%"), (0, "A. %-0%"), (0, "$-0$ A.")] {
        let fm = &formats()[fi];
        let direct = real_parse(fm.e, s);
        let folded = match guard(|| fm.l.parse(s).ok()) {
            Some(Some(lv)) => cx.fold_case(fm, &lv, "off-domain", false),
            Some(None) => Ok(None),
            None => Err(()),
        };
        let same = canon_pr(&direct) == canon_pr(&folded);
        cx.rep.hist.add(format!("off-domain:{}:enum={},lex+fold={}{}", s, pr_tag(&direct), pr_tag(&folded), if same { "" } else { ":DIFFERENT" }));
    }
    let cases = std::mem::take(&mut cx.cases);
    finish(o, "C03", rep, cases)
}

// -------------------------------------------------------------------------------------------
// C05 (fold half), with C12 / C14 on the fold output
// -------------------------------------------------------------------------------------------
pub fn run_c05fold(o: &Opts) -> Report {
    let mut rep = Report::new(
        "C05F",
        "lexical values with garbage fields built directly (unknown prefixes / connecters / copulas / bracket pairs incl. keywords of the other formats, 0-4 components, none / one / several placeholders at any position, empty and numeric names, 0-5 truth / budget entries that are non-numeric, out of range, NaN, inf, signed, with exponents, malformed stamps and punctuations) \
         and lexical values obtained by really parsing formatted texts, x 3 formats: real fold outcome (Ok value | Err | panic) vs model outcome; str::parse::<f64>() vs the model's float reader on adversarial strings; lexical category / capacity vs model; \
         on the real code: fold never panics (C05), every Ok value is well-formed and printable (C12), lexical category = category of the folded term (C14); distinct = distinct (format, lexical value) or float string; non-trivial = all",
    );
    let mut rng = Rng::new(o.seed ^ 0xC05F);
    let mut cx = Ctx { rep: &mut rep, cases: vec![] };
    // corpus: the lexical atom `$` parses to (fixed finding F9) and friends
    {
        let fm = &formats()[0];
        for lv in [
            LNarsese::Term(LTerm::new_atom("$", "")),
            LNarsese::Term(LTerm::new_atom("_", "")),
            LNarsese::Term(LTerm::new_atom("_", "ignored")),
            LNarsese::Term(LTerm::new_compound("~", vec![LTerm::new_atom("", "A"), LTerm::new_atom("", "B")])),
            LNarsese::Term(LTerm::new_compound("/", vec![LTerm::new_atom("", "R"), LTerm::new_atom("_", "")])),
        ] {
            cx.fold_case(fm, &lv, "corpus", true);
        }
    }
    garbage_stream(&mut cx, &mut rng, o.n, "garbage");
    {
        // keywords in the wrong role (see `cross_vocabulary_stream`); its own generator state, so that the other streams are unchanged
        let mut xrng = Rng::new(o.seed ^ 0xC05F_C14);
        cross_vocabulary_stream(&mut cx, &mut xrng, "cross-vocabulary", o.thorough);
    }
    parsed_stream(&mut cx, &mut rng, o.n / 4, o.thorough, "parsed", false);
    float_stream(&mut cx, &mut rng, (o.n / 2).max(60));
    let cases = std::mem::take(&mut cx.cases);
    finish(o, "C05F", rep, cases)
}

// -------------------------------------------------------------------------------------------
// Cross-vocabulary stream: lexical compounds / statements / sets / atoms whose connecter / copula / brackets / prefix are
// built from OTHER vocabulary items of the folding format -- a prefix + name (`^go`, `操作go`), a copula used as
// connecter, a connecter used as copula or prefix, a punctuation, a bracket, two items glued, an item with a name in
// front or behind.  No lexical parser produces these (keywords are matched against the dictionaries): they are built
// through the public constructors / struct fields.  Fold must reject them or return a term of the same category (C14),
// well-formed (C12), without panicking (C05); the model is evaluated on every one of them.
// -------------------------------------------------------------------------------------------
fn cross_vocabulary_stream(cx: &mut Ctx, rng: &mut Rng, stream: &str, thorough: bool) {
    let fms = formats();
    for fm in &fms {
        let e = fm.e;
        let s = |x: &str| x.to_string();
        let c = &e.compound;
        let prefixes: Vec<String> = vec![
            s(e.atom.prefix_word), s(e.atom.prefix_placeholder), s(e.atom.prefix_variable_independent), s(e.atom.prefix_variable_dependent),
            s(e.atom.prefix_variable_query), s(e.atom.prefix_interval), s(e.atom.prefix_operator),
        ];
        let connecters: Vec<String> = vec![
            s(c.connecter_intersection_extension), s(c.connecter_intersection_intension), s(c.connecter_difference_extension), s(c.connecter_difference_intension),
            s(c.connecter_product), s(c.connecter_image_extension), s(c.connecter_image_intension), s(c.connecter_conjunction), s(c.connecter_disjunction),
            s(c.connecter_negation), s(c.connecter_conjunction_sequential), s(c.connecter_conjunction_parallel),
        ];
        let copulas: Vec<String> = e.copulas().iter().map(|x| s(x)).collect();
        let brackets: Vec<String> = vec![
            s(c.brackets_set_extension.0), s(c.brackets_set_extension.1), s(c.brackets_set_intension.0), s(c.brackets_set_intension.1), s(c.brackets.0), s(c.brackets.1),
            s(e.statement.brackets.0), s(e.statement.brackets.1),
        ];
        let puncts: Vec<String> = vec![s(e.sentence.punctuation_judgement), s(e.sentence.punctuation_goal), s(e.sentence.punctuation_question), s(e.sentence.punctuation_quest)];
        let names: Vec<String> = if fm.idx == 2 { vec![s("go"), s("甲"), s("1")] } else { vec![s("go"), s("a"), s("1")] };
        // the pool of keyword-like strings
        let mut pool: Vec<(String, &str)> = vec![];
        for p in prefixes.iter().filter(|p| !p.is_empty()) {
            pool.push((p.clone(), "a prefix"));
            for n in &names {
                pool.push((format!("{}{}", p, n), "prefix + name"));
            }
        }
        for (items, role) in [(&connecters, "connecter"), (&copulas, "copula"), (&brackets, "bracket"), (&puncts, "punctuation")] {
            for k in items.iter() {
                pool.push((k.clone(), match role { "connecter" => "a connecter", "copula" => "a copula", "bracket" => "a bracket", _ => "a punctuation" }));
                pool.push((format!("{}{}", k, names[0]), "keyword + name"));
                pool.push((format!("{}{}", names[1], k), "name + keyword"));
            }
        }
        for _ in 0..(if thorough { 120 } else { 30 }) {
            let a = rng.pick(&pool).0.clone();
            let b = rng.pick(&pool).0.clone();
            pool.push((format!("{}{}", a, b), "two items glued"));
        }
        pool.push((names[0].clone(), "a bare name"));
        pool.push((String::new(), "the empty string"));
        let w = |n: &str| LTerm::new_atom(e.atom.prefix_word, n);
        let ph = || LTerm::new_atom(e.atom.prefix_placeholder, "");
        let (a, b, r) = if fm.idx == 2 { ("甲", "乙", "丙") } else { ("a", "b", "r") };
        let known_conn: std::collections::HashSet<&String> = connecters.iter().collect();
        let known_cop: std::collections::HashSet<&String> = copulas.iter().collect();
        let known_pre: std::collections::HashSet<&String> = prefixes.iter().collect();
        let mut values: Vec<(LTerm, String)> = vec![];
        for (k, what) in &pool {
            // as connecter (arities 1-3, with and without a placeholder), unless it IS a connecter
            if !known_conn.contains(k) {
                for items in [vec![w(a)], vec![w(a), w(b)], vec![w(r), w(a), w(b)], vec![w(r), ph(), w(a)]] {
                    values.push((LTerm::new_compound(k, items), format!("{} as connecter", what)));
                }
            }
            // as copula, unless it IS a copula
            if !known_cop.contains(k) {
                values.push((LTerm::new_statement(k, w(a), w(b)), format!("{} as copula", what)));
                values.push((LTerm::new_statement(k, LTerm::new_compound(c.connecter_product, vec![w(a), w(b)]), LTerm::new_atom(e.atom.prefix_operator, "go")), format!("{} as copula of an operation", what)));
            }
            // as atom prefix, unless it IS a prefix
            if !known_pre.contains(k) {
                values.push((LTerm::new_atom(k, "n"), format!("{} as atom prefix", what)));
                values.push((LTerm::new_atom(k, ""), format!("{} as atom prefix, empty name", what)));
            }
            // as set brackets: on the left with each real closing bracket, on the right with each real opening bracket
            for (lb, rb) in [(c.brackets_set_extension.0, c.brackets_set_extension.1), (c.brackets_set_intension.0, c.brackets_set_intension.1)] {
                if k != lb {
                    values.push((LTerm::new_set(k, vec![w(a), w(b)], rb), format!("{} as left set bracket", what)));
                }
                if k != rb {
                    values.push((LTerm::new_set(lb, vec![w(a), w(b)], k), format!("{} as right set bracket", what)));
                }
            }
        }
        cx.rep.hist.0.insert(format!("{}:{}:values", stream, fm.name), values.len() as u64);
        for (i, (t, what)) in values.into_iter().enumerate() {
            // bare, and nested inside a real compound / as the subject of a real statement (the error must propagate)
            let lv = match i % 4 {
                0 | 1 => LNarsese::Term(t.clone()),
                2 => LNarsese::Term(LTerm::new_compound(c.connecter_product, vec![w(a), t.clone()])),
                _ => LNarsese::Sentence(LSentence::new(LTerm::new_statement(copulas[0].clone(), t.clone(), w(b)), e.sentence.punctuation_judgement, "", vec![])),
            };
            let res = cx.fold_case(fm, &lv, stream, true);
            cx.rep.hist.add(format!("{}:{}:{}:{}", stream, fm.name, what, pr_tag(&res)));
            if i % 8 == 0 {
                cx.lexcat_case(&t);
            }
        }
    }
}
