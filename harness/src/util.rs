//! shared helpers: panic capture, histograms, result JSON
use std::collections::BTreeMap;
use std::panic::{catch_unwind, AssertUnwindSafe};

pub fn silence_panics() {
    std::panic::set_hook(Box::new(|_| {}));
}

/// run `f`, mapping a panic to None
pub fn guard<T>(f: impl FnOnce() -> T) -> Option<T> {
    catch_unwind(AssertUnwindSafe(f)).ok()
}

#[derive(Default)]
pub struct Hist(pub BTreeMap<String, u64>);
impl Hist {
    pub fn add(&mut self, k: impl Into<String>) {
        *self.0.entry(k.into()).or_insert(0) += 1;
    }
    pub fn json(&self) -> String {
        let mut s = String::from("{");
        for (i, (k, v)) in self.0.iter().enumerate() {
            if i != 0 {
                s.push(',');
            }
            s.push_str(&format!("{}:{}", crate::coqw::jstr(k), v));
        }
        s.push('}');
        s
    }
}

/// A property failure observed on the real code (the search engine of the check).
pub struct Failure {
    pub stream: String,
    pub what: String,
    pub input: String,
    pub expected: String,
    pub got: String,
    /// name of the known-finding class this failure belongs to, if any
    pub known: Option<String>,
}
impl Failure {
    pub fn json(&self) -> String {
        use crate::coqw::jstr;
        format!(
            "{{\"stream\":{},\"what\":{},\"input\":{},\"expected\":{},\"got\":{},\"known\":{}}}",
            jstr(&self.stream),
            jstr(&self.what),
            jstr(&self.input),
            jstr(&self.expected),
            jstr(&self.got),
            match &self.known {
                Some(k) => jstr(k),
                None => "null".into(),
            }
        )
    }
}

pub struct Report {
    pub prop: String,
    pub evaluations: u64,
    pub distinct: std::collections::HashSet<u64>,
    pub rule: String,
    pub hist: Hist,
    pub samples: Vec<String>,
    pub failures: Vec<Failure>,
    pub shards: Vec<(String, usize, usize)>,
    /// printable description of every model case, indexed like the cases (for replay files)
    pub case_descr: Vec<String>,
    pub extra: Vec<(String, String)>,
}
impl Report {
    pub fn new(prop: &str, rule: &str) -> Self {
        Report {
            prop: prop.into(),
            evaluations: 0,
            distinct: Default::default(),
            rule: rule.into(),
            hist: Hist::default(),
            samples: vec![],
            failures: vec![],
            shards: vec![],
            case_descr: vec![],
            extra: vec![],
        }
    }
    pub fn note_distinct(&mut self, key: &str) {
        use std::hash::{Hash, Hasher};
        let mut h = std::collections::hash_map::DefaultHasher::new();
        key.hash(&mut h);
        self.distinct.insert(h.finish());
    }
    pub fn sample(&mut self, s: impl Into<String>) {
        if self.samples.len() < 12 {
            self.samples.push(s.into());
        }
    }
    /// known-class failures are capped separately so that they can never crowd out an unknown one
    pub fn fail(&mut self, f: Failure) {
        let known = f.known.is_some();
        let n = self.failures.iter().filter(|x| x.known.is_some() == known).count();
        if n < if known { 60 } else { 200 } {
            self.failures.push(f);
        }
    }
    pub fn write(&self, outdir: &str) -> std::io::Result<()> {
        use crate::coqw::jstr;
        let mut s = String::from("{");
        s.push_str(&format!("\"property\":{},", jstr(&self.prop)));
        s.push_str(&format!("\"evaluations\":{},", self.evaluations));
        s.push_str(&format!("\"distinct_nontrivial\":{},", self.distinct.len()));
        s.push_str(&format!("\"rule\":{},", jstr(&self.rule)));
        s.push_str(&format!("\"histogram\":{},", self.hist.json()));
        s.push_str("\"samples\":[");
        s.push_str(&self.samples.iter().map(|x| jstr(x)).collect::<Vec<_>>().join(","));
        s.push_str("],\"failures\":[");
        s.push_str(&self.failures.iter().map(|x| x.json()).collect::<Vec<_>>().join(","));
        s.push_str("],\"shards\":[");
        s.push_str(
            &self
                .shards
                .iter()
                .map(|(p, lo, hi)| format!("{{\"path\":{},\"lo\":{},\"hi\":{}}}", jstr(p), lo, hi))
                .collect::<Vec<_>>()
                .join(","),
        );
        s.push_str("],\"extra\":{");
        s.push_str(&self.extra.iter().map(|(k, v)| format!("{}:{}", jstr(k), v)).collect::<Vec<_>>().join(","));
        s.push_str("}}");
        std::fs::create_dir_all(outdir)?;
        std::fs::write(format!("{}/result_{}.json", outdir, self.prop), s)?;
        // case descriptions, one per line (index = line number)
        std::fs::write(
            format!("{}/cases_{}.txt", outdir, self.prop),
            self.case_descr.join("\n"),
        )
    }
}

pub struct Opts {
    pub seed: u64,
    pub n: usize,
    pub outdir: String,
    pub thorough: bool,
    pub shards: usize,
    pub replay: Option<String>,
}
