//! Writing Gallina literals and result files.
use std::fmt::Write;

/// a Rust string as a Coq `str` (= list N) literal, in scope N
pub fn cstr(s: &str) -> String {
    let mut out = String::from("[");
    for (i, c) in s.chars().enumerate() {
        if i != 0 {
            out.push(';');
        }
        write!(out, "{}", c as u32).unwrap();
    }
    out.push(']');
    out
}

pub fn cchars(s: &[char]) -> String {
    let mut out = String::from("[");
    for (i, c) in s.iter().enumerate() {
        if i != 0 {
            out.push(';');
        }
        write!(out, "{}", *c as u32).unwrap();
    }
    out.push(']');
    out
}

pub fn clist<T, F: Fn(&T) -> String>(xs: &[T], f: F) -> String {
    let mut out = String::from("[");
    for (i, x) in xs.iter().enumerate() {
        if i != 0 {
            out.push_str("; ");
        }
        out.push_str(&f(x));
    }
    out.push(']');
    out
}

pub fn cbool(b: bool) -> &'static str {
    if b {
        "true"
    } else {
        "false"
    }
}

pub fn copt<T, F: Fn(&T) -> String>(x: &Option<T>, f: F) -> String {
    match x {
        Some(v) => format!("(Some {})", f(v)),
        None => "None".to_string(),
    }
}

/// JSON string escaping (no serde in the offline registry for this crate: keep it tiny)
pub fn jstr(s: &str) -> String {
    let mut out = String::from("\"");
    for c in s.chars() {
        match c {
            '"' => out.push_str("\\\""),
            '\\' => out.push_str("\\\\"),
            '\n' => out.push_str("\\n"),
            '\r' => out.push_str("\\r"),
            '\t' => out.push_str("\\t"),
            c if (c as u32) < 0x20 => write!(out, "\\u{:04x}", c as u32).unwrap(),
            c => out.push(c),
        }
    }
    out.push('"');
    out
}

/// Shard a list of case literals into `n_shards` Coq files `Cases_<prop>_<k>.v` in `dir`.
/// Each file: Require the runner library, define `cases`, evaluate `mismatches cases`.
/// `runner` is the Coq module (e.g. "Nv.Run.C13Run"); `ty` the Coq type of one case.
pub fn write_shards(
    dir: &str,
    prop: &str,
    runner: &str,
    func: &str,
    ty: &str,
    scope: &str,
    cases: &[String],
    n_shards: usize,
    extra_defs: &str,
) -> std::io::Result<Vec<(String, usize, usize)>> {
    std::fs::create_dir_all(dir)?;
    let mut out = Vec::new();
    let n = cases.len();
    let n_shards = n_shards.max(1).min(n.max(1));
    let per = (n + n_shards - 1) / n_shards.max(1);
    for k in 0..n_shards {
        let lo = k * per;
        let hi = ((k + 1) * per).min(n);
        if lo >= hi {
            break;
        }
        let path = format!("{}/Cases_{}_{}.v", dir, prop, k);
        let mut s = String::new();
        writeln!(s, "(* written by the harness: cases {}..{} of {} *)", lo, hi, prop).unwrap();
        writeln!(s, "From Nv Require Import {}.", runner.trim_start_matches("Nv.")).unwrap();
        writeln!(s, "From Coq Require Import List ZArith NArith.\nImport ListNotations.").unwrap();
        writeln!(s, "Open Scope {}.", scope).unwrap();
        s.push_str(extra_defs);
        writeln!(s, "Definition cases : list ({}) := [", ty).unwrap();
        for (i, c) in cases[lo..hi].iter().enumerate() {
            if i != 0 {
                s.push_str(";\n");
            }
            s.push_str(c);
        }
        s.push_str("\n].\n");
        writeln!(s, "Definition result := Eval vm_compute in ({} cases).", func).unwrap();
        writeln!(s, "Print result.").unwrap();
        std::fs::write(&path, s)?;
        out.push((path, lo, hi));
    }
    Ok(out)
}
