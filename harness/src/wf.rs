//! Well-formedness of enum values as the properties state it (independent re-statement in Rust;
//! the Coq side has its own boolean `wf`).
use narsese::conversion::string::impl_enum::NarseseFormat;

pub fn is_name_char(c: char) -> bool {
    c.is_alphanumeric() || c == '_' || c == '-' || c > '\u{1f2ff}'
}

pub fn atom_prefixes<'a>(f: &NarseseFormat<&'a str>) -> Vec<&'a str> {
    vec![
        f.atom.prefix_placeholder,
        f.atom.prefix_variable_independent,
        f.atom.prefix_variable_dependent,
        f.atom.prefix_variable_query,
        f.atom.prefix_interval,
        f.atom.prefix_operator,
    ]
}

/// atom names: non-empty identifiers of the format that do not begin with one of its atom
/// prefixes, do not begin or end with '-', and contain none of its copulas
pub fn wf_name(f: &NarseseFormat<&str>, n: &str) -> bool {
    if n.is_empty() || !n.chars().all(is_name_char) {
        return false;
    }
    if n.starts_with('-') || n.ends_with('-') {
        return false;
    }
    for p in atom_prefixes(f) {
        if !p.is_empty() && n.starts_with(p) {
            return false;
        }
    }
    for c in f.copulas() {
        if n.contains(c) {
            return false;
        }
    }
    true
}
