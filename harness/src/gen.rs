//! Generators of enum terms (all 30 constructors), names and variations.
use crate::prng::Rng;
use narsese::enum_narsese::Term;

/// name alphabets: deliberately include '-', '_', digits-only names, CJK next to Han keywords,
/// first characters of two-character copulas, budget/truth bracket characters, emoji > U+1F2FF
pub const ASCII_POOL: &[&str] = &["a", "b", "A", "Z", "x1", "0", "7", "42", "_", "-", "a-b", "go-to", "a_b", "SELF", "ball", "e"];
pub const HAN_POOL: &[&str] = &["我", "你", "猫", "鸟", "曾", "将", "现", "具", "是", "得", "同", "预", "算", "真", "值", "某", "任", "一", "间", "隔", "操", "作", "外", "内", "积", "与", "或", "非", "有", "为", "似", "过", "去", "在", "来", "发", "生"];
pub const WIDE_POOL: &[&str] = &["é", "ß", "Ω", "ж", "١", "५", "🦀", "🧠", "𝒳", "ａ", "１"];

#[derive(Clone, Copy, PartialEq, Eq, Debug)]
pub enum NameStyle {
    Ascii,
    Mixed,
    Han,
}

pub fn gen_name(rng: &mut Rng, style: NameStyle) -> String {
    let k = match rng.below(10) {
        0..=4 => 1,
        5..=7 => 2,
        8 => 3,
        _ => rng.range(1, 6),
    };
    let mut s = String::new();
    for _ in 0..k {
        let pool: &[&str] = match style {
            NameStyle::Ascii => ASCII_POOL,
            NameStyle::Mixed => match rng.below(5) {
                0 => WIDE_POOL,
                1 => HAN_POOL,
                _ => ASCII_POOL,
            },
            NameStyle::Han => match rng.below(4) {
                0 => ASCII_POOL,
                _ => HAN_POOL,
            },
        };
        s.push_str(*rng.pick::<&str>(pool));
    }
    s
}

pub struct TermGen {
    pub max_depth: usize,
    pub max_width: usize,
    pub style: NameStyle,
    /// filter on generated names (e.g. well-formedness for a format); rejection sampling
    pub name_ok: Box<dyn Fn(&str) -> bool>,
    /// allow ill-formed shapes (empty compounds, image index beyond length)?
    pub wild: bool,
}

impl TermGen {
    pub fn name(&self, rng: &mut Rng) -> String {
        for _ in 0..200 {
            let n = gen_name(rng, self.style);
            if (self.name_ok)(&n) {
                return n;
            }
        }
        "n".to_string()
    }

    pub fn atom(&self, rng: &mut Rng) -> Term {
        match rng.below(12) {
            0 | 1 | 2 | 3 | 4 => Term::new_word(self.name(rng)),
            5 => Term::new_variable_independent(self.name(rng)),
            6 => Term::new_variable_dependent(self.name(rng)),
            7 => Term::new_variable_query(self.name(rng)),
            8 => Term::new_operator(self.name(rng)),
            9 | 10 => Term::new_interval(match rng.below(6) {
                0 => 0,
                1 => 1,
                2 => 7,
                3 => usize::MAX,
                4 => rng.next() as usize,
                _ => rng.below(1000),
            }),
            _ => Term::new_word(self.name(rng)),
        }
    }

    fn comps(&self, rng: &mut Rng, depth: usize, min: usize) -> Vec<Term> {
        let lo = if self.wild && rng.chance(1, 10) { 0 } else { min };
        let k = rng.range(lo, self.max_width.max(lo));
        (0..k).map(|_| self.term(rng, depth + 1)).collect()
    }

    /// a random term; `kind` 0..30 selects the top constructor when given
    pub fn term_of(&self, rng: &mut Rng, depth: usize, kind: usize) -> Term {
        let sub = |rng: &mut Rng| self.term(rng, depth + 1);
        match kind {
            0 => Term::new_word(self.name(rng)),
            1 => {
                if self.wild {
                    Term::new_placeholder()
                } else {
                    Term::new_word(self.name(rng))
                }
            }
            2 => Term::new_variable_independent(self.name(rng)),
            3 => Term::new_variable_dependent(self.name(rng)),
            4 => Term::new_variable_query(self.name(rng)),
            5 => self.atom(rng),
            6 => Term::new_operator(self.name(rng)),
            7 => Term::new_set_extension(self.comps(rng, depth, 1)),
            8 => Term::new_set_intension(self.comps(rng, depth, 1)),
            9 => Term::new_intersection_extension(self.comps(rng, depth, 1)),
            10 => Term::new_intersection_intension(self.comps(rng, depth, 1)),
            11 => Term::new_difference_extension(sub(rng), sub(rng)),
            12 => Term::new_difference_intension(sub(rng), sub(rng)),
            13 => Term::new_product(self.comps(rng, depth, 1)),
            14 | 15 => {
                let min = if rng.chance(1, 4) { 0 } else { 1 };
                let v = self.comps(rng, depth, min);
                let idx = if self.wild && rng.chance(1, 8) { v.len() + 1 + rng.below(3) } else { rng.range(0, v.len()) };
                // direct variant construction: the checked constructor panics for idx > len
                if kind == 14 {
                    Term::ImageExtension(idx, v)
                } else {
                    Term::ImageIntension(idx, v)
                }
            }
            16 => Term::new_conjunction(self.comps(rng, depth, 1)),
            17 => Term::new_disjunction(self.comps(rng, depth, 1)),
            18 => Term::new_negation(sub(rng)),
            19 => Term::new_conjunction_sequential(self.comps(rng, depth, 1)),
            20 => Term::new_conjunction_parallel(self.comps(rng, depth, 1)),
            21 => Term::new_inheritance(sub(rng), sub(rng)),
            22 => Term::new_similarity(sub(rng), sub(rng)),
            23 => Term::new_implication(sub(rng), sub(rng)),
            24 => Term::new_equivalence(sub(rng), sub(rng)),
            25 => Term::new_implication_predictive(sub(rng), sub(rng)),
            26 => Term::new_implication_concurrent(sub(rng), sub(rng)),
            27 => Term::new_implication_retrospective(sub(rng), sub(rng)),
            28 => Term::new_equivalence_predictive(sub(rng), sub(rng)),
            _ => Term::new_equivalence_concurrent(sub(rng), sub(rng)),
        }
    }

    pub fn term(&self, rng: &mut Rng, depth: usize) -> Term {
        if depth >= self.max_depth || rng.chance(2 + depth, 8 + depth) {
            return self.atom(rng);
        }
        let kind = 7 + rng.below(23);
        self.term_of(rng, depth, kind)
    }
}

/// Rebuild `t` along a different construction history: unordered components inserted in a
/// shuffled order, some of them twice, into fresh HashSets (fresh RandomState each);
/// symmetric statements possibly with swapped operands.  The result denotes the same term.
pub fn rebuild(t: &Term, rng: &mut Rng) -> Term {
    use Term::*;
    let rb_set = |s: &std::collections::HashSet<Term>, rng: &mut Rng| -> Vec<Term> {
        let mut v: Vec<Term> = s.iter().map(|x| rebuild(x, rng)).collect();
        let n = v.len();
        for i in 0..n {
            if rng.chance(1, 3) {
                let d = rebuild(&v[i].clone(), rng);
                v.push(d);
            }
        }
        rng.shuffle(&mut v);
        v
    };
    match t {
        Word(..) | Placeholder | VariableIndependent(..) | VariableDependent(..) | VariableQuery(..) | Interval(..) | Operator(..) => t.clone(),
        SetExtension(s) => Term::new_set_extension(rb_set(s, rng)),
        SetIntension(s) => Term::new_set_intension(rb_set(s, rng)),
        IntersectionExtension(s) => Term::new_intersection_extension(rb_set(s, rng)),
        IntersectionIntension(s) => Term::new_intersection_intension(rb_set(s, rng)),
        Conjunction(s) => Term::new_conjunction(rb_set(s, rng)),
        Disjunction(s) => Term::new_disjunction(rb_set(s, rng)),
        ConjunctionParallel(s) => Term::new_conjunction_parallel(rb_set(s, rng)),
        Product(v) => Term::new_product(v.iter().map(|x| rebuild(x, rng)).collect::<Vec<_>>()),
        ConjunctionSequential(v) => Term::new_conjunction_sequential(v.iter().map(|x| rebuild(x, rng)).collect::<Vec<_>>()),
        ImageExtension(i, v) => ImageExtension(*i, v.iter().map(|x| rebuild(x, rng)).collect()),
        ImageIntension(i, v) => ImageIntension(*i, v.iter().map(|x| rebuild(x, rng)).collect()),
        Negation(a) => Term::new_negation(rebuild(a, rng)),
        DifferenceExtension(a, b) => Term::new_difference_extension(rebuild(a, rng), rebuild(b, rng)),
        DifferenceIntension(a, b) => Term::new_difference_intension(rebuild(a, rng), rebuild(b, rng)),
        Inheritance(a, b) => Term::new_inheritance(rebuild(a, rng), rebuild(b, rng)),
        Implication(a, b) => Term::new_implication(rebuild(a, rng), rebuild(b, rng)),
        ImplicationPredictive(a, b) => Term::new_implication_predictive(rebuild(a, rng), rebuild(b, rng)),
        ImplicationConcurrent(a, b) => Term::new_implication_concurrent(rebuild(a, rng), rebuild(b, rng)),
        ImplicationRetrospective(a, b) => Term::new_implication_retrospective(rebuild(a, rng), rebuild(b, rng)),
        EquivalencePredictive(a, b) => Term::new_equivalence_predictive(rebuild(a, rng), rebuild(b, rng)),
        Similarity(a, b) | Equivalence(a, b) | EquivalenceConcurrent(a, b) => {
            let (x, y) = if rng.chance(1, 2) { (rebuild(b, rng), rebuild(a, rng)) } else { (rebuild(a, rng), rebuild(b, rng)) };
            match t {
                Similarity(..) => Term::new_similarity(x, y),
                Equivalence(..) => Term::new_equivalence(x, y),
                _ => Term::new_equivalence_concurrent(x, y),
            }
        }
    }
}

/// A small semantic change somewhere in `t` (usually yields an unequal term; the reference decides).
pub fn perturb(t: &Term, rng: &mut Rng, g: &TermGen) -> Term {
    use Term::*;
    let descend = rng.chance(2, 3);
    let map_vec = |v: &Vec<Term>, rng: &mut Rng| -> Vec<Term> {
        let mut v2 = v.clone();
        if v2.is_empty() {
            v2.push(g.atom(rng));
        } else {
            let i = rng.below(v2.len());
            match rng.below(4) {
                0 if v2.len() > 1 => { v2.remove(i); }
                1 => v2.push(g.atom(rng)),
                2 if v2.len() > 1 => { let j = rng.below(v2.len()); v2.swap(i, j); }
                _ => v2[i] = perturb(&v2[i], rng, g),
            }
        }
        v2
    };
    match t {
        Word(n) => match rng.below(3) { 0 => Term::new_operator(n.clone()), 1 => Term::new_word(format!("{}x", n)), _ => Term::new_variable_query(n.clone()) },
        Placeholder => Term::new_word("_"),
        VariableIndependent(n) => Term::new_variable_dependent(n.clone()),
        VariableDependent(n) => Term::new_variable_independent(n.clone()),
        VariableQuery(n) => Term::new_variable_query(format!("{}0", n)),
        Interval(i) => Term::new_interval(i.wrapping_add(1)),
        Operator(n) => Term::new_word(n.clone()),
        SetExtension(s) => { let v: Vec<Term> = s.iter().cloned().collect(); if descend { Term::new_set_extension(map_vec(&v, rng)) } else { Term::new_set_intension(v) } }
        SetIntension(s) => { let v: Vec<Term> = s.iter().cloned().collect(); if descend { Term::new_set_intension(map_vec(&v, rng)) } else { Term::new_set_extension(v) } }
        IntersectionExtension(s) => { let v: Vec<Term> = s.iter().cloned().collect(); if descend { Term::new_intersection_extension(map_vec(&v, rng)) } else { Term::new_intersection_intension(v) } }
        IntersectionIntension(s) => { let v: Vec<Term> = s.iter().cloned().collect(); if descend { Term::new_intersection_intension(map_vec(&v, rng)) } else { Term::new_conjunction(v) } }
        Conjunction(s) => { let v: Vec<Term> = s.iter().cloned().collect(); if descend { Term::new_conjunction(map_vec(&v, rng)) } else { Term::new_disjunction(v) } }
        Disjunction(s) => { let v: Vec<Term> = s.iter().cloned().collect(); if descend { Term::new_disjunction(map_vec(&v, rng)) } else { Term::new_conjunction_parallel(v) } }
        ConjunctionParallel(s) => { let v: Vec<Term> = s.iter().cloned().collect(); if descend { Term::new_conjunction_parallel(map_vec(&v, rng)) } else { Term::new_conjunction_sequential(v) } }
        Product(v) => if descend { Term::new_product(map_vec(v, rng)) } else { Term::new_conjunction_sequential(v.clone()) },
        ConjunctionSequential(v) => if descend { Term::new_conjunction_sequential(map_vec(v, rng)) } else { Term::new_product(v.clone()) },
        ImageExtension(i, v) => match rng.below(3) { 0 => ImageIntension(*i, v.clone()), 1 => ImageExtension(if *i == 0 { 1.min(v.len()) } else { i - 1 }, v.clone()), _ => ImageExtension(*i, map_vec(v, rng)) },
        ImageIntension(i, v) => match rng.below(3) { 0 => ImageExtension(*i, v.clone()), 1 => ImageIntension(if *i == 0 { 1.min(v.len()) } else { i - 1 }, v.clone()), _ => ImageIntension(*i, map_vec(v, rng)) },
        Negation(a) => Term::new_negation(perturb(a, rng, g)),
        DifferenceExtension(a, b) => match rng.below(3) { 0 => Term::new_difference_intension((**a).clone(), (**b).clone()), 1 => Term::new_difference_extension((**b).clone(), (**a).clone()), _ => Term::new_difference_extension(perturb(a, rng, g), (**b).clone()) },
        DifferenceIntension(a, b) => match rng.below(3) { 0 => Term::new_difference_extension((**a).clone(), (**b).clone()), 1 => Term::new_difference_intension((**b).clone(), (**a).clone()), _ => Term::new_difference_intension((**a).clone(), perturb(b, rng, g)) },
        Inheritance(a, b) => match rng.below(3) { 0 => Term::new_similarity((**a).clone(), (**b).clone()), 1 => Term::new_inheritance((**b).clone(), (**a).clone()), _ => Term::new_inheritance(perturb(a, rng, g), (**b).clone()) },
        Similarity(a, b) => match rng.below(3) { 0 => Term::new_inheritance((**a).clone(), (**b).clone()), 1 => Term::new_similarity((**b).clone(), (**a).clone()), _ => Term::new_similarity((**a).clone(), perturb(b, rng, g)) },
        Implication(a, b) => match rng.below(3) { 0 => Term::new_equivalence((**a).clone(), (**b).clone()), 1 => Term::new_implication((**b).clone(), (**a).clone()), _ => Term::new_implication(perturb(a, rng, g), (**b).clone()) },
        Equivalence(a, b) => match rng.below(3) { 0 => Term::new_implication((**a).clone(), (**b).clone()), 1 => Term::new_equivalence((**b).clone(), (**a).clone()), _ => Term::new_equivalence(perturb(a, rng, g), (**b).clone()) },
        ImplicationPredictive(a, b) => match rng.below(3) { 0 => Term::new_implication_concurrent((**a).clone(), (**b).clone()), 1 => Term::new_implication_predictive((**b).clone(), (**a).clone()), _ => Term::new_implication_retrospective((**a).clone(), (**b).clone()) },
        ImplicationConcurrent(a, b) => match rng.below(2) { 0 => Term::new_implication_predictive((**a).clone(), (**b).clone()), _ => Term::new_implication_concurrent((**b).clone(), (**a).clone()) },
        ImplicationRetrospective(a, b) => match rng.below(2) { 0 => Term::new_implication_predictive((**a).clone(), (**b).clone()), _ => Term::new_implication_retrospective((**b).clone(), (**a).clone()) },
        EquivalencePredictive(a, b) => match rng.below(2) { 0 => Term::new_equivalence_concurrent((**a).clone(), (**b).clone()), _ => Term::new_equivalence_predictive((**b).clone(), (**a).clone()) },
        EquivalenceConcurrent(a, b) => match rng.below(3) { 0 => Term::new_equivalence_predictive((**a).clone(), (**b).clone()), 1 => Term::new_equivalence_concurrent((**b).clone(), (**a).clone()), _ => Term::new_equivalence_concurrent(perturb(a, rng, g), (**b).clone()) },
    }
}

pub fn depth(t: &Term) -> usize {
    let cs = t.get_components();
    if t.get_atom_name().is_some() {
        return 0;
    }
    1 + cs.iter().map(|c| depth(c)).max().unwrap_or(0)
}

// ------------------------------------------------------------------------------------------
// Values that only the public enum variants / constructors can build (no parser output, no formatter round trip):
// the placeholder as an ORDINARY component, images whose own component list holds a placeholder or whose index lies
// beyond the list, and equal terms spelled differently.

/// the same structure with every atom leaf replaced by `f(leaf)` (image indices kept; built through the variants /
/// set constructors, so set payloads are fresh HashSets)
pub fn map_atoms(t: &Term, f: &mut dyn FnMut(&Term) -> Term) -> Term {
    use Term::*;
    fn vecm(v: &[Term], f: &mut dyn FnMut(&Term) -> Term) -> Vec<Term> {
        v.iter().map(|x| map_atoms(x, f)).collect()
    }
    fn setm(s: &std::collections::HashSet<Term>, f: &mut dyn FnMut(&Term) -> Term) -> Vec<Term> {
        s.iter().map(|x| map_atoms(x, f)).collect()
    }
    fn bx(x: &Term, f: &mut dyn FnMut(&Term) -> Term) -> Box<Term> {
        Box::new(map_atoms(x, f))
    }
    match t {
        Word(..) | Placeholder | VariableIndependent(..) | VariableDependent(..) | VariableQuery(..) | Interval(..) | Operator(..) => f(t),
        SetExtension(s) => Term::new_set_extension(setm(s, f)),
        SetIntension(s) => Term::new_set_intension(setm(s, f)),
        IntersectionExtension(s) => Term::new_intersection_extension(setm(s, f)),
        IntersectionIntension(s) => Term::new_intersection_intension(setm(s, f)),
        Conjunction(s) => Term::new_conjunction(setm(s, f)),
        Disjunction(s) => Term::new_disjunction(setm(s, f)),
        ConjunctionParallel(s) => Term::new_conjunction_parallel(setm(s, f)),
        Product(v) => Product(vecm(v, f)),
        ConjunctionSequential(v) => ConjunctionSequential(vecm(v, f)),
        ImageExtension(i, v) => ImageExtension(*i, vecm(v, f)),
        ImageIntension(i, v) => ImageIntension(*i, vecm(v, f)),
        Negation(a) => Negation(bx(a, f)),
        DifferenceExtension(a, b) => DifferenceExtension(bx(a, f), bx(b, f)),
        DifferenceIntension(a, b) => DifferenceIntension(bx(a, f), bx(b, f)),
        Inheritance(a, b) => Inheritance(bx(a, f), bx(b, f)),
        Similarity(a, b) => Similarity(bx(a, f), bx(b, f)),
        Implication(a, b) => Implication(bx(a, f), bx(b, f)),
        Equivalence(a, b) => Equivalence(bx(a, f), bx(b, f)),
        ImplicationPredictive(a, b) => ImplicationPredictive(bx(a, f), bx(b, f)),
        ImplicationConcurrent(a, b) => ImplicationConcurrent(bx(a, f), bx(b, f)),
        ImplicationRetrospective(a, b) => ImplicationRetrospective(bx(a, f), bx(b, f)),
        EquivalencePredictive(a, b) => EquivalencePredictive(bx(a, f), bx(b, f)),
        EquivalenceConcurrent(a, b) => EquivalenceConcurrent(bx(a, f), bx(b, f)),
    }
}

/// `t` with each atom leaf turned into the placeholder with probability num/den: the placeholder is an atom like any
/// other and may be a component of every compound and statement (the parsers accept `(*, _, A)`, `<_ --> A>`)
pub fn sprinkle_placeholders(t: &Term, rng: &mut Rng, num: usize, den: usize) -> Term {
    map_atoms(t, &mut |a| if rng.chance(num, den) { Term::Placeholder } else { a.clone() })
}

/// The same term spelled differently wherever equality allows it: the operands of every symmetric statement swapped,
/// set payloads inserted in reverse iteration order into fresh HashSets (one element inserted twice), at every
/// depth.  Unlike `rebuild` this is deterministic: EVERY symmetric node is swapped.
pub fn respell(t: &Term) -> Term {
    use Term::*;
    let set = |s: &std::collections::HashSet<Term>| -> Vec<Term> {
        let mut v: Vec<Term> = s.iter().map(respell).collect();
        v.reverse();
        if let Some(x) = s.iter().next() {
            v.push(respell(x));
        }
        v
    };
    let bx = |x: &Term| Box::new(respell(x));
    match t {
        Word(..) | Placeholder | VariableIndependent(..) | VariableDependent(..) | VariableQuery(..) | Interval(..) | Operator(..) => t.clone(),
        SetExtension(s) => Term::new_set_extension(set(s)),
        SetIntension(s) => Term::new_set_intension(set(s)),
        IntersectionExtension(s) => Term::new_intersection_extension(set(s)),
        IntersectionIntension(s) => Term::new_intersection_intension(set(s)),
        Conjunction(s) => Term::new_conjunction(set(s)),
        Disjunction(s) => Term::new_disjunction(set(s)),
        ConjunctionParallel(s) => Term::new_conjunction_parallel(set(s)),
        Product(v) => Product(v.iter().map(respell).collect()),
        ConjunctionSequential(v) => ConjunctionSequential(v.iter().map(respell).collect()),
        ImageExtension(i, v) => ImageExtension(*i, v.iter().map(respell).collect()),
        ImageIntension(i, v) => ImageIntension(*i, v.iter().map(respell).collect()),
        Negation(a) => Negation(bx(a)),
        DifferenceExtension(a, b) => DifferenceExtension(bx(a), bx(b)),
        DifferenceIntension(a, b) => DifferenceIntension(bx(a), bx(b)),
        Inheritance(a, b) => Inheritance(bx(a), bx(b)),
        Implication(a, b) => Implication(bx(a), bx(b)),
        ImplicationPredictive(a, b) => ImplicationPredictive(bx(a), bx(b)),
        ImplicationConcurrent(a, b) => ImplicationConcurrent(bx(a), bx(b)),
        ImplicationRetrospective(a, b) => ImplicationRetrospective(bx(a), bx(b)),
        EquivalencePredictive(a, b) => EquivalencePredictive(bx(a), bx(b)),
        // swapped
        Similarity(a, b) => Similarity(bx(b), bx(a)),
        Equivalence(a, b) => Equivalence(bx(b), bx(a)),
        EquivalenceConcurrent(a, b) => EquivalenceConcurrent(bx(b), bx(a)),
    }
}

/// a term of constructor `kind` (7..30, numbering of `TermGen::term_of`) over the given components; fixed-arity
/// constructors take the first one / two (None when there are too few); images take `idx`
pub fn compound_of(kind: usize, idx: usize, v: &[Term]) -> Option<Term> {
    use Term::*;
    let b = |i: usize| v.get(i).cloned().map(Box::new);
    Some(match kind {
        7 => Term::new_set_extension(v.to_vec()),
        8 => Term::new_set_intension(v.to_vec()),
        9 => Term::new_intersection_extension(v.to_vec()),
        10 => Term::new_intersection_intension(v.to_vec()),
        11 => DifferenceExtension(b(0)?, b(1)?),
        12 => DifferenceIntension(b(0)?, b(1)?),
        13 => Product(v.to_vec()),
        14 => ImageExtension(idx, v.to_vec()),
        15 => ImageIntension(idx, v.to_vec()),
        16 => Term::new_conjunction(v.to_vec()),
        17 => Term::new_disjunction(v.to_vec()),
        18 => Negation(b(0)?),
        19 => ConjunctionSequential(v.to_vec()),
        20 => Term::new_conjunction_parallel(v.to_vec()),
        21 => Inheritance(b(0)?, b(1)?),
        22 => Similarity(b(0)?, b(1)?),
        23 => Implication(b(0)?, b(1)?),
        24 => Equivalence(b(0)?, b(1)?),
        25 => ImplicationPredictive(b(0)?, b(1)?),
        26 => ImplicationConcurrent(b(0)?, b(1)?),
        27 => ImplicationRetrospective(b(0)?, b(1)?),
        28 => EquivalencePredictive(b(0)?, b(1)?),
        29 => EquivalenceConcurrent(b(0)?, b(1)?),
        _ => return None,
    })
}

/// Every compound / statement constructor over component lists that hold the placeholder as an ordinary component
/// (only, first, middle, last, twice, all), for images with every index 0..=len; each paired with a near miss: the same
/// constructor WITHOUT those placeholders (variable arity: an accessor / comparison / hash that filters placeholders
/// conflates the two), or with the operands in the other order (fixed arity).
pub fn placeholder_compounds(rng: &mut Rng, g: &TermGen) -> Vec<(Term, Term)> {
    let ph = Term::Placeholder;
    let (a, b) = (g.term(rng, 3), g.term(rng, 3));
    let lists: Vec<Vec<Term>> = vec![
        vec![ph.clone()],
        vec![ph.clone(), a.clone()],
        vec![a.clone(), ph.clone()],
        vec![a.clone(), ph.clone(), b.clone()],
        vec![ph.clone(), ph.clone()],
        vec![ph.clone(), a.clone(), ph.clone()],
        vec![a.clone(), ph.clone(), b.clone(), ph.clone()],
        vec![ph.clone(), a.clone(), b.clone()],
    ];
    let mut out = vec![];
    for kind in 7..30usize {
        for l in &lists {
            let stripped: Vec<Term> = l.iter().filter(|x| !matches!(x, Term::Placeholder)).cloned().collect();
            let fixed = matches!(kind, 11 | 12 | 18 | 21..=29);
            if fixed && l.len() != (if kind == 18 { 1 } else { 2 }) {
                continue;
            }
            let idxs: Vec<usize> = if kind == 14 || kind == 15 { (0..=l.len()).collect() } else { vec![0] };
            for idx in idxs {
                let t = match compound_of(kind, idx, l) {
                    Some(t) => t,
                    None => continue,
                };
                let near = if fixed {
                    let mut r = l.clone();
                    r.reverse();
                    compound_of(kind, idx, &r).unwrap_or_else(|| t.clone())
                } else {
                    compound_of(kind, idx.min(stripped.len()), &stripped).unwrap_or_else(|| t.clone())
                };
                out.push((t, near));
            }
        }
    }
    out
}

/// Near-miss pairs of images (different by the reference): the index is part of the value even when the
/// placeholder-expanded sequence `(/, a, _, b)` is the same.
///  (a) the same component list, which itself contains a placeholder, under two indices (in range and beyond);
///  (b) different (index, list) with the SAME expanded sequence: a sequence with two or more placeholders, each of them
///      taken as "the" index in turn;
///  (c) placeholder-free lists with indices beyond the list (nothing is expanded), against each other and against index = len;
///  (d) an image against the product of its expanded sequence / the other image kind with the same index and list.
pub fn image_near_misses(rng: &mut Rng, g: &TermGen) -> Vec<(Term, Term)> {
    let ph = Term::Placeholder;
    let mut out: Vec<(Term, Term)> = vec![];
    let mk = |ext: bool, i: usize, v: &[Term]| if ext { Term::ImageExtension(i, v.to_vec()) } else { Term::ImageIntension(i, v.to_vec()) };
    let expand = |i: usize, v: &[Term]| -> Vec<Term> {
        let mut w = v.to_vec();
        if i <= w.len() {
            w.insert(i, Term::Placeholder);
        }
        w
    };
    for round in 0..4 {
        let ext = round % 2 == 0;
        let (a, b) = (g.term(rng, 3), g.term(rng, 3));
        // (a)
        let lists: Vec<Vec<Term>> = vec![
            vec![ph.clone()],
            vec![ph.clone(), a.clone()],
            vec![a.clone(), ph.clone()],
            vec![a.clone(), ph.clone(), b.clone()],
            vec![ph.clone(), ph.clone(), a.clone()],
        ];
        for v in &lists {
            for i in 0..=v.len() + 2 {
                for j in 0..=v.len() + 2 {
                    if i < j {
                        out.push((mk(ext, i, v), mk(ext, j, v)));
                    }
                }
            }
            // (d)
            for i in 0..=v.len() {
                out.push((mk(ext, i, v), Term::Product(expand(i, v))));
                out.push((mk(ext, i, v), mk(!ext, i, v)));
            }
        }
        // (b)
        let seqs: Vec<Vec<Term>> = vec![
            vec![ph.clone(), ph.clone()],
            vec![ph.clone(), a.clone(), ph.clone()],
            vec![a.clone(), ph.clone(), ph.clone(), b.clone()],
            vec![ph.clone(), a.clone(), ph.clone(), b.clone(), ph.clone()],
        ];
        for s in &seqs {
            let pos: Vec<usize> = (0..s.len()).filter(|k| matches!(s[*k], Term::Placeholder)).collect();
            let imgs: Vec<Term> = pos
                .iter()
                .map(|p| {
                    let mut v = s.clone();
                    v.remove(*p);
                    mk(ext, *p, &v)
                })
                .collect();
            for x in 0..imgs.len() {
                for y in x + 1..imgs.len() {
                    out.push((imgs[x].clone(), imgs[y].clone()));
                }
            }
        }
        // (c)
        let v: Vec<Term> = (0..rng.range(0, 3)).map(|_| g.term(rng, 3)).collect();
        let n = v.len();
        for (i, j) in [(n, n + 1), (n + 1, n + 2), (n + 1, n + 5), (n + 2, usize::MAX), (0, n + 1)] {
            if i != j {
                out.push((mk(ext, i, &v), mk(ext, j, &v)));
            }
        }
    }
    out
}

/// Pairs of atoms that differ in the constructor only and report the same name (`A` / `$A` / `#A` / `?A` / `^A`, the
/// interval `+7` / the word `7`, the placeholder / a word named "" or "_"): "same constructor" is part of equality
/// wherever the atom stands -- a comparison that goes through the names conflates them.
pub fn atom_kind_near_misses(rng: &mut Rng, g: &TermGen) -> Vec<(Term, Term)> {
    let n = g.name(rng);
    let k = rng.below(1000);
    let named: Vec<Term> = vec![
        Term::new_word(n.clone()),
        Term::new_variable_independent(n.clone()),
        Term::new_variable_dependent(n.clone()),
        Term::new_variable_query(n.clone()),
        Term::new_operator(n.clone()),
    ];
    let mut out = vec![];
    for i in 0..named.len() {
        for j in i + 1..named.len() {
            out.push((named[i].clone(), named[j].clone()));
        }
    }
    out.push((Term::new_interval(k), Term::new_word(k.to_string())));
    out.push((Term::new_interval(k), Term::new_operator(k.to_string())));
    out.push((Term::new_interval(k), Term::new_variable_query(format!("+{}", k))));
    out.push((Term::Placeholder, Term::new_word("")));
    out.push((Term::Placeholder, Term::new_word("_")));
    out.push((Term::Placeholder, Term::new_variable_dependent("")));
    out
}

/// `x` and `y` placed at the same position of otherwise identical component lists of constructor `kind`
/// (None when the constructor cannot be built over three components / two operands)
pub fn same_context(kind: usize, rng: &mut Rng, g: &TermGen, x: &Term, y: &Term) -> Option<(Term, Term)> {
    let fixed1 = kind == 18;
    let fixed2 = matches!(kind, 11 | 12 | 21..=29);
    let len = if fixed1 { 1 } else if fixed2 { 2 } else { rng.range(1, 3) };
    let pos = rng.below(len);
    let mut v: Vec<Term> = (0..len).map(|_| g.term(rng, 3)).collect();
    let idx = rng.range(0, len);
    v[pos] = x.clone();
    let a = compound_of(kind, idx, &v)?;
    v[pos] = y.clone();
    let b = compound_of(kind, idx, &v)?;
    Some((a, b))
}

// ------------------------------------------------------------------------------------------
// Deeply nested terms (C07 over histories): built ITERATIVELY, from the leaf outwards, so that building them needs no
// deep recursion; `shape` selects which constructors form the spine (a single one, or a rotation of all spine-capable ones)

/// number of spine shapes of `deep_term`
pub const DEEP_SHAPES: usize = 10;

/// a term nested `levels` deep around one word leaf: shape 0 negations, 1 products `(*, Li, inner)`, 2 extension sets
/// `{inner, Li}`, 3 inheritances `<Li --> inner>`, 4 similarities (symmetric), 5 sequential conjunctions, 6 images,
/// 7 conjunctions (unordered) with the inner term alone, 8 equivalences / predictive implications alternately,
/// 9 a rotation of all of these.  Equal arguments give equal terms.
pub fn deep_term(shape: usize, levels: usize, salt: &str) -> Term {
    deep_term_spelled(shape, levels, salt, false)
}

/// `deep_term`, with `flip`: an EQUAL term spelled differently (operands of the symmetric statements exchanged, set elements
/// given in the other order, the side element of a set given twice).  (`rebuild` is not usable on deep set spines: it
/// re-inserts a rebuilt copy of a set element with probability 1/3 per level.)
pub fn deep_term_spelled(shape: usize, levels: usize, salt: &str, flip: bool) -> Term {
    let mut term = Term::new_word(format!("leaf{}", salt));
    for i in (0..levels).rev() {
        let side = || Term::new_word(format!("L{}{}", salt, i % 5));
        let bx = Box::new;
        let s = if shape % DEEP_SHAPES == 9 { i % 9 } else { shape % DEEP_SHAPES };
        term = match s {
            0 => Term::Negation(bx(term)),
            1 => Term::Product(vec![side(), term]),
            2 if flip => Term::new_set_extension(vec![side(), term, side()]),
            2 => Term::new_set_extension(vec![term, side()]),
            3 => Term::Inheritance(bx(side()), bx(term)),
            4 if flip => Term::Similarity(bx(side()), bx(term)),
            4 => Term::Similarity(bx(term), bx(side())),
            5 => Term::ConjunctionSequential(vec![term, side(), Term::new_interval(i)]),
            6 => Term::ImageExtension(i % 3, vec![side(), term, side()]),
            7 => Term::new_conjunction(vec![term]),
            _ => {
                if i % 2 == 0 && flip {
                    Term::Equivalence(bx(side()), bx(term))
                } else if i % 2 == 0 {
                    Term::Equivalence(bx(term), bx(side()))
                } else {
                    Term::ImplicationPredictive(bx(side()), bx(term))
                }
            }
        };
    }
    term
}
