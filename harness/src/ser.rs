//! Serialisation of library values into Gallina literals of the model types, and an
//! independent canonical form of enum terms (the reference for semantic equality).
use crate::coqw::*;
use narsese::enum_narsese::Term;
use narsese::enum_narsese::Term::*;

/// (shape, constructor) of a term node -- must match Gen/TermGen.v (the translator checks payload shapes)
pub fn ctor_name(t: &Term) -> &'static str {
    match t {
        Word(..) => "Word",
        Placeholder => "Placeholder",
        VariableIndependent(..) => "VariableIndependent",
        VariableDependent(..) => "VariableDependent",
        VariableQuery(..) => "VariableQuery",
        Interval(..) => "Interval",
        Operator(..) => "Operator",
        SetExtension(..) => "SetExtension",
        SetIntension(..) => "SetIntension",
        IntersectionExtension(..) => "IntersectionExtension",
        IntersectionIntension(..) => "IntersectionIntension",
        DifferenceExtension(..) => "DifferenceExtension",
        DifferenceIntension(..) => "DifferenceIntension",
        Product(..) => "Product",
        ImageExtension(..) => "ImageExtension",
        ImageIntension(..) => "ImageIntension",
        Conjunction(..) => "Conjunction",
        Disjunction(..) => "Disjunction",
        Negation(..) => "Negation",
        ConjunctionSequential(..) => "ConjunctionSequential",
        ConjunctionParallel(..) => "ConjunctionParallel",
        Inheritance(..) => "Inheritance",
        Similarity(..) => "Similarity",
        Implication(..) => "Implication",
        Equivalence(..) => "Equivalence",
        ImplicationPredictive(..) => "ImplicationPredictive",
        ImplicationConcurrent(..) => "ImplicationConcurrent",
        ImplicationRetrospective(..) => "ImplicationRetrospective",
        EquivalencePredictive(..) => "EquivalencePredictive",
        EquivalenceConcurrent(..) => "EquivalenceConcurrent",
    }
}

/// Gallina literal of a term; set payloads in their actual iteration order
pub fn cterm(t: &Term) -> String {
    let c = ctor_name(t);
    match t {
        Word(n) | VariableIndependent(n) | VariableDependent(n) | VariableQuery(n) | Operator(n) => {
            format!("(TName {} {})", c, cstr(n))
        }
        Placeholder => format!("(TUnit {})", c),
        Interval(i) => format!("(TNum {} {})", c, i),
        SetExtension(s) | SetIntension(s) | IntersectionExtension(s) | IntersectionIntension(s)
        | Conjunction(s) | Disjunction(s) | ConjunctionParallel(s) => {
            let v: Vec<&Term> = s.iter().collect();
            format!("(TSet {} {})", c, clist(&v, |x| cterm(x)))
        }
        Product(v) | ConjunctionSequential(v) => format!("(TVec {} {})", c, clist(v, cterm)),
        ImageExtension(i, v) | ImageIntension(i, v) => format!("(TImg {} {} {})", c, i, clist(v, cterm)),
        Negation(a) => format!("(TBox1 {} {})", c, cterm(a)),
        DifferenceExtension(a, b) | DifferenceIntension(a, b) | Inheritance(a, b) | Similarity(a, b)
        | Implication(a, b) | Equivalence(a, b) | ImplicationPredictive(a, b)
        | ImplicationConcurrent(a, b) | ImplicationRetrospective(a, b) | EquivalencePredictive(a, b)
        | EquivalenceConcurrent(a, b) => format!("(TBox2 {} {} {})", c, cterm(a), cterm(b)),
    }
}

pub fn cterms<'a>(ts: impl IntoIterator<Item = &'a Term>) -> String {
    let v: Vec<&Term> = ts.into_iter().collect();
    clist(&v, |x| cterm(x))
}

/// Independent canonical form: the reference meaning of "denote the same Narsese term".
/// Sets: sorted, de-duplicated canonical forms of the elements; symmetric statements: sorted operands.
pub fn canon(t: &Term) -> String {
    let c = ctor_name(t);
    match t {
        Word(n) | VariableIndependent(n) | VariableDependent(n) | VariableQuery(n) | Operator(n) => {
            format!("{}:{:?}", c, n)
        }
        Placeholder => c.to_string(),
        Interval(i) => format!("{}:{}", c, i),
        SetExtension(s) | SetIntension(s) | IntersectionExtension(s) | IntersectionIntension(s)
        | Conjunction(s) | Disjunction(s) | ConjunctionParallel(s) => {
            let mut v: Vec<String> = s.iter().map(canon).collect();
            v.sort();
            v.dedup();
            format!("{}{{{}}}", c, v.join(","))
        }
        Product(v) | ConjunctionSequential(v) => {
            format!("{}[{}]", c, v.iter().map(canon).collect::<Vec<_>>().join(","))
        }
        ImageExtension(i, v) | ImageIntension(i, v) => {
            format!("{}@{}[{}]", c, i, v.iter().map(canon).collect::<Vec<_>>().join(","))
        }
        Negation(a) => format!("{}({})", c, canon(a)),
        Similarity(a, b) | Equivalence(a, b) | EquivalenceConcurrent(a, b) => {
            let (mut x, mut y) = (canon(a), canon(b));
            if y < x {
                std::mem::swap(&mut x, &mut y);
            }
            format!("{}<{}|{}>", c, x, y)
        }
        DifferenceExtension(a, b) | DifferenceIntension(a, b) | Inheritance(a, b) | Implication(a, b)
        | ImplicationPredictive(a, b) | ImplicationConcurrent(a, b) | ImplicationRetrospective(a, b)
        | EquivalencePredictive(a, b) => format!("{}({};{})", c, canon(a), canon(b)),
    }
}

/// short human-readable rendering for replays / samples
pub fn show(t: &Term) -> String {
    format!("{:?}", t)
}
