//! C11: conformance of ASCII output to the PEG grammar published in the README.
//!
//! The oracle that decides "is a sentence of the grammar, with this kind and tree" is the Coq PEG
//! interpreter (Model/Readme.v) running the grammar regenerated from README.md; this file produces the
//! cases: real ASCII `format_narsese` output (enum and lexical formatter) together with what the REAL
//! ASCII lexical parser returns for it, serialised as values of the lexical model types.
use crate::coqw::*;
use crate::enumgen::*;
use crate::gen::*;
use crate::prng::Rng;
use crate::ser::*;
use crate::util::*;
use nar_dev_utils::{PrefixMatch, SuffixMatch};
use narsese::api::GetTerm;
use narsese::conversion::string::impl_lexical::format_instances::FORMAT_ASCII as LEX_ASCII;
use narsese::enum_narsese::{Narsese, Term};
use narsese::lexical::{Narsese as LNarsese, Sentence as LSentence, Task as LTask, Term as LTerm};
use std::collections::BTreeSet;

// -------------------------------------------------------------------------------------------
// serialisation of lexical values (Model/Access.v lterm, Model/Sentence.v lsentence / ltask / lnarsese)
// -------------------------------------------------------------------------------------------
pub fn clterm(t: &LTerm) -> String {
    match t {
        LTerm::Atom { prefix, name } => format!("(LAtom {} {})", cstr(prefix), cstr(name)),
        LTerm::Compound { connecter, terms } => format!("(LCompound {} {})", cstr(connecter), clist(terms, clterm)),
        LTerm::Set { left_bracket, terms, right_bracket } => {
            format!("(LSet {} {} {})", cstr(left_bracket), clist(terms, clterm), cstr(right_bracket))
        }
        LTerm::Statement { copula, subject, predicate } => {
            format!("(LStatement {} {} {})", cstr(copula), clterm(subject), clterm(predicate))
        }
    }
}
pub fn clsentence(s: &LSentence) -> String {
    format!(
        "{{| ls_term := {}; ls_punct := {}; ls_stamp := {}; ls_truth := {} |}}",
        clterm(&s.term),
        cstr(&s.punctuation),
        cstr(&s.stamp),
        clist(&s.truth, |x| cstr(x))
    )
}
pub fn cltask(k: &LTask) -> String {
    format!("{{| lt_budget := {}; lt_sentence := {} |}}", clist(&k.budget, |x| cstr(x)), clsentence(&k.sentence))
}
pub fn clnarsese(v: &LNarsese) -> String {
    match v {
        LNarsese::Term(t) => format!("(NTerm {})", clterm(t)),
        LNarsese::Sentence(s) => format!("(NSentence {})", clsentence(s)),
        LNarsese::Task(k) => format!("(NTask {})", cltask(k)),
    }
}
fn lkind(v: &LNarsese) -> usize {
    match v {
        LNarsese::Term(_) => 0,
        LNarsese::Sentence(_) => 1,
        LNarsese::Task(_) => 2,
    }
}
fn lterm_of(v: &LNarsese) -> &LTerm {
    match v {
        LNarsese::Term(t) => t,
        LNarsese::Sentence(s) => &s.term,
        LNarsese::Task(k) => &k.sentence.term,
    }
}
fn lnames<'a>(t: &'a LTerm, out: &mut Vec<&'a str>) {
    match t {
        LTerm::Atom { name, .. } => out.push(name),
        LTerm::Compound { terms, .. } | LTerm::Set { terms, .. } => terms.iter().for_each(|x| lnames(x, out)),
        LTerm::Statement { subject, predicate, .. } => {
            lnames(subject, out);
            lnames(predicate, out)
        }
    }
}
fn ltop(t: &LTerm) -> &'static str {
    match t {
        LTerm::Atom { .. } => "atom",
        LTerm::Compound { .. } => "compound",
        LTerm::Set { .. } => "set",
        LTerm::Statement { .. } => "statement",
    }
}

// -------------------------------------------------------------------------------------------
// the classes (independent restatement of Run/ReadmeRun.v `class_of`; the Coq side recomputes it with the
// category tables and any disagreement is a mismatch)
// -------------------------------------------------------------------------------------------
/// characters the library accepts in identifiers that are no `atom_char` (LETTER | NUMBER | "_" | "-") of the
/// grammar: its emoji extension `c > U+1F2FF`, and alphanumerics outside the general categories L and N
/// (Other_Alphabetic symbols and marks); Rust's std has no general-category API, so the second group is a list
const NON_ATOM_ALNUM: &[char] = &['Ⓐ', '\u{0345}'];
fn non_atom_char(c: char) -> bool {
    c > '\u{1f2ff}' || NON_ATOM_ALNUM.contains(&c)
}
/// K4: a `-` whose two neighbours are `-` or `_`
pub fn k4_name(n: &str) -> bool {
    let c: Vec<char> = n.chars().collect();
    let ud = |x: char| x == '_' || x == '-';
    (0..c.len().saturating_sub(2)).any(|i| ud(c[i]) && c[i + 1] == '-' && ud(c[i + 2]))
}
fn placeholder_with_name(t: &LTerm) -> bool {
    match t {
        LTerm::Atom { prefix, name } => prefix == "_" && !name.is_empty(),
        LTerm::Compound { terms, .. } | LTerm::Set { terms, .. } => terms.iter().any(placeholder_with_name),
        LTerm::Statement { subject, predicate, .. } => placeholder_with_name(subject) || placeholder_with_name(predicate),
    }
}
/// 0 inside the domain, 1 known class K4, 2 outside the domain (non-atom_char identifier characters),
/// 3 outside the domain (lexical values only): the placeholder prefix `_` carrying a name
fn class_of(v: &LNarsese) -> u8 {
    let mut names = vec![];
    lnames(lterm_of(v), &mut names);
    if names.iter().any(|n| n.chars().any(non_atom_char)) {
        2
    } else if names.iter().any(|n| k4_name(n)) {
        1
    } else if placeholder_with_name(lterm_of(v)) {
        3
    } else {
        0
    }
}

// -------------------------------------------------------------------------------------------
// generators
// -------------------------------------------------------------------------------------------
const K4_NAMES: &[&str] = &["a---b", "a_-_b", "x--_y", "go_--to", "a----b", "n1_-_2", "a---b---c", "é_--ж"];
const LETTER_POOL: &[&str] = &["é", "ß", "Ω", "ж", "١", "५", "𝒳", "ａ", "１", "猫", "鸟", "是", "ⅷ", "²"];
const EMOJI_POOL: &[&str] = &["🦀", "🧠", "Ⓐ", "a\u{0345}"];

fn ascii_wf(n: &str) -> bool {
    crate::wf::wf_name(formats()[0].e, n)
}

/// names for the lexical stream: mostly the ASCII alphabet of the enum generators, some letters and digits of
/// other scripts, a few K4 names and a few names with non-atom_char identifier characters
fn readme_name(rng: &mut Rng) -> String {
    for _ in 0..200 {
        let n = match rng.below(80) {
            0 => rng.pick::<&str>(K4_NAMES).to_string(),
            1 => format!("{}{}", gen_name(rng, NameStyle::Ascii), rng.pick::<&str>(EMOJI_POOL)),
            2..=14 => {
                let mut s = String::new();
                for _ in 0..rng.range(1, 3) {
                    if rng.chance(1, 2) {
                        s.push_str(*rng.pick::<&str>(LETTER_POOL));
                    } else {
                        s.push_str(*rng.pick::<&str>(ASCII_POOL));
                    }
                }
                s
            }
            _ => gen_name(rng, NameStyle::Ascii),
        };
        if ascii_wf(&n) {
            return n;
        }
    }
    "n".to_string()
}

struct Dicts {
    prefixes: Vec<String>,
    connecters: Vec<String>,
    set_brackets: Vec<(String, String)>,
    copulas: Vec<String>,
    punctuations: Vec<String>,
    stamps: Vec<(String, String)>,
}
/// the REAL dictionaries of the lexical ASCII format
fn dicts() -> Dicts {
    let f = &*LEX_ASCII;
    Dicts {
        prefixes: PrefixMatch::prefix_terms(&f.atom.prefixes).cloned().collect(),
        connecters: PrefixMatch::prefix_terms(&f.compound.connecters).cloned().collect(),
        set_brackets: PrefixMatch::prefix_terms(&f.compound.set_brackets).cloned().collect(),
        copulas: PrefixMatch::prefix_terms(&f.statement.copulas).cloned().collect(),
        punctuations: SuffixMatch::suffix_terms(&f.sentence.punctuations).cloned().collect(),
        stamps: SuffixMatch::suffix_terms(&f.sentence.stamp_brackets).cloned().collect(),
    }
}

fn gen_latom(rng: &mut Rng, d: &Dicts) -> LTerm {
    let prefix = if rng.chance(1, 2) { String::new() } else { rng.pick::<String>(&d.prefixes).clone() };
    if prefix == "_" {
        // the placeholder; rarely with a name (class 3: the library round-trips `_a`, the grammar does not accept it)
        return if rng.chance(1, 12) { LTerm::new_atom("_", gen_name(rng, NameStyle::Ascii)) } else { LTerm::new_atom("_", "") };
    }
    let name = if prefix == "+" && rng.chance(2, 3) { format!("{}", rng.below(100000)) } else { readme_name(rng) };
    LTerm::new_atom(prefix, name)
}
fn gen_lterm(rng: &mut Rng, d: &Dicts, depth: usize, max_depth: usize, max_width: usize) -> LTerm {
    if depth >= max_depth || rng.chance(2 + depth, 8 + depth) {
        return gen_latom(rng, d);
    }
    let comps = |rng: &mut Rng| -> Vec<LTerm> {
        (0..rng.range(1, max_width)).map(|_| gen_lterm(rng, d, depth + 1, max_depth, max_width)).collect()
    };
    match rng.below(5) {
        0 | 1 => LTerm::new_compound(rng.pick::<String>(&d.connecters).clone(), comps(rng)),
        2 => {
            let (l, r) = rng.pick::<(String, String)>(&d.set_brackets).clone();
            LTerm::new_set(l, comps(rng), r)
        }
        _ => {
            let s = gen_lterm(rng, d, depth + 1, max_depth, max_width);
            let p = gen_lterm(rng, d, depth + 1, max_depth, max_width);
            LTerm::new_statement(rng.pick::<String>(&d.copulas).clone(), s, p)
        }
    }
}
const NUMBERS: &[&str] = &["0", "1", "0.5", "0.9", "1.0", "0.75", ".5", "1.", ".", "007", "0.0000001", "3.14.15", "99999999999999999999"];
fn gen_numbers(rng: &mut Rng, max: usize) -> Vec<String> {
    (0..rng.below(max + 1)).map(|_| rng.pick::<&str>(NUMBERS).to_string()).collect()
}
fn gen_lstamp(rng: &mut Rng, d: &Dicts) -> String {
    if rng.chance(1, 3) {
        return String::new();
    }
    let (l, r) = rng.pick::<(String, String)>(&d.stamps).clone();
    if l.is_empty() {
        return r; // an enumerated tense
    }
    // the fixed stamp: left bracket, characters of is_stamp_content, right bracket
    let body = match rng.below(6) {
        0 => "-1".to_string(),
        1 => "0".to_string(),
        2 => format!("+{}", rng.below(1000)),
        3 => format!("{}", rng.next() as i64),
        4 => (0..rng.range(1, 6)).map(|_| *rng.pick(&['0', '5', '9', '+', '-'])).collect(),
        _ => format!("{}", rng.below(100000)),
    };
    format!("{}{}{}", l, body, r)
}
fn gen_lsentence(rng: &mut Rng, d: &Dicts, term: LTerm) -> LSentence {
    LSentence { term, punctuation: rng.pick::<String>(&d.punctuations).clone(), stamp: gen_lstamp(rng, d), truth: gen_numbers(rng, 5) }
}
fn gen_lnarsese(rng: &mut Rng, d: &Dicts, kind: usize, thorough: bool) -> LNarsese {
    let (md, mw) = if thorough { (6, 5) } else { (4, 4) };
    let term = if rng.chance(1, 6) { gen_latom(rng, d) } else { gen_lterm(rng, d, 0, md, mw) };
    match kind {
        0 => LNarsese::Term(term),
        1 => LNarsese::Sentence(gen_lsentence(rng, d, term)),
        _ => LNarsese::Task(LTask { budget: gen_numbers(rng, 5), sentence: gen_lsentence(rng, d, term) }),
    }
}

/// every ASCII keyword once: atoms with each prefix, compounds with each connecter, both sets, statements
/// with each of the 13 copulas, each punctuation, each stamp form
fn lexicon_tour(d: &Dicts) -> Vec<LNarsese> {
    let a = || LTerm::new_atom("", "a");
    let b = || LTerm::new_atom("", "b");
    let mut out = vec![];
    for p in &d.prefixes {
        out.push(LNarsese::Term(if p == "_" { LTerm::new_atom("_", "") } else { LTerm::new_atom(p.clone(), "x1") }));
    }
    out.push(LNarsese::Term(LTerm::new_atom("_", "a"))); // class 3 witness
    out.push(LNarsese::Term(LTerm::new_statement("-->", LTerm::new_atom("_", "x1"), b())));
    for c in &d.connecters {
        out.push(LNarsese::Term(LTerm::new_compound(c.clone(), vec![a(), b()])));
        out.push(LNarsese::Term(LTerm::new_compound(c.clone(), vec![LTerm::new_atom("_", ""), LTerm::new_atom("$", "v")])));
    }
    for (l, r) in &d.set_brackets {
        out.push(LNarsese::Term(LTerm::new_set(l.clone(), vec![a()], r.clone())));
        out.push(LNarsese::Term(LTerm::new_set(l.clone(), vec![a(), b(), a()], r.clone())));
    }
    for c in &d.copulas {
        out.push(LNarsese::Term(LTerm::new_statement(c.clone(), a(), b())));
        out.push(LNarsese::Term(LTerm::new_statement(c.clone(), LTerm::new_atom("_", ""), LTerm::new_atom("", "a_"))));
    }
    for p in &d.punctuations {
        for (l, r) in &d.stamps {
            let stamp = if l.is_empty() { r.clone() } else { format!("{}-1{}", l, r) };
            let s = LSentence { term: a(), punctuation: p.clone(), stamp, truth: vec!["1.0".into(), "0.9".into()] };
            out.push(LNarsese::Sentence(s.clone()));
            out.push(LNarsese::Task(LTask { budget: vec!["0.5".into(), "0.5".into(), "0.5".into()], sentence: s }));
        }
        out.push(LNarsese::Task(LTask { budget: vec![], sentence: LSentence { term: LTerm::new_atom("$", "x"), punctuation: p.clone(), stamp: String::new(), truth: vec![] } }));
        out.push(LNarsese::Sentence(LSentence { term: LTerm::new_atom("$", "1"), punctuation: p.clone(), stamp: String::new(), truth: vec![] }));
    }
    out
}

/// enum values that carry the K4 names in every syntactic position
fn k4_enum_values() -> Vec<Narsese> {
    let mut out = vec![];
    for n in K4_NAMES {
        let w = || Term::new_word(*n);
        let a = || Term::new_word("a");
        out.push(Narsese::Term(w()));
        out.push(Narsese::Term(Term::new_operator(*n)));
        out.push(Narsese::Term(Term::new_inheritance(w(), a())));
        out.push(Narsese::Term(Term::new_inheritance(a(), w())));
        out.push(Narsese::Term(Term::new_product(vec![a(), w(), a()])));
        out.push(Narsese::Term(Term::new_set_extension(vec![w()])));
    }
    out
}

// -------------------------------------------------------------------------------------------
// the run
// -------------------------------------------------------------------------------------------
fn real_lex_parse(s: &str) -> Result<Option<LNarsese>, ()> {
    guard(|| match LEX_ASCII.parse(s) {
        Ok(v) => Some(v),
        Err(e) => {
            let _ = format!("{}", e);
            None
        }
    })
    .ok_or(())
}

struct Cx<'a> {
    rep: &'a mut Report,
    cases: Vec<String>,
    chars: BTreeSet<char>,
}
impl<'a> Cx<'a> {
    /// common part: the real lexical parse of a printed text, classification, failure bookkeeping;
    /// returns (Coq literal of the parse, tag)
    fn observe(&mut self, stream: &str, text: &str, what: &str) -> (String, u8) {
        self.rep.evaluations += 1;
        self.chars.extend(text.chars());
        let r = real_lex_parse(text);
        match &r {
            Ok(Some(w)) => {
                let tag = class_of(w);
                self.rep.hist.add(format!("{}:class{}", stream, tag));
                self.rep.hist.add(format!("{}:parsed-as:{}:{}", stream, ["term", "sentence", "task"][lkind(w)], ltop(lterm_of(w))));
                if lkind(w) != 0 || !matches!(lterm_of(w), LTerm::Atom { .. }) {
                    self.rep.note_distinct(text);
                }
                if tag == 1 {
                    self.rep.fail(Failure {
                        stream: stream.into(),
                        what: "text of the known class K4: an atom name contains `-` between two of `-`/`_`, where the README's generic copula rule matches; the Coq interpreter confirms that the grammar does not derive the library's tree".into(),
                        input: format!("{:?} ({})", text, what),
                        expected: "a sentence of the README grammar with the tree of the ASCII lexical parser".into(),
                        got: "not derivable (K4)".into(),
                        known: Some("K4".into()),
                    });
                }
                (format!("(Some {})", clnarsese(w)), tag)
            }
            Ok(None) | Err(()) => {
                self.rep.fail(Failure {
                    stream: stream.into(),
                    what: "the ASCII lexical parser does not parse the formatter's output (no tree to compare with)".into(),
                    input: format!("{:?} ({})", text, what),
                    expected: "Ok".into(),
                    got: if r.is_err() { "PANIC".into() } else { "Err".into() },
                    known: None,
                });
                ("None".into(), 0)
            }
        }
    }
}

pub fn run_c11(o: &Opts) -> Report {
    let mut rep = Report::new(
        "C11",
        "ASCII only. (enum) well-formed enum values, all 30 constructors on top as term / sentence / task, names from ASCII, other-script letters/digits, Han, emoji -> real FORMAT_ASCII.format_narsese; \
         (lex) lexical values over the REAL dictionaries of the lexical FORMAT_ASCII (1-4 components, 0-5 truth/budget entries, all stamp forms) -> real lexical format_narsese; every keyword of the lexicon once; K4 names in every position. \
         For each text: the Coq PEG interpreter running the grammar regenerated from README.md must accept it with the kind and tree the REAL ASCII lexical parser returns (class 0), resp. must not (classes K4 and non-atom_char names); \
         the formatter models (enum, lexical) and the enum->lexical tree map are compared with the real output as well; category tables vs Rust std on every character used. \
         distinct = distinct texts; non-trivial = compound / statement / sentence / task",
    );
    let mut rng = Rng::new(o.seed ^ 0xC11);
    let mut cx = Cx { rep: &mut rep, cases: vec![], chars: BTreeSet::new() };
    let fm = &formats()[0];
    let n_enum = (o.n / 2).max(20);
    let n_lex = (o.n / 2).max(20);

    // texts of class 0 (the grammar must derive the tree the ASCII lexical parser returns): re-parsed below after other formats
    let mut state_texts: Vec<String> = vec![];
    // ---- enum stream ----
    let mut g = term_gen_for(fm, if o.thorough { 6 } else { 4 }, if o.thorough { 5 } else { 4 });
    let mut values: Vec<(Narsese, &str)> = vec![];
    for k in 0..30 {
        values.push((gen_narsese(&mut rng, &g, k % 3, Some(k)), "enum"));
    }
    for i in 0..n_enum {
        if i == n_enum / 2 {
            // second half: names of other scripts and emoji as well
            g.style = NameStyle::Mixed;
        }
        values.push((gen_narsese(&mut rng, &g, i % 3, None), "enum"));
    }
    for v in k4_enum_values() {
        values.push((v, "enum-k4"));
    }
    for (v, stream) in values {
        let Some(text) = guard(|| fm.e.format_narsese(&v)) else {
            cx.rep.fail(Failure { stream: stream.into(), what: "formatting a well-formed value panicked".into(), input: canon_narsese(&v), expected: "".into(), got: "PANIC".into(), known: None });
            continue;
        };
        cx.rep.hist.add(format!("{}:{}:{}", stream, ["term", "sentence", "task"][kind_of(&v)], ctor_name(v.get_term())));
        cx.rep.sample(format!("[enum] {}", text));
        let (impl_lit, tag) = cx.observe(stream, &text, &canon_narsese(&v));
        if tag == 0 && impl_lit != "None" {
            state_texts.push(text.clone());
        }
        cx.cases.push(format!("REnum {} {} {} {} {}", cnarsese(&v), shown_table(&v), cstr(&text), impl_lit, tag));
        cx.rep.case_descr.push(format!("{} text {:?} of {}", stream, text, canon_narsese(&v)));
    }

    // ---- lexical stream ----
    let d = dicts();
    cx.rep.extra.push(("lexical_ascii_dictionaries".into(), format!(
        "{{\"prefixes\":{},\"connecters\":{},\"copulas\":{},\"punctuations\":{},\"set_brackets\":{},\"stamp_brackets\":{}}}",
        d.prefixes.len(), d.connecters.len(), d.copulas.len(), d.punctuations.len(), d.set_brackets.len(), d.stamps.len())));
    let mut lvalues: Vec<(LNarsese, &str)> = lexicon_tour(&d).into_iter().map(|v| (v, "lex-tour")).collect();
    for i in 0..n_lex {
        lvalues.push((gen_lnarsese(&mut rng, &d, i % 3, o.thorough), "lex"));
    }
    for (x, stream) in lvalues {
        let Some(text) = guard(|| LEX_ASCII.format_narsese(&x)) else {
            cx.rep.fail(Failure { stream: stream.into(), what: "lexical formatting panicked".into(), input: format!("{:?}", x), expected: "".into(), got: "PANIC".into(), known: None });
            continue;
        };
        cx.rep.hist.add(format!("{}:{}:{}", stream, ["term", "sentence", "task"][lkind(&x)], ltop(lterm_of(&x))));
        cx.rep.sample(format!("[lex] {}", text));
        let (impl_lit, tag) = cx.observe(stream, &text, "lexical value");
        if tag == 0 && impl_lit != "None" {
            state_texts.push(text.clone());
        }
        // C02's business, recorded only: does the lexical parser return the value that was printed?
        if let Ok(Some(w)) = real_lex_parse(&text) {
            cx.rep.hist.add(if w == x { "lex:roundtrip-same" } else { "lex:roundtrip-differs" });
        }
        cx.cases.push(format!("RLex {} {} {} {}", clnarsese(&x), cstr(&text), impl_lit, tag));
        cx.rep.case_descr.push(format!("{} text {:?}", stream, text));
    }

    // ---- state kept by the lexical parser across calls ----
    // The tree compared with the grammar above is the one the ASCII lexical parser returns on THIS thread, which has used
    // no other format.  The property speaks of "the tree the library's ASCII lexical parser returns" without such a proviso:
    // the same texts are parsed again with the ASCII format (shared static and owned `create_format_ascii()` values) on
    // fresh threads that parsed LaTeX / Han texts first, in every order, and directly after the same text under another
    // format (lexprops::lex_state_search); a different tree (or none) is then a tree the grammar does not derive.
    {
        let mut srng = Rng::new(o.seed ^ 0xC11_57A7E);
        let (mut texts, always, warm) = crate::lexprops::state_corpus(&mut srng, 0);
        texts.truncate(always);
        state_texts.sort();
        state_texts.dedup();
        srng.shuffle(&mut state_texts);
        let own: Vec<String> = state_texts.into_iter().filter(|t| t.chars().count() <= 160).take(if o.thorough { 600 } else { 150 }).collect();
        let own_set: BTreeSet<String> = own.iter().cloned().collect();
        texts.extend(own);
        let res = crate::lexprops::lex_state_search(&texts, always, if o.thorough { 200 } else { 60 }, &warm, &[0], &mut srng);
        cx.rep.evaluations += res.observations as u64;
        cx.rep.hist.0.insert("state:histories".into(), res.histories as u64);
        cx.rep.hist.0.insert("state:observations".into(), res.observations as u64);
        for f in res.findings {
            // domain: texts the ASCII formatters produced -- this run's class-0 texts, or a corpus text that the ASCII
            // lexical formatter prints for its own cold parse
            let formatter_output = own_set.contains(&f.text)
                || matches!(&f.cold.parse, Ok(Some(w)) if class_of(w) == 0 && guard(|| LEX_ASCII.format_narsese(w)).as_deref() == Some(f.text.as_str()));
            if formatter_output && f.got.parse != f.cold.parse {
                cx.rep.fail(Failure {
                    stream: "state".into(),
                    what: "the ASCII lexical parser returns a different tree (or none) for the same formatter output once the thread has parsed another format / with an owned ASCII format: not the tree the grammar derives".into(),
                    input: format!("{:?} -- history: {}", f.text, f.history),
                    expected: format!("{:?}", f.cold.parse),
                    got: format!("{:?}", f.got.parse),
                    known: None,
                });
            } else {
                cx.rep.hist.add("state:dependence-outside-the-domain (C08's business)");
            }
        }
    }

    // ---- the characters used, and all of ASCII, against Rust's std ----
    let mut chars: BTreeSet<char> = (0u8..128).map(|b| b as char).collect();
    chars.extend(cx.chars.iter().copied());
    for pool in [LETTER_POOL, EMOJI_POOL, WIDE_POOL, HAN_POOL] {
        for s in pool {
            chars.extend(s.chars());
        }
    }
    for c in chars {
        cx.cases.push(format!(
            "RUni {} {} {} {} {} {}",
            c as u32,
            cbool(c.is_alphanumeric()),
            cbool(c.is_numeric()),
            cbool(c.is_whitespace()),
            cbool(c.is_ascii_punctuation()),
            cbool(c.is_ascii_alphabetic())
        ));
        cx.rep.case_descr.push(format!("unicode classes of U+{:04X}", c as u32));
    }

    let cases = std::mem::take(&mut cx.cases);
    rep.shards = write_shards(&o.outdir, "C11", "Nv.Run.ReadmeRun", "mismatches_readme", "rcase", "N_scope", &cases, o.shards, "").unwrap();
    rep
}
