//! One 64-bit PRNG state (splitmix64); every random choice of the harness derives from it.
#[derive(Clone)]
pub struct Rng(pub u64);

impl Rng {
    pub fn new(seed: u64) -> Self {
        Rng(seed ^ 0x9E37_79B9_7F4A_7C15)
    }
    pub fn next(&mut self) -> u64 {
        self.0 = self.0.wrapping_add(0x9E37_79B9_7F4A_7C15);
        let mut z = self.0;
        z = (z ^ (z >> 30)).wrapping_mul(0xBF58_476D_1CE4_E5B9);
        z = (z ^ (z >> 27)).wrapping_mul(0x94D0_49BB_1331_11EB);
        z ^ (z >> 31)
    }
    /// uniform in 0..n (n > 0)
    pub fn below(&mut self, n: usize) -> usize {
        (self.next() % (n as u64)) as usize
    }
    pub fn range(&mut self, lo: usize, hi_incl: usize) -> usize {
        lo + self.below(hi_incl - lo + 1)
    }
    pub fn chance(&mut self, num: usize, den: usize) -> bool {
        self.below(den) < num
    }
    pub fn pick<'a, T>(&mut self, xs: &'a [T]) -> &'a T {
        &xs[self.below(xs.len())]
    }
    pub fn shuffle<T>(&mut self, xs: &mut [T]) {
        for i in (1..xs.len()).rev() {
            let j = self.below(i + 1);
            xs.swap(i, j);
        }
    }
    /// derive an independent stream
    pub fn fork(&mut self, tag: u64) -> Rng {
        Rng::new(self.next() ^ tag.wrapping_mul(0xD6E8_FEB8_6659_FD93))
    }
}
