//! C13: truth / budget constructors and the float evidence-number API on raw f64 bit patterns.
use crate::coqw::*;
use crate::prng::Rng;
use crate::util::*;
use narsese::api::{EvidentNumber, EvidentValue};
use narsese::enum_narsese::{Budget, Truth};

const BOUNDARY: &[u64] = &[
    0x0000_0000_0000_0000, // +0
    0x8000_0000_0000_0000, // -0
    0x0000_0000_0000_0001, // min subnormal
    0x8000_0000_0000_0001, // -min subnormal
    0x000F_FFFF_FFFF_FFFF, // max subnormal
    0x0010_0000_0000_0000, // min normal
    0x3FE0_0000_0000_0000, // 0.5
    0x3FEF_FFFF_FFFF_FFFF, // 1 - ulp
    0x3FF0_0000_0000_0000, // 1
    0x3FF0_0000_0000_0001, // 1 + ulp
    0x4000_0000_0000_0000, // 2
    0xBFF0_0000_0000_0000, // -1
    0xBFE0_0000_0000_0000, // -0.5
    0x7FEF_FFFF_FFFF_FFFF, // max finite
    0x7FF0_0000_0000_0000, // +inf
    0xFFF0_0000_0000_0000, // -inf
    0x7FF8_0000_0000_0000, // quiet NaN
    0x7FF0_0000_0000_0001, // signalling NaN
    0xFFF8_0000_0000_0000, // -NaN
    0x8160_0000_0000_0000, // ~ -1e-300
    0x3FB9_9999_9999_999A, // 0.1
];

fn in01_ref(bits: u64) -> bool {
    // independent reference: sign clear (or -0) and magnitude <= bits of 1.0, not NaN/inf
    let mag = bits & 0x7FFF_FFFF_FFFF_FFFF;
    let neg = bits >> 63 == 1;
    if mag > 0x7FF0_0000_0000_0000 {
        return false; // NaN
    }
    if neg {
        return mag == 0;
    }
    mag <= 0x3FF0_0000_0000_0000
}

fn rz(r: &Option<f64>) -> String {
    match r {
        Some(v) => format!("(ROk {})", v.to_bits()),
        None => "RPanic".into(),
    }
}

fn zlist(v: &[u64]) -> String {
    clist(v, |x| x.to_string())
}

fn truth_out(t: &Truth) -> String {
    let vals: Vec<u64> = match t {
        Truth::Empty => vec![],
        Truth::Single(f) => vec![f.to_bits()],
        Truth::Double(f, c) => vec![f.to_bits(), c.to_bits()],
    };
    let f = guard(|| t.f());
    let c = guard(|| t.c());
    format!("(COk {} [{}; {}])", zlist(&vals), rz(&f), rz(&c))
}
fn budget_out(b: &Budget) -> String {
    let vals: Vec<u64> = match b {
        Budget::Empty => vec![],
        Budget::Single(p) => vec![p.to_bits()],
        Budget::Double(p, d) => vec![p.to_bits(), d.to_bits()],
        Budget::Triple(p, d, q) => vec![p.to_bits(), d.to_bits(), q.to_bits()],
    };
    let p = guard(|| b.p());
    let d = guard(|| b.d());
    let q = guard(|| b.q());
    // Budget::is_empty rides along as a fourth "accessor" (0 / 1): the model's budget_is_empty was compared nowhere
    format!("(COk {} [{}; {}; {}; ROk {}])", zlist(&vals), rz(&p), rz(&d), rz(&q), b.is_empty() as u8)
}

pub fn run(o: &Opts) -> Report {
    let mut rep = Report::new(
        "C13",
        "ops on raw f64 bit patterns: exhaustive boundary set x arities 0..5 for try_from_floats, boundary^k for new_*, \
         all evidence-number entry points, plus random bit patterns; values built directly through the enum variants \
         (any f64 incl. NaN, infinities, negatives) x every accessor and alias vs the stored bits; distinct = distinct (op, bits) tuples; \
         non-trivial = every case (each exercises the range test or an accessor)",
    );
    let mut rng = Rng::new(o.seed);
    let mut cases: Vec<String> = vec![];
    let mut pools: Vec<Vec<u64>> = vec![];
    // arities 0..5 over the boundary set: exhaustive for arity <= 2, sampled beyond
    pools.push(vec![]);
    for &a in BOUNDARY {
        pools.push(vec![a]);
        for &b in BOUNDARY {
            pools.push(vec![a, b]);
        }
    }
    let extra = if o.thorough { 20000 } else { 1500 };
    for _ in 0..extra {
        let k = rng.range(0, 5);
        let mut v = vec![];
        for _ in 0..k {
            let x = match rng.below(4) {
                0 => *rng.pick(BOUNDARY),
                1 => rng.next(),
                2 => (rng.next() % 0x3FF0_0000_0000_0001) as u64, // in [0,1]
                _ => f64::from_bits(0x3FE0_0000_0000_0000 + (rng.next() % (1 << 52))).to_bits(),
            };
            v.push(x);
        }
        pools.push(v);
    }
    let mut add = |rep: &mut Report, op: String, out: String, descr: String| {
        rep.evaluations += 1;
        rep.note_distinct(&op);
        rep.case_descr.push(descr.clone());
        rep.sample(descr);
        cases.push(format!("({}, {})", op, out));
    };
    for l in &pools {
        let fl: Vec<f64> = l.iter().map(|b| f64::from_bits(*b)).collect();
        rep.hist.add(format!("arity{}", l.len()));
        // Truth::try_from_floats
        let r = guard(|| Truth::try_from_floats(fl.clone().into_iter()));
        let out = match &r {
            None => "CPanic".to_string(),
            Some(Err(_)) => "CErr".to_string(),
            Some(Ok(t)) => truth_out(t),
        };
        // direct property evaluation against the independent reference
        let consumed: Vec<u64> = l.iter().take(2).cloned().collect();
        let expect_ok = consumed.iter().all(|b| in01_ref(*b));
        let got_ok = matches!(r, Some(Ok(_)));
        let arity_ok = match &r {
            Some(Ok(Truth::Empty)) => consumed.is_empty(),
            Some(Ok(Truth::Single(f))) => consumed.len() == 1 && f.to_bits() == consumed[0],
            Some(Ok(Truth::Double(f, c))) => consumed.len() == 2 && f.to_bits() == consumed[0] && c.to_bits() == consumed[1],
            _ => true,
        };
        if expect_ok != got_ok || !arity_ok || r.is_none() {
            rep.fail(Failure {
                stream: "truth_try".into(),
                what: "Truth::try_from_floats outcome differs from (all consumed components in [0,1])".into(),
                input: format!("{:x?}", l),
                expected: format!("ok={}", expect_ok),
                got: out.clone(),
                known: None,
            });
        }
        add(&mut rep, format!("OpTruthTry {}", zlist(l)), out, format!("Truth::try_from_floats({:x?})", l));
        // Budget::try_from_floats
        let r = guard(|| Budget::try_from_floats(fl.clone().into_iter()));
        let out = match &r {
            None => "CPanic".to_string(),
            Some(Err(_)) => "CErr".to_string(),
            Some(Ok(t)) => budget_out(t),
        };
        let consumed: Vec<u64> = l.iter().take(3).cloned().collect();
        let expect_ok = consumed.iter().all(|b| in01_ref(*b));
        let got_ok = matches!(r, Some(Ok(_)));
        let vals: Option<Vec<u64>> = match &r {
            Some(Ok(Budget::Empty)) => Some(vec![]),
            Some(Ok(Budget::Single(p))) => Some(vec![p.to_bits()]),
            Some(Ok(Budget::Double(p, d))) => Some(vec![p.to_bits(), d.to_bits()]),
            Some(Ok(Budget::Triple(p, d, q))) => Some(vec![p.to_bits(), d.to_bits(), q.to_bits()]),
            _ => None,
        };
        if expect_ok != got_ok || r.is_none() || vals.map(|v| v != consumed).unwrap_or(false) {
            rep.fail(Failure {
                stream: "budget_try".into(),
                what: "Budget::try_from_floats outcome differs from (all consumed components in [0,1])".into(),
                input: format!("{:x?}", l),
                expected: format!("ok={}", expect_ok),
                got: out.clone(),
                known: None,
            });
        }
        add(&mut rep, format!("OpBudgetTry {}", zlist(l)), out, format!("Budget::try_from_floats({:x?})", l));
        // panicking constructors for the exact arities
        let newr = |r: Option<String>| r.unwrap_or_else(|| "CPanic".into());
        match l.len() {
            1 => {
                let a = fl[0];
                let t = newr(guard(|| truth_out(&Truth::new_single(a))));
                let panics = t == "CPanic";
                if panics == in01_ref(l[0]) {
                    rep.fail(Failure { stream: "truth_new".into(), what: "Truth::new_single panics iff try_from_floats is Err".into(), input: format!("{:x?}", l), expected: format!("panic={}", !in01_ref(l[0])), got: t.clone(), known: None });
                }
                add(&mut rep, format!("OpTruthNew1 {}", l[0]), t, format!("Truth::new_single({:x})", l[0]));
                let b = newr(guard(|| budget_out(&Budget::new_single(a))));
                if (b == "CPanic") == in01_ref(l[0]) {
                    rep.fail(Failure { stream: "budget_new".into(), what: "Budget::new_single panics iff try_from_floats is Err".into(), input: format!("{:x?}", l), expected: format!("panic={}", !in01_ref(l[0])), got: b.clone(), known: None });
                }
                add(&mut rep, format!("OpBudgetNew1 {}", l[0]), b, format!("Budget::new_single({:x})", l[0]));
                // evidence-number API
                let iv = a.is_valid();
                let tv = a.try_validate().is_ok();
                let vv = guard(|| *a.validate());
                if iv != in01_ref(l[0]) || tv != iv || vv.is_some() != iv || vv.map(|x| x.to_bits() != l[0]).unwrap_or(false) {
                    rep.fail(Failure { stream: "evident".into(), what: "is_valid / try_validate / validate disagree with 0<=x<=1".into(), input: format!("{:x}", l[0]), expected: format!("{}", in01_ref(l[0])), got: format!("is_valid={} try={} validate_ok={}", iv, tv, vv.is_some()), known: None });
                }
                add(&mut rep, format!("OpEvident {}", l[0]), format!("(COk [] [{}; {}; {}])",
                    if iv { "ROk 1" } else { "ROk 0" },
                    if tv { format!("ROk {}", l[0]) } else { "RErr".into() },
                    rz(&vv)), format!("EvidentNumber::{{is_valid,try_validate,validate}}({:x})", l[0]));
                // root: the libm contract, sampled on the real code (supporting evidence only)
                if iv {
                    for n in [0usize, 1, 2, 3, 7, 1000, usize::MAX] {
                        let r = a.root(n);
                        rep.evaluations += 1;
                        if !r.is_valid() {
                            rep.fail(Failure { stream: "root".into(), what: "n-th root of a valid number is not valid".into(), input: format!("{:x} root {}", l[0], n), expected: "valid".into(), got: format!("{:x}", r.to_bits()), known: None });
                        }
                    }
                }
            }
            2 => {
                let (a, b2) = (fl[0], fl[1]);
                let okref = in01_ref(l[0]) && in01_ref(l[1]);
                let t = newr(guard(|| truth_out(&Truth::new_double(a, b2))));
                if (t == "CPanic") == okref {
                    rep.fail(Failure { stream: "truth_new".into(), what: "Truth::new_double panics iff try_from_floats is Err".into(), input: format!("{:x?}", l), expected: format!("panic={}", !okref), got: t.clone(), known: None });
                }
                add(&mut rep, format!("OpTruthNew2 {} {}", l[0], l[1]), t, format!("Truth::new_double({:x?})", l));
                let b = newr(guard(|| budget_out(&Budget::new_double(a, b2))));
                if (b == "CPanic") == okref {
                    rep.fail(Failure { stream: "budget_new".into(), what: "Budget::new_double panics iff try_from_floats is Err".into(), input: format!("{:x?}", l), expected: format!("panic={}", !okref), got: b.clone(), known: None });
                }
                add(&mut rep, format!("OpBudgetNew2 {} {}", l[0], l[1]), b, format!("Budget::new_double({:x?})", l));
            }
            3 => {
                let okref = l.iter().all(|x| in01_ref(*x));
                let b = newr(guard(|| budget_out(&Budget::new_triple(fl[0], fl[1], fl[2]))));
                if (b == "CPanic") == okref {
                    rep.fail(Failure { stream: "budget_new".into(), what: "Budget::new_triple panics iff try_from_floats is Err".into(), input: format!("{:x?}", l), expected: format!("panic={}", !okref), got: b.clone(), known: None });
                }
                add(&mut rep, format!("OpBudgetNew3 {} {} {}", l[0], l[1], l[2]), b, format!("Budget::new_triple({:x?})", l));
            }
            _ => {}
        }
    }
    // values built DIRECTLY through the public enum variants (Truth::Double(x, y), Budget::Single(x), ...): the only way to
    // store numbers the checked constructors reject (NaN, infinities, negatives, > 1) or never produce.  The property says the
    // accessors "return the stored numbers unchanged, panicking only for components the variant does not have" -- for EVERY
    // stored number, compared by bits (NaN payloads, -0.0).  All arities over the boundary set (exhaustive for <= 2, every
    // boundary value in every position of a triple) plus the random tuples of the pools above.
    let mut vpools: Vec<Vec<u64>> = pools.iter().filter(|l| l.len() <= 3).cloned().collect();
    for &a in BOUNDARY {
        vpools.push(vec![a, a, a]);
        for pos in 0..3 {
            let mut v = vec![0x3FE0_0000_0000_0000u64; 3];
            v[pos] = a;
            vpools.push(v.clone());
            v[(pos + 1) % 3] = *rng.pick(BOUNDARY);
            vpools.push(v);
        }
    }
    for l in &vpools {
        let fl: Vec<f64> = l.iter().map(|b| f64::from_bits(*b)).collect();
        let want = |k: usize| l.get(k).cloned();
        if l.len() <= 2 {
            let t = match fl.len() {
                0 => Truth::Empty,
                1 => Truth::Single(fl[0]),
                _ => Truth::Double(fl[0], fl[1]),
            };
            rep.hist.add(format!("variant-truth{}", l.len()));
            // every accessor (short alias, trait method, trait alias) against the stored component
            let acc: Vec<(&str, usize, Option<f64>)> = vec![
                ("f", 0, guard(|| t.f())),
                ("c", 1, guard(|| t.c())),
                ("get_frequency", 0, guard(|| t.get_frequency())),
                ("get_confidence", 1, guard(|| t.get_confidence())),
                ("frequency", 0, guard(|| t.frequency())),
                ("confidence", 1, guard(|| t.confidence())),
            ];
            for (name, k, got) in &acc {
                if got.map(f64::to_bits) != want(*k) {
                    rep.fail(Failure { stream: "truth_variant".into(), what: format!("Truth accessor {}() does not return the stored number / panic exactly for a missing component", name), input: format!("Truth variant with components {:x?}", l), expected: format!("{:x?}", want(*k)), got: format!("{:x?}", got.map(f64::to_bits)), known: None });
                }
            }
            let fc = guard(|| t.get_frequency_confidence());
            let want_fc = if l.len() == 2 { Some((l[0], l[1])) } else { None };
            if fc.map(|(a, b)| (a.to_bits(), b.to_bits())) != want_fc {
                rep.fail(Failure { stream: "truth_variant".into(), what: "Truth::get_frequency_confidence() does not return the stored pair / panic exactly when a component is missing".into(), input: format!("Truth variant with components {:x?}", l), expected: format!("{:x?}", want_fc), got: format!("{:x?}", fc.map(|(a, b)| (a.to_bits(), b.to_bits()))), known: None });
            }
            add(&mut rep, format!("OpTruthVariant {}", zlist(l)), truth_out(&t), format!("Truth variant {:x?} accessors", l));
        }
        let b = match fl.len() {
            0 => Budget::Empty,
            1 => Budget::Single(fl[0]),
            2 => Budget::Double(fl[0], fl[1]),
            _ => Budget::Triple(fl[0], fl[1], fl[2]),
        };
        rep.hist.add(format!("variant-budget{}", l.len()));
        let acc: Vec<(&str, usize, Option<f64>)> = vec![
            ("p", 0, guard(|| b.p())),
            ("d", 1, guard(|| b.d())),
            ("q", 2, guard(|| b.q())),
            ("priority", 0, guard(|| b.priority())),
            ("duality", 1, guard(|| b.duality())),
            ("quality", 2, guard(|| b.quality())),
        ];
        for (name, k, got) in &acc {
            if got.map(f64::to_bits) != want(*k) {
                rep.fail(Failure { stream: "budget_variant".into(), what: format!("Budget accessor {}() does not return the stored number / panic exactly for a missing component", name), input: format!("Budget variant with components {:x?}", l), expected: format!("{:x?}", want(*k)), got: format!("{:x?}", got.map(f64::to_bits)), known: None });
            }
        }
        if guard(|| b.is_empty()) != Some(l.is_empty()) {
            rep.fail(Failure { stream: "budget_variant".into(), what: "Budget::is_empty() differs from (no component stored)".into(), input: format!("Budget variant with components {:x?}", l), expected: format!("{}", l.is_empty()), got: format!("{:?}", guard(|| b.is_empty())), known: None });
        }
        add(&mut rep, format!("OpBudgetVariant {}", zlist(l)), budget_out(&b), format!("Budget variant {:x?} accessors", l));
    }
    // empty constructors and zero/one
    add(&mut rep, "OpTruthNew0".into(), truth_out(&Truth::new_empty()), "Truth::new_empty()".into());
    add(&mut rep, "OpBudgetNew0".into(), budget_out(&Budget::new_empty()), "Budget::new_empty()".into());
    add(&mut rep, "OpZeroOne".into(), format!("(COk [{}; {}] [])", <f64 as EvidentNumber>::zero().to_bits(), <f64 as EvidentNumber>::one().to_bits()), "EvidentNumber::{zero,one}".into());
    rep.shards = write_shards(&o.outdir, "C13", "Nv.Run.C13Run", "mismatches", "c13op * cout", "Z_scope", &cases, o.shards, "").unwrap();
    rep
}
