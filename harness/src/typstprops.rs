//! C16: Typst rendering (model: Model/Typst.v, runner Run/TypstRun.v).
//! Correspondence streams (real `FormatterTypst.format` vs model, byte for byte) and the search for
//! property failures on the real code: panics, leading / trailing / doubled whitespace, equal values
//! rendering differently (up to the order of unordered components), unequal values rendering alike.
use crate::coqw::*;
use crate::enumgen::*;
use crate::gen::*;
use crate::prng::Rng;
use crate::ser::*;
use crate::util::*;
use narsese::api::{GetBudget, GetTerm};
use narsese::conversion::string::typst_formatter::{post_process_whitespace, FormatterTypst};
use narsese::enum_narsese::{Budget, Narsese, Punctuation, Sentence, Stamp, Task, Term, Truth};
use std::collections::HashMap;

// -------------------------------------------------------------------------------------------
// std tables the model depends on: char::is_whitespace, `impl Debug for str`
// -------------------------------------------------------------------------------------------
fn ranges(pred: impl Fn(char) -> bool) -> Vec<(u32, u32)> {
    let mut out: Vec<(u32, u32)> = vec![];
    for cp in 0u32..=0x10FFFF {
        if char::from_u32(cp).map(|c| pred(c)).unwrap_or(false) {
            match out.last_mut() {
                Some((_, hi)) if *hi + 1 == cp => *hi = cp,
                _ => out.push((cp, cp)),
            }
        }
    }
    out
}

/// what `format!("{:?}", s)` prints for one char of s
fn debug_of_char(c: char) -> String {
    let s = format!("{:?}", c.to_string());
    s[1..s.len() - 1].to_string()
}

/// the rule of the model (Model/Typst.v esc_char), restated
fn model_esc_char(c: char, esc: bool) -> String {
    match c {
        '\0' => "\\0".into(),
        '\t' => "\\t".into(),
        '\r' => "\\r".into(),
        '\n' => "\\n".into(),
        '\\' => "\\\\".into(),
        '"' => "\\\"".into(),
        _ if esc => format!("\\u{{{:x}}}", c as u32),
        _ => c.to_string(),
    }
}

fn cranges(rs: &[(u32, u32)]) -> String {
    clist(rs, |(a, b)| format!("({},{})", a, b))
}

// -------------------------------------------------------------------------------------------
// values
// -------------------------------------------------------------------------------------------
/// characters that are name characters of every format but are \u{..}-escaped by Debug
/// (grapheme extenders that are alphabetic, variation selectors, noncharacters, unassigned planes)
const ESCAPED_NAME_POOL: &[&str] = &["\u{345}", "\u{e0100}", "\u{10ffff}", "\u{30000}x", "\u{1f300}", "\u{e01ef}", "\u{1f3fb}", "x\u{93a}", "\u{fffff}"];
/// names outside the name alphabet: whitespace of every kind, quotes, backslashes, controls, empty
const WILD_NAME_POOL: &[&str] = &[
    "", " ", "  ", "a b", "a  b", " a", "a ", "\t", "a\tb", "\n", "\r\n", "\"", "a\"b", "\\", "\\\\", "\\\"", "'", "\0", "\u{7f}", "\u{85}", "\u{a0}", "a\u{a0} b",
    "\u{1680}", "\u{2000}", "\u{200a}", "\u{200b}", "\u{2028}", "\u{2029}", "\u{202f}", "\u{205f}", "\u{3000}", "\u{301}", "e\u{301}", "\u{feff}", "\u{ad}", "lr((", " space ", "))", "\"A\"", "$", "#h(-0.05em)",
];

fn map_term(t: &Term, f: &mut dyn FnMut(&Term) -> Option<Term>) -> Term {
    use Term::*;
    if let Some(r) = f(t) {
        return r;
    }
    let mut mv = |v: &Vec<Term>| -> Vec<Term> { v.iter().map(|x| map_term(x, f)).collect() };
    match t {
        Word(..) | Placeholder | VariableIndependent(..) | VariableDependent(..) | VariableQuery(..) | Interval(..) | Operator(..) => t.clone(),
        SetExtension(s) => Term::new_set_extension(mv(&s.iter().cloned().collect())),
        SetIntension(s) => Term::new_set_intension(mv(&s.iter().cloned().collect())),
        IntersectionExtension(s) => Term::new_intersection_extension(mv(&s.iter().cloned().collect())),
        IntersectionIntension(s) => Term::new_intersection_intension(mv(&s.iter().cloned().collect())),
        Conjunction(s) => Term::new_conjunction(mv(&s.iter().cloned().collect())),
        Disjunction(s) => Term::new_disjunction(mv(&s.iter().cloned().collect())),
        ConjunctionParallel(s) => Term::new_conjunction_parallel(mv(&s.iter().cloned().collect())),
        Product(v) => Term::new_product(mv(v)),
        ConjunctionSequential(v) => Term::new_conjunction_sequential(mv(v)),
        ImageExtension(i, v) => ImageExtension(*i, mv(v)),
        ImageIntension(i, v) => ImageIntension(*i, mv(v)),
        Negation(a) => Term::new_negation(map_term(a, f)),
        DifferenceExtension(a, b) => Term::new_difference_extension(map_term(a, f), map_term(b, f)),
        DifferenceIntension(a, b) => Term::new_difference_intension(map_term(a, f), map_term(b, f)),
        Inheritance(a, b) => Term::new_inheritance(map_term(a, f), map_term(b, f)),
        Similarity(a, b) => Term::new_similarity(map_term(a, f), map_term(b, f)),
        Implication(a, b) => Term::new_implication(map_term(a, f), map_term(b, f)),
        Equivalence(a, b) => Term::new_equivalence(map_term(a, f), map_term(b, f)),
        ImplicationPredictive(a, b) => Term::new_implication_predictive(map_term(a, f), map_term(b, f)),
        ImplicationConcurrent(a, b) => Term::new_implication_concurrent(map_term(a, f), map_term(b, f)),
        ImplicationRetrospective(a, b) => Term::new_implication_retrospective(map_term(a, f), map_term(b, f)),
        EquivalencePredictive(a, b) => Term::new_equivalence_predictive(map_term(a, f), map_term(b, f)),
        EquivalenceConcurrent(a, b) => Term::new_equivalence_concurrent(map_term(a, f), map_term(b, f)),
    }
}

fn with_name(t: &Term, n: String) -> Option<Term> {
    use Term::*;
    Some(match t {
        Word(_) => Word(n),
        VariableIndependent(_) => VariableIndependent(n),
        VariableDependent(_) => VariableDependent(n),
        VariableQuery(_) => VariableQuery(n),
        Operator(_) => Operator(n),
        _ => return None,
    })
}

/// append / substitute characters from `pool` in some of the names of `t`
fn decorate(t: &Term, rng: &mut Rng, pool: &[&str], num: usize, den: usize) -> Term {
    map_term(t, &mut |x| match x.get_atom_name() {
        Some(n) if !matches!(x, Term::Placeholder | Term::Interval(..)) && rng.chance(num, den) => {
            let p = *rng.pick::<&str>(pool);
            let n2 = match rng.below(3) {
                0 => p.to_string(),
                1 => format!("{}{}", n, p),
                _ => format!("{}{}", p, n),
            };
            with_name(x, n2)
        }
        _ => None,
    })
}

fn each_term(t: &Term, f: &mut dyn FnMut(&Term)) {
    f(t);
    if t.get_atom_name().is_some() {
        return;
    }
    for c in t.get_components() {
        each_term(c, f);
    }
}

/// K6: some image's own component list contains a placeholder
pub fn k6(t: &Term) -> bool {
    let mut hit = false;
    each_term(t, &mut |x| {
        if let Term::ImageExtension(_, v) | Term::ImageIntension(_, v) = x {
            if v.iter().any(|c| matches!(c, Term::Placeholder)) {
                hit = true;
            }
        }
    });
    hit
}

/// well-formed for C16: names are non-empty identifiers (name characters only), image index <= length
fn wf_term(t: &Term) -> bool {
    let mut ok = true;
    each_term(t, &mut |x| match x {
        Term::Word(n) | Term::VariableIndependent(n) | Term::VariableDependent(n) | Term::VariableQuery(n) | Term::Operator(n) => {
            if n.is_empty() || !n.chars().all(crate::wf::is_name_char) {
                ok = false;
            }
        }
        Term::ImageExtension(i, v) | Term::ImageIntension(i, v) => {
            if *i > v.len() {
                ok = false;
            }
        }
        _ => {}
    });
    ok
}
fn wf_float(f: f64) -> bool {
    f >= 0.0 && f <= 1.0 && !(f == 0.0 && f.is_sign_negative())
}
fn wf_value(v: &Narsese) -> bool {
    wf_term(v.get_term()) && floats_of(v).into_iter().all(wf_float)
}

fn with_term(v: &Narsese, t: Term) -> Narsese {
    let sent = |s: &Sentence, t: Term| match s {
        Sentence::Judgement(_, tr, st) => Sentence::Judgement(t, tr.clone(), st.clone()),
        Sentence::Goal(_, tr, st) => Sentence::Goal(t, tr.clone(), st.clone()),
        Sentence::Question(_, st) => Sentence::Question(t, st.clone()),
        Sentence::Quest(_, st) => Sentence::Quest(t, st.clone()),
    };
    match v {
        Narsese::Term(_) => Narsese::Term(t),
        Narsese::Sentence(s) => Narsese::Sentence(sent(s, t)),
        Narsese::Task(k) => Narsese::Task(Task::new(sent(k.get_sentence(), t), k.get_budget().clone())),
    }
}

fn c16_gen(depth: usize, width: usize, wild: bool) -> TermGen {
    TermGen {
        max_depth: depth,
        max_width: width,
        style: NameStyle::Mixed,
        name_ok: Box::new(move |n| wild || (!n.is_empty() && n.chars().all(crate::wf::is_name_char))),
        wild,
    }
}

fn atom_abc(i: usize) -> Term {
    match i % 9 {
        0 => Term::new_word("A"),
        1 => Term::new_word("B"),
        2 => Term::new_variable_independent("C"),
        3 => Term::new_word("D"),
        4 => Term::new_variable_dependent("E"),
        5 => Term::new_variable_query("F"),
        6 => Term::new_operator("G"),
        7 => Term::new_interval(8),
        _ => Term::new_word("I"),
    }
}

fn build(kind: usize, comps: Vec<Term>, idx: usize) -> Option<Term> {
    let two = |c: &Vec<Term>| if c.len() == 2 { Some((c[0].clone(), c[1].clone())) } else { None };
    Some(match kind {
        7 => Term::new_set_extension(comps),
        8 => Term::new_set_intension(comps),
        9 => Term::new_intersection_extension(comps),
        10 => Term::new_intersection_intension(comps),
        11 => { let (a, b) = two(&comps)?; Term::new_difference_extension(a, b) }
        12 => { let (a, b) = two(&comps)?; Term::new_difference_intension(a, b) }
        13 => Term::new_product(comps),
        14 => Term::ImageExtension(idx, comps),
        15 => Term::ImageIntension(idx, comps),
        16 => Term::new_conjunction(comps),
        17 => Term::new_disjunction(comps),
        18 => { if comps.len() != 1 { return None; } Term::new_negation(comps[0].clone()) }
        19 => Term::new_conjunction_sequential(comps),
        20 => Term::new_conjunction_parallel(comps),
        21 => { let (a, b) = two(&comps)?; Term::new_inheritance(a, b) }
        22 => { let (a, b) = two(&comps)?; Term::new_similarity(a, b) }
        23 => { let (a, b) = two(&comps)?; Term::new_implication(a, b) }
        24 => { let (a, b) = two(&comps)?; Term::new_equivalence(a, b) }
        25 => { let (a, b) = two(&comps)?; Term::new_implication_predictive(a, b) }
        26 => { let (a, b) = two(&comps)?; Term::new_implication_concurrent(a, b) }
        27 => { let (a, b) = two(&comps)?; Term::new_implication_retrospective(a, b) }
        28 => { let (a, b) = two(&comps)?; Term::new_equivalence_predictive(a, b) }
        29 => { let (a, b) = two(&comps)?; Term::new_equivalence_concurrent(a, b) }
        _ => return None,
    })
}

/// every compound constructor at every arity 0..=4 (layout depends on arity), every image index
/// 0..=len (and two beyond: ill-formed), with distinct atoms; then each of them one level down
fn arity_stream() -> Vec<Term> {
    let mut out = vec![];
    for kind in 7..30 {
        for n in 0..=4usize {
            let comps: Vec<Term> = (0..n).map(atom_abc).collect();
            let idxs: Vec<usize> = if kind == 14 || kind == 15 { (0..=n + 1).chain([n + 3]).collect() } else { vec![0] };
            for idx in idxs {
                if let Some(t) = build(kind, comps.clone(), idx) {
                    out.push(t);
                }
            }
        }
    }
    let flat = out.clone();
    for (i, t) in flat.iter().enumerate() {
        out.push(match i % 4 {
            0 => Term::new_product(vec![t.clone(), atom_abc(i)]),
            1 => Term::new_set_extension(vec![t.clone()]),
            2 => Term::new_inheritance(t.clone(), atom_abc(i)),
            _ => Term::new_conjunction(vec![atom_abc(i), t.clone(), atom_abc(i + 1)]),
        });
    }
    out
}

// -------------------------------------------------------------------------------------------
// an independent reader of the rendered text: bracket tree, order-insensitive canonical form
// -------------------------------------------------------------------------------------------
const CONNECTERS: &[&str] = &["sect", "union", "minus", "minus.circle", "times", "\\/", "\\\\", "and", "or", "not", ",", ";"];
const UNORDERED_CONNECTERS: &[&str] = &["sect", "union", "and", "or", ";"];
const COPULAS: &[&str] = &[
    "arrow.r", "arrow.l.r", "arrow.r.double", "arrow.l.r.double",
    "space\\/#h(-0.6em)arrow.r.double", "space\\|#h(-0.6em)arrow.r.double", "space\\\\#h(-0.6em)arrow.r.double",
    "space\\/#h(-0.6em)arrow.l.r.double", "space\\|#h(-0.6em)arrow.l.r.double",
];
const SYMMETRIC_COPULAS: &[&str] = &["arrow.l.r", "arrow.l.r.double", "space\\|#h(-0.6em)arrow.l.r.double"];
const CLOSERS: &[&str] = &["))", "})", "])", "angle.r)", "\\$)"];

enum Node {
    Tok(String),
    Group(String, Vec<Node>, String),
}

fn parse_nodes(toks: &[&str], pos: &mut usize, depth: usize) -> Option<Vec<Node>> {
    let mut out = vec![];
    while *pos < toks.len() {
        let t = toks[*pos];
        if CLOSERS.contains(&t) {
            return if depth == 0 { None } else { Some(out) };
        }
        *pos += 1;
        if t.starts_with("lr(") {
            let kids = parse_nodes(toks, pos, depth + 1)?;
            if *pos >= toks.len() {
                return None;
            }
            let close = toks[*pos];
            *pos += 1;
            let want = match t {
                "lr((" => "))",
                "lr({" => "})",
                "lr([" => "])",
                "lr(angle.l" => "angle.r)",
                "lr(\\$" => "\\$)",
                _ => return None,
            };
            if close != want {
                return None;
            }
            out.push(Node::Group(t.to_string(), kids, close.to_string()));
        } else {
            out.push(Node::Tok(t.to_string()));
        }
    }
    if depth == 0 {
        Some(out)
    } else {
        None
    }
}

fn split_at<'a>(kids: &'a [Node], is_sep: &dyn Fn(&str) -> bool) -> Vec<&'a [Node]> {
    let mut out = vec![];
    let mut start = 0;
    for (i, k) in kids.iter().enumerate() {
        if let Node::Tok(t) = k {
            if is_sep(t) {
                out.push(&kids[start..i]);
                start = i + 1;
            }
        }
    }
    out.push(&kids[start..]);
    out
}

fn canon_seq(ns: &[Node]) -> String {
    ns.iter().map(canon_node).collect::<Vec<_>>().join(" ")
}

fn canon_node(n: &Node) -> String {
    match n {
        Node::Tok(t) => t.clone(),
        Node::Group(open, kids, close) => {
            let sorted_items = |items: Vec<&[Node]>, sep: &str, sort: bool| -> String {
                let mut v: Vec<String> = items.into_iter().map(canon_seq).collect();
                if sort {
                    v.sort();
                }
                v.join(&format!(" {} ", sep))
            };
            let body = match open.as_str() {
                "lr({" | "lr([" => {
                    if kids.is_empty() {
                        String::new()
                    } else {
                        sorted_items(split_at(kids, &|t| t == "space"), "space", true)
                    }
                }
                "lr((" => match kids.first() {
                    Some(Node::Tok(c)) if CONNECTERS.contains(&c.as_str()) => {
                        // prefix layout: connecter space c1 space c2 ...
                        let rest = &kids[1..];
                        let rest = match rest.first() {
                            Some(Node::Tok(s)) if s == "space" => &rest[1..],
                            _ => rest,
                        };
                        let items = if rest.is_empty() { String::new() } else { sorted_items(split_at(rest, &|t| t == "space"), "space", UNORDERED_CONNECTERS.contains(&c.as_str())) };
                        format!("{} space {}", c, items)
                    }
                    _ => {
                        // infix layout: c1 connecter c2
                        let conn = kids.iter().find_map(|k| match k {
                            Node::Tok(t) if CONNECTERS.contains(&t.as_str()) => Some(t.clone()),
                            _ => None,
                        });
                        match conn {
                            Some(c) => sorted_items(split_at(kids, &|t| t == c), &c, UNORDERED_CONNECTERS.contains(&c.as_str())),
                            None => canon_seq(kids),
                        }
                    }
                },
                "lr(angle.l" => {
                    let cop = kids.iter().find_map(|k| match k {
                        Node::Tok(t) if COPULAS.contains(&t.as_str()) => Some(t.clone()),
                        _ => None,
                    });
                    match cop {
                        Some(c) => sorted_items(split_at(kids, &|t| t == c), &c, SYMMETRIC_COPULAS.contains(&c.as_str())),
                        None => canon_seq(kids), // a truth value
                    }
                }
                _ => canon_seq(kids),
            };
            format!("{} {} {}", open, body, close)
        }
    }
}

/// canonical form of a rendering modulo the order of unordered components; None = not well bracketed
pub fn canon_text(s: &str) -> Option<String> {
    let toks: Vec<&str> = s.split(' ').filter(|t| !t.is_empty()).collect();
    let mut pos = 0;
    let ns = parse_nodes(&toks, &mut pos, 0)?;
    if pos != toks.len() {
        return None;
    }
    Some(canon_seq(&ns))
}

// -------------------------------------------------------------------------------------------
// the run
// -------------------------------------------------------------------------------------------
struct Cx<'a> {
    rep: &'a mut Report,
    cases: Vec<String>,
    /// rendered text -> (canonical value, in K6) and order-insensitive text -> the same
    by_text: HashMap<String, (String, bool)>,
    by_canon_text: HashMap<String, (String, bool)>,
    known_seen: HashMap<String, usize>,
}

fn real(v: &Narsese) -> Option<String> {
    guard(|| FormatterTypst.format(v))
}

fn ws_defects(s: &str) -> Option<&'static str> {
    if s.trim() != s {
        return Some("leading or trailing whitespace");
    }
    let cs: Vec<char> = s.chars().collect();
    if cs.windows(2).any(|w| w[0].is_whitespace() && w[1].is_whitespace()) {
        return Some("doubled whitespace");
    }
    None
}

impl<'a> Cx<'a> {
    fn push(&mut self, case: String, descr: String) {
        self.cases.push(case);
        self.rep.case_descr.push(descr);
        self.rep.evaluations += 1;
    }
    fn fail(&mut self, stream: &str, what: &str, input: String, expected: String, got: String, known: Option<&str>) {
        if let Some(k) = known {
            // a known class is listed a few times only; the rest is counted
            let n = self.known_seen.entry(k.to_string()).or_insert(0);
            *n += 1;
            if *n > 6 {
                self.rep.hist.add(format!("known-class failures not listed:{}", k));
                return;
            }
        }
        self.rep.fail(Failure { stream: stream.into(), what: what.into(), input, expected, got, known: known.map(|s| s.to_string()) });
    }
    /// correspondence case for a whole value; returns the real rendering
    fn value_case(&mut self, v: &Narsese, model: bool) -> Option<String> {
        let r = real(v);
        if model {
            self.push(format!("TyValue {} {} {}", cnarsese(v), shown_table(v), copt(&r, |s| cstr(s))), format!("typst {}", canon_narsese(v)));
        } else {
            self.rep.evaluations += 1;
        }
        r
    }
    /// register a rendering of a well-formed value in the collision tables
    fn register(&mut self, stream: &str, v: &Narsese, text: &str) {
        let canon = canon_narsese(v);
        let in_k6 = k6(v.get_term());
        let mut literal = false;
        if let Some((other, ok6)) = self.by_text.get(text).cloned() {
            if other != canon {
                literal = true;
                let known = if in_k6 || ok6 { Some("K6") } else { None };
                self.fail(stream, "two values that are not semantically equal render to the same text", format!("{}  AND  {}", other, canon), "different renderings".into(), text.to_string(), known);
            }
        } else {
            self.by_text.insert(text.to_string(), (canon.clone(), in_k6));
        }
        match canon_text(text) {
            None => self.fail(stream, "rendering of a well-formed value is not well bracketed", canon.clone(), "balanced lr( .. ) groups".into(), text.to_string(), None),
            Some(ct) => {
                if let Some((other, ok6)) = self.by_canon_text.get(&ct).cloned() {
                    if other != canon && !literal {
                        let known = if in_k6 || ok6 { Some("K6") } else { None };
                        self.fail(stream, "two values that are not semantically equal render alike up to the order of unordered components", format!("{}  AND  {}", other, canon), "different renderings".into(), text.to_string(), known);
                    }
                } else {
                    self.by_canon_text.insert(ct, (canon, in_k6));
                }
            }
        }
    }
    /// the property itself on one well-formed value
    fn check_value(&mut self, stream: &str, v: &Narsese, rng: &mut Rng, model: bool, g: &TermGen) {
        let Some(s) = self.value_case(v, model) else {
            self.fail(stream, "Typst rendering panicked", canon_narsese(v), "a string".into(), "PANIC".into(), None);
            return;
        };
        if let Some(d) = ws_defects(&s) {
            self.fail(stream, d, canon_narsese(v), "no leading, trailing or doubled whitespace".into(), format!("{:?}", s), None);
        }
        self.rep.note_distinct(&canon_narsese(v));
        self.register(stream, v, &s);
        let ct = canon_text(&s);
        // the same value along other construction histories (insertion orders, duplicates, swapped symmetric operands)
        for _ in 0..2 {
            let v2 = with_term(v, rebuild(v.get_term(), rng));
            if v2 != *v {
                self.rep.hist.add("rebuild-not-equal (C06 territory)");
                continue;
            }
            self.rep.evaluations += 1;
            match real(&v2) {
                None => self.fail(stream, "Typst rendering panicked (rebuilt value)", canon_narsese(&v2), "a string".into(), "PANIC".into(), None),
                Some(s2) => {
                    if s2 != s {
                        self.rep.hist.add("equal values, different order");
                    }
                    if canon_text(&s2) != ct {
                        self.fail(stream, "equal values render differently (beyond the order of unordered components)", canon_narsese(v), s.clone(), s2, None);
                    }
                }
            }
        }
        // a value differing in one constructor / arity / index / name
        let w = with_term(v, perturb(v.get_term(), rng, g));
        if wf_value(&w) && canon_narsese(&w) != canon_narsese(v) {
            self.rep.evaluations += 1;
            if let Some(sw) = real(&w) {
                let known = if k6(v.get_term()) || k6(w.get_term()) { Some("K6") } else { None };
                if sw == s {
                    self.fail(stream, "two values that are not semantically equal render to the same text", format!("{}  AND  {}", canon_narsese(v), canon_narsese(&w)), "different renderings".into(), s.clone(), known);
                } else if canon_text(&sw) == ct && ct.is_some() {
                    self.fail(stream, "two values that are not semantically equal render alike up to the order of unordered components", format!("{}  AND  {}", canon_narsese(v), canon_narsese(&w)), "different renderings".into(), format!("{}  AND  {}", s, sw), known);
                }
                self.register(stream, &w, &sw);
            }
        }
    }
}

fn wild_float(rng: &mut Rng) -> f64 {
    match rng.below(12) {
        0 => f64::NAN,
        1 => f64::INFINITY,
        2 => f64::NEG_INFINITY,
        3 => -1.0,
        4 => 2.0,
        5 => 1e300,
        6 => -0.0,
        7 => 5e-324,
        8 => -1e-7,
        9 => f64::from_bits(rng.next()),
        _ => gen_float(rng),
    }
}

fn wild_sentence(rng: &mut Rng, term: Term) -> Sentence {
    let tr = match rng.below(3) {
        0 => Truth::Empty,
        1 => Truth::Single(wild_float(rng)),
        _ => Truth::Double(wild_float(rng), wild_float(rng)),
    };
    let st = gen_stamp(rng);
    match rng.below(4) {
        0 => Sentence::Judgement(term, tr, st),
        1 => Sentence::Goal(term, tr, st),
        2 => Sentence::Question(term, st),
        _ => Sentence::Quest(term, st),
    }
}

pub fn run_c16(o: &Opts) -> Report {
    let mut rep = Report::new(
        "C16",
        "enum values: every constructor on top as term / sentence / task, every compound constructor at arities 0-4 (set / infix / prefix layout), every image index 0..=len (+ beyond), nesting, name alphabets incl. \\u{..}-escaped name characters, boundary floats, extreme stamps; \
         ill-formed stream (whitespace / quotes / backslashes / controls / empty names, placeholders anywhere, NaN / inf / negative floats); punctuation / stamp / truth / budget entry points; post_process_whitespace on arbitrary strings over all 25 White_Space characters; `{:?}` of str: \
         real FormatterTypst.format vs model byte for byte.  On the real code: no panic, no leading / trailing / doubled whitespace, equal values (rebuilt along other insertion orders, duplicates, swapped symmetric operands) render identically up to the order of unordered components (independent bracket-tree reader of the text), \
         collision search: perturbed pairs (one constructor / arity / index / name changed) and a global table over all generated values incl. an exhaustive small scope (8 atoms, every constructor, arity <= 3, every index) must render differently, also up to order (known class K6 filtered by a decidable predicate); \
         distinct = distinct canonical values; non-trivial = all",
    );
    let mut rng = Rng::new(o.seed ^ 0xC16);
    let mut cx = Cx { rep: &mut rep, cases: vec![], by_text: HashMap::new(), by_canon_text: HashMap::new(), known_seen: HashMap::new() };

    // ---- witnesses of the known classes, replayed on the real code --------------------------------
    {
        let a = Narsese::Term(Term::ImageExtension(0, vec![Term::Placeholder, Term::new_word("B")]));
        let b = Narsese::Term(Term::ImageExtension(1, vec![Term::Placeholder, Term::new_word("B")]));
        let (sa, sb) = (real(&a), real(&b));
        let collide = sa.is_some() && sa == sb && a != b;
        cx.rep.hist.add(format!("witness:K6:{}", if collide { "collides" } else { "distinct" }));
        if collide {
            cx.fail("witness", "known-class witness: two unequal images render to the same text", format!("{}  AND  {}", canon_narsese(&a), canon_narsese(&b)), "different renderings".into(), sa.unwrap(), Some("K6"));
        }
        let z = Narsese::Sentence(Sentence::Judgement(Term::new_word("A"), Truth::Single(0.0), Stamp::Eternal));
        let nz = Narsese::Sentence(Sentence::Judgement(Term::new_word("A"), Truth::Single(-0.0), Stamp::Eternal));
        let (sz, snz) = (real(&z), real(&nz));
        let differ = z == nz && sz != snz;
        cx.rep.hist.add(format!("witness:K7:{}", if differ { "equal values render differently" } else { "same" }));
        // not a finding: -0.0 is negative-signed, hence outside the properties' well-formedness (numbers are finite,
        // non-negative-signed, within [0,1]); recorded in the histogram only
        let _ = (differ, sz, snz);
    }

    // ---- std tables -------------------------------------------------------------------------
    let ws = ranges(|c| c.is_whitespace());
    cx.push(format!("TyWsTable {}", cranges(&ws)), "char::is_whitespace ranges of std".into());
    let esc = ranges(|c| debug_of_char(c).starts_with("\\u{"));
    let in_esc = |c: char| esc.iter().any(|(a, b)| *a <= c as u32 && c as u32 <= *b);
    // exhaustive: the shape of `{:?}` for every scalar value is the model's rule
    let mut bad_debug = 0u64;
    let mut first_bad = String::new();
    let mut other_ws_unescaped = 0u64;
    for cp in 0u32..=0x10FFFF {
        if let Some(c) = char::from_u32(cp) {
            let d = debug_of_char(c);
            let e = d.starts_with("\\u{");
            if d != model_esc_char(c, e) {
                bad_debug += 1;
                if first_bad.is_empty() {
                    first_bad = format!("U+{:04X}: {:?}", cp, d);
                }
            }
            if c.is_whitespace() && c != ' ' && d == c.to_string() {
                other_ws_unescaped += 1;
            }
        }
    }
    cx.rep.evaluations += 0x110000 - 0x800;
    cx.rep.extra.push(("debug_rule_violations".into(), bad_debug.to_string()));
    cx.rep.extra.push(("whitespace_other_than_space_left_unescaped_by_debug".into(), other_ws_unescaped.to_string()));
    cx.rep.extra.push(("escaped_ranges".into(), esc.len().to_string()));
    if bad_debug != 0 {
        cx.fail("std-debug", "model assumption: `{:?}` of str escapes char by char with \\0 \\t \\r \\n \\\\ \\\" \\u{hex}", first_bad, "0 violations".into(), bad_debug.to_string(), None);
    }
    if other_ws_unescaped != 0 {
        cx.fail("std-debug", "model assumption: `{:?}` leaves no whitespace other than U+0020 unescaped", "".into(), "0".into(), other_ws_unescaped.to_string(), None);
    }
    // Debug of whole strings (concatenation of the per-char escapes)
    let mut dbg_inputs: Vec<String> = WILD_NAME_POOL.iter().chain(ESCAPED_NAME_POOL.iter()).map(|s| s.to_string()).collect();
    for (a, b) in esc.iter().take(if o.thorough { 400 } else { 60 }) {
        dbg_inputs.push(format!("{}x{}", char::from_u32(*a).unwrap(), char::from_u32(*b).unwrap()));
        if let Some(c) = char::from_u32(b + 1) {
            dbg_inputs.push(c.to_string());
        }
    }
    for _ in 0..(if o.thorough { 400 } else { 60 }) {
        let k = rng.range(1, 5);
        let s: String = (0..k)
            .map(|_| match rng.below(4) {
                0 => char::from_u32(rng.below(0x300) as u32).unwrap_or('a'),
                1 => char::from_u32(rng.below(0x110000) as u32).unwrap_or('b'),
                2 => *rng.pick(&['"', '\\', '\'', ' ', '\t', '\n', '\r', '\0', '{', '}', 'u']),
                _ => (*rng.pick::<&str>(HAN_POOL)).chars().next().unwrap(),
            })
            .collect();
        dbg_inputs.push(s);
    }
    for s in dbg_inputs {
        cx.push(format!("TyDebug {} {}", cstr(&s), cstr(&format!("{:?}", s))), format!("debug {:?}", s));
    }

    // ---- punctuation / stamp / truth / budget entry points -----------------------------------
    for p in [Punctuation::Judgement, Punctuation::Goal, Punctuation::Question, Punctuation::Quest] {
        let r = guard(|| FormatterTypst.format(&p));
        cx.push(format!("TyPunct {} {}", cpunct(&p), copt(&r, |s| cstr(s))), format!("punctuation {:?}", p));
        match &r {
            None => cx.fail("items", "Typst rendering panicked", format!("{:?}", p), "a string".into(), "PANIC".into(), None),
            Some(s) => {
                if let Some(d) = ws_defects(s) {
                    cx.fail("items", d, format!("{:?}", p), "".into(), format!("{:?}", s), None);
                }
            }
        }
    }
    let mut item_texts: HashMap<String, String> = HashMap::new();
    let mut stamps = vec![Stamp::Eternal, Stamp::Past, Stamp::Present, Stamp::Future, Stamp::Fixed(0), Stamp::Fixed(-1), Stamp::Fixed(1), Stamp::Fixed(isize::MAX), Stamp::Fixed(isize::MIN)];
    for _ in 0..20 {
        stamps.push(gen_stamp(&mut rng));
    }
    for st in stamps {
        let r = guard(|| FormatterTypst.format(&st));
        cx.push(format!("TyStamp {} {}", cstamp(&st), copt(&r, |s| cstr(s))), format!("stamp {:?}", st));
        match &r {
            None => cx.fail("items", "Typst rendering panicked", format!("{:?}", st), "a string".into(), "PANIC".into(), None),
            Some(s) => {
                if let Some(d) = ws_defects(s) {
                    cx.fail("items", d, format!("{:?}", st), "".into(), format!("{:?}", s), None);
                }
                let key = format!("stamp:{}", s);
                let me = format!("{:?}", st);
                if let Some(other) = item_texts.get(&key) {
                    if *other != me {
                        cx.fail("items", "two different stamps render to the same text", format!("{} AND {}", other, me), "different".into(), s.clone(), None);
                    }
                }
                item_texts.insert(key, me);
            }
        }
    }
    let n_items = if o.thorough { 200 } else { 40 };
    for i in 0..n_items {
        let wild = i % 4 == 3;
        let tr = if wild { match rng.below(2) { 0 => Truth::Single(wild_float(&mut rng)), _ => Truth::Double(wild_float(&mut rng), wild_float(&mut rng)) } } else { gen_truth(&mut rng) };
        let v = Narsese::Sentence(Sentence::Judgement(Term::Placeholder, tr.clone(), Stamp::Eternal));
        let r = guard(|| FormatterTypst.format(&tr));
        cx.push(format!("TyTruth {} {} {}", ctruth(&tr), shown_table(&v), copt(&r, |s| cstr(s))), format!("truth {:?}", tr));
        let fl: Vec<u64> = floats_of(&v).iter().map(|f| f.to_bits()).collect();
        match &r {
            None => cx.fail("items", "Typst rendering panicked", format!("{:?}", tr), "a string".into(), "PANIC".into(), None),
            Some(s) => {
                if !wild {
                    if let Some(d) = ws_defects(s) {
                        cx.fail("items", d, format!("{:?}", tr), "".into(), format!("{:?}", s), None);
                    }
                    let key = format!("truth:{}", s);
                    let me = format!("{:?}", fl);
                    if let Some(other) = item_texts.get(&key) {
                        if *other != me {
                            cx.fail("items", "two different truth values render to the same text", format!("{} AND {}", other, me), "different".into(), s.clone(), None);
                        }
                    }
                    item_texts.insert(key, me);
                }
            }
        }
        let b = if wild { Budget::Triple(wild_float(&mut rng), wild_float(&mut rng), wild_float(&mut rng)) } else { gen_budget(&mut rng) };
        let v = Narsese::Task(Task::new(Sentence::Question(Term::Placeholder, Stamp::Eternal), b.clone()));
        let r = guard(|| FormatterTypst.format(&b));
        cx.push(format!("TyBudget {} {} {}", cbudget(&b), shown_table(&v), copt(&r, |s| cstr(s))), format!("budget {:?}", b));
        let fl: Vec<u64> = floats_of(&v).iter().map(|f| f.to_bits()).collect();
        match &r {
            None => cx.fail("items", "Typst rendering panicked", format!("{:?}", b), "a string".into(), "PANIC".into(), None),
            Some(s) => {
                if !wild {
                    if let Some(d) = ws_defects(s) {
                        cx.fail("items", d, format!("{:?}", b), "".into(), format!("{:?}", s), None);
                    }
                    let key = format!("budget:{}", s);
                    let me = format!("{:?}", fl);
                    if let Some(other) = item_texts.get(&key) {
                        if *other != me {
                            cx.fail("items", "two different budgets render to the same text", format!("{} AND {}", other, me), "different".into(), s.clone(), None);
                        }
                    }
                    item_texts.insert(key, me);
                }
            }
        }
    }

    // ---- f64::to_string: the hypotheses of the injectivity theorems on the float printer --------
    // (every output is a token; on the well-formed numbers of [0,1] it uses digits, '.', '-' only and is injective)
    {
        let mut seen: HashMap<String, u64> = HashMap::new();
        let mut bad_token = 0u64;
        let mut bad_chars = 0u64;
        let mut collisions = 0u64;
        let mut first = String::new();
        let n_f = if o.thorough { 200_000 } else { 20_000 };
        let mut probe = |f: f64, wf: bool, first: &mut String| {
            let s = f.to_string();
            if s.is_empty() || s.chars().any(|c| c.is_whitespace()) {
                bad_token += 1;
                if first.is_empty() {
                    *first = format!("{:?} -> {:?}", f, s);
                }
            }
            if wf {
                if !s.chars().all(|c| c.is_ascii_digit() || c == '.' || c == '-') {
                    bad_chars += 1;
                    if first.is_empty() {
                        *first = format!("{:?} -> {:?}", f, s);
                    }
                }
                if let Some(b) = seen.get(&s) {
                    if *b != f.to_bits() {
                        collisions += 1;
                        if first.is_empty() {
                            *first = format!("{:016x} and {:016x} -> {:?}", b, f.to_bits(), s);
                        }
                    }
                }
                seen.insert(s, f.to_bits());
            }
        };
        for f in [f64::NAN, f64::INFINITY, f64::NEG_INFINITY, -0.0, 1e300, -1e-300, f64::MAX, f64::MIN_POSITIVE, 5e-324] {
            probe(f, false, &mut first);
        }
        for i in 0..n_f {
            let f = match i % 4 {
                0 => gen_float(&mut rng),
                1 => (rng.next() >> 11) as f64 / (1u64 << 53) as f64,
                2 => f64::from_bits(rng.next() % 0x3FF0_0000_0000_0001),
                _ => {
                    // neighbours: adjacent bit patterns must print differently
                    let b = rng.next() % 0x3FF0_0000_0000_0000;
                    probe(f64::from_bits(b), true, &mut first);
                    f64::from_bits(b + 1)
                }
            };
            probe(f, wf_float(f), &mut first);
        }
        drop(probe);
        cx.rep.evaluations += n_f as u64;
        cx.rep.extra.push(("float_display_not_a_token".into(), bad_token.to_string()));
        cx.rep.extra.push(("float_display_foreign_characters_in_unit_interval".into(), bad_chars.to_string()));
        cx.rep.extra.push(("float_display_collisions_in_unit_interval".into(), collisions.to_string()));
        if bad_token + bad_chars + collisions != 0 {
            cx.fail("std-float", "model assumption: f64::to_string yields a token; on [0,1] only digits '.' '-' and injectively", first, "0 violations".into(), format!("{} / {} / {}", bad_token, bad_chars, collisions), None);
        }
    }

    // ---- post_process_whitespace on arbitrary strings ----------------------------------------
    let ws_chars: Vec<char> = (0u32..=0x10FFFF).filter_map(char::from_u32).filter(|c| c.is_whitespace()).collect();
    let mut posts: Vec<String> = vec!["".into(), " ".into(), "  ".into(), "a".into(), " a ".into(), "a  b".into(), " a  b  ".into(), "\ta\n\nb\r".into(), "a \t b".into(), "\u{3000}a\u{3000}\u{a0}b\u{2028}".into()];
    for c in &ws_chars {
        posts.push(format!("{}a{}{}b{}", c, c, c, c));
        posts.push(format!("a{} b", c));
        posts.push(format!("a {}b", c));
        posts.push(c.to_string());
    }
    let n_post = if o.thorough { 600 } else { 120 };
    for _ in 0..n_post {
        let k = rng.below(12);
        let s: String = (0..k)
            .map(|_| match rng.below(5) {
                0 | 1 => *rng.pick(&ws_chars),
                2 => ' ',
                3 => *rng.pick(&['a', 'b', '"', '\\', '(', ')', '\u{200b}', '\u{feff}', '\u{180e}', '\u{1f980}']),
                _ => char::from_u32(rng.below(0x3100) as u32).unwrap_or('x'),
            })
            .collect();
        posts.push(s);
    }
    for s in posts {
        let r = guard(|| {
            let mut x = s.clone();
            post_process_whitespace(&mut x);
            x
        });
        cx.push(format!("TyPost {} {}", cstr(&s), copt(&r, |x| cstr(x))), format!("post_process {:?}", s));
        match &r {
            None => cx.fail("post", "post_process_whitespace panicked", format!("{:?}", s), "a string".into(), "PANIC".into(), None),
            Some(x) => {
                if let Some(d) = ws_defects(x) {
                    cx.fail("post", d, format!("{:?}", s), "".into(), format!("{:?}", x), None);
                }
                let strip = |y: &str| y.chars().filter(|c| !c.is_whitespace()).collect::<String>();
                if strip(x) != strip(&s) {
                    cx.fail("post", "post_process_whitespace changed non-whitespace characters", format!("{:?}", s), strip(&s), strip(x), None);
                }
            }
        }
    }

    // ---- well-formed values -------------------------------------------------------------------
    let g = c16_gen(if o.thorough { 5 } else { 4 }, 4, false);
    let mut values: Vec<Narsese> = vec![];
    for k in 0..30 {
        for kind in 0..3 {
            values.push(gen_narsese(&mut rng, &g, kind, Some(k)));
        }
    }
    for (i, t) in arity_stream().into_iter().enumerate() {
        values.push(match i % 5 {
            0 => Narsese::Sentence(gen_sentence(&mut rng, t)),
            1 => Narsese::Task(Task::new(gen_sentence(&mut rng, t), gen_budget(&mut rng))),
            _ => Narsese::Term(t),
        });
    }
    for i in 0..o.n {
        let v = gen_narsese(&mut rng, &g, i % 3, None);
        let t = decorate(v.get_term(), &mut rng, ESCAPED_NAME_POOL, 1, 8);
        values.push(with_term(&v, t));
    }
    for v in &values {
        let stream = if wf_value(v) { "values" } else { "ill-formed" };
        cx.rep.hist.add(format!("{}:{}:{}", stream, ["term", "sentence", "task"][kind_of(v)], ctor_name(v.get_term())));
        if wf_value(v) {
            cx.check_value("values", v, &mut rng, true, &g);
        } else {
            // image index beyond the length: only totality and correspondence
            if cx.value_case(v, true).is_none() {
                cx.fail("ill-formed", "Typst rendering panicked", canon_narsese(v), "a string".into(), "PANIC".into(), None);
            }
        }
        if let Some(s) = real(v) {
            cx.rep.sample(s);
        }
    }

    // ---- ill-formed values: totality and correspondence only -----------------------------------
    let gw = c16_gen(4, 4, true);
    let n_wild = (o.n / 2).max(60);
    for i in 0..n_wild {
        let t0 = if rng.chance(1, 5) { gw.atom(&mut rng) } else { gw.term(&mut rng, 0) };
        let t = decorate(&t0, &mut rng, WILD_NAME_POOL, 1, 2);
        let t = if rng.chance(1, 6) { map_term(&t, &mut |x| if x.get_atom_name().is_some() && rng.chance(1, 4) { Some(Term::Placeholder) } else { None }) } else { t };
        let v = match i % 3 {
            0 => Narsese::Term(t),
            1 => Narsese::Sentence(wild_sentence(&mut rng, t)),
            _ => Narsese::Task(Task::new(wild_sentence(&mut rng, t), Budget::Triple(wild_float(&mut rng), gen_float(&mut rng), wild_float(&mut rng)))),
        };
        cx.rep.hist.add(format!("wild:{}", ["term", "sentence", "task"][kind_of(&v)]));
        if cx.value_case(&v, true).is_none() {
            cx.fail("wild", "Typst rendering panicked", canon_narsese(&v), "a string".into(), "PANIC".into(), None);
        }
    }

    // ---- exhaustive small scope for the collision search (real code only) -----------------------
    let atoms: Vec<Term> = vec![
        Term::new_word("a"), Term::new_word("b"), Term::new_variable_independent("a"), Term::new_variable_dependent("a"),
        Term::new_variable_query("a"), Term::new_operator("a"), Term::new_interval(1), Term::Placeholder,
    ];
    let mut lists: Vec<Vec<Term>> = vec![vec![]];
    let mut frontier: Vec<Vec<Term>> = vec![vec![]];
    for _ in 0..3 {
        let mut next = vec![];
        for l in &frontier {
            for a in &atoms {
                let mut l2 = l.clone();
                l2.push(a.clone());
                next.push(l2);
            }
        }
        lists.extend(next.iter().cloned());
        frontier = next;
    }
    let mut small: Vec<Term> = atoms.clone();
    for kind in 7..30 {
        for l in &lists {
            let idxs: Vec<usize> = if kind == 14 || kind == 15 { (0..=l.len()).collect() } else { vec![0] };
            for idx in idxs {
                if let Some(t) = build(kind, l.clone(), idx) {
                    small.push(t);
                }
            }
        }
    }
    cx.rep.extra.push(("small_scope_terms".into(), small.len().to_string()));
    for t in &small {
        let v = Narsese::Term(t.clone());
        cx.rep.evaluations += 1;
        match real(&v) {
            None => cx.fail("small-scope", "Typst rendering panicked", canon_narsese(&v), "a string".into(), "PANIC".into(), None),
            Some(s) => {
                if let Some(d) = ws_defects(&s) {
                    cx.fail("small-scope", d, canon_narsese(&v), "".into(), format!("{:?}", s), None);
                }
                cx.register("small-scope", &v, &s);
            }
        }
    }
    // second level: small terms as components
    let n2 = if o.thorough { 20000 } else { 3000 };
    for _ in 0..n2 {
        let kind = 7 + rng.below(23);
        let k = rng.range(1, 3);
        let comps: Vec<Term> = (0..k).map(|_| rng.pick(&small).clone()).collect();
        let idx = rng.below(k + 1);
        if let Some(t) = build(kind, comps, idx) {
            let v = Narsese::Term(t);
            cx.rep.evaluations += 1;
            if let Some(s) = real(&v) {
                cx.register("small-scope-2", &v, &s);
            }
        }
    }

    let cases = std::mem::take(&mut cx.cases);
    let extra_defs = format!("Definition esc_ranges : list (N * N) := {}.\n", cranges(&esc));
    let _ = in_esc;
    rep.shards = write_shards(&o.outdir, "C16", "Nv.Run.TypstRun", "mismatches_typst esc_ranges", "tycase", "N_scope", &cases, o.shards, &extra_defs).unwrap();
    rep
}
