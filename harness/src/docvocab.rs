//! The vocabulary AS DOCUMENTED, searched on the real code.
//!
//! `tools/translate.py` (table T2d) reads the same-line comments of the lexical format instances
//! (`"{--" // 实例`): the library's own attribution of a keyword to a constructor, and its only documentation of the
//! LaTeX and Han vocabularies.  The obligation `documented_vocabulary_agrees` (Props/Tie.v) compares them with the enum
//! tables; THIS module is the search for a concrete failing input when they stop agreeing: for every documented keyword
//! it writes the smallest text using it (statement / compound / set / sentence) with the format's own brackets and
//! separators and checks that BOTH pipelines (enum parser; lexical parser + fold) read the documented constructor --
//! C10's "mean what the documentation says", C03's "same vocabulary for every constructor".
//!
//! The table arrives in the file named by the environment variable NVH_LEXDOC (written by `./check` from the
//! translator's output), one entry per line: `FORMAT_X <TAB> field <TAB> code points separated by commas`.
//! No file: nothing is done (the stream is then absent from the histogram).
use crate::enumgen::{canon_narsese, formats, Fm};
use crate::enumprops::{real_lexfold, real_parse};
use crate::util::{Failure, Report};
use narsese::enum_narsese::{Narsese, Sentence, Stamp, Term};
use std::collections::HashSet;

fn b(t: Term) -> Box<Term> {
    Box::new(t)
}
fn set(ts: Vec<Term>) -> HashSet<Term> {
    ts.into_iter().collect()
}
fn w(s: &str) -> Term {
    Term::Word(s.to_string())
}

/// (text, expected value) for one documented entry, built from the variants directly (not through the constructors,
/// which a change may have touched)
fn case(fm: &Fm, field: &str, kw: &str) -> Option<(String, Narsese)> {
    let e = fm.e;
    let (a, c) = (w("A"), w("B"));
    let sp = e.space.format_terms;
    let stmt = |t: Term| {
        Some((
            format!("{}A{sp}{kw}{sp}B{}", e.statement.brackets.0, e.statement.brackets.1),
            Narsese::Term(t),
        ))
    };
    let comp = |operands: &[&str], t: Term| {
        let sep = format!("{}{}", e.compound.separator, sp);
        Some((
            format!("{}{kw}{sep}{}{}", e.compound.brackets.0, operands.join(&sep), e.compound.brackets.1),
            Narsese::Term(t),
        ))
    };
    let ph = format!("{}", e.atom.prefix_placeholder);
    let ext = |t: Term| Term::SetExtension(set(vec![t]));
    let int = |t: Term| Term::SetIntension(set(vec![t]));
    match field {
        "statement_copula_inheritance" => stmt(Term::Inheritance(b(a), b(c))),
        "statement_copula_similarity" => stmt(Term::Similarity(b(a), b(c))),
        "statement_copula_implication" => stmt(Term::Implication(b(a), b(c))),
        "statement_copula_equivalence" => stmt(Term::Equivalence(b(a), b(c))),
        "statement_copula_instance" => stmt(Term::Inheritance(b(ext(a)), b(c))),
        "statement_copula_property" => stmt(Term::Inheritance(b(a), b(int(c)))),
        "statement_copula_instance_property" => stmt(Term::Inheritance(b(ext(a)), b(int(c)))),
        "statement_copula_implication_predictive" => stmt(Term::ImplicationPredictive(b(a), b(c))),
        "statement_copula_implication_concurrent" => stmt(Term::ImplicationConcurrent(b(a), b(c))),
        "statement_copula_implication_retrospective" => stmt(Term::ImplicationRetrospective(b(a), b(c))),
        "statement_copula_equivalence_predictive" => stmt(Term::EquivalencePredictive(b(a), b(c))),
        "statement_copula_equivalence_concurrent" => stmt(Term::EquivalenceConcurrent(b(a), b(c))),
        // a retrospective equivalence is the predictive one with the operands swapped (C10)
        "statement_copula_equivalence_retrospective" => stmt(Term::EquivalencePredictive(b(c), b(a))),
        "compound_connecter_intersection_extension" => comp(&["A", "B"], Term::IntersectionExtension(set(vec![a, c]))),
        "compound_connecter_intersection_intension" => comp(&["A", "B"], Term::IntersectionIntension(set(vec![a, c]))),
        "compound_connecter_difference_extension" => comp(&["A", "B"], Term::DifferenceExtension(b(a), b(c))),
        "compound_connecter_difference_intension" => comp(&["A", "B"], Term::DifferenceIntension(b(a), b(c))),
        "compound_connecter_product" => comp(&["A", "B"], Term::Product(vec![a, c])),
        "compound_connecter_image_extension" => comp(&["A", ph.as_str(), "B"], Term::ImageExtension(1, vec![a, c])),
        "compound_connecter_image_intension" => comp(&["A", ph.as_str(), "B"], Term::ImageIntension(1, vec![a, c])),
        "compound_connecter_conjunction" => comp(&["A", "B"], Term::Conjunction(set(vec![a, c]))),
        "compound_connecter_disjunction" => comp(&["A", "B"], Term::Disjunction(set(vec![a, c]))),
        "compound_connecter_negation" => comp(&["A"], Term::Negation(b(a))),
        "compound_connecter_conjunction_sequential" => comp(&["A", "B"], Term::ConjunctionSequential(vec![a, c])),
        "compound_connecter_conjunction_parallel" => comp(&["A", "B"], Term::ConjunctionParallel(set(vec![a, c]))),
        "sentence_punctuation_judgement" | "sentence_punctuation_goal" | "sentence_punctuation_question" | "sentence_punctuation_quest" => {
            use narsese::enum_narsese::Truth;
            let s = match field {
                "sentence_punctuation_judgement" => Sentence::Judgement(a, Truth::Empty, Stamp::Eternal),
                "sentence_punctuation_goal" => Sentence::Goal(a, Truth::Empty, Stamp::Eternal),
                "sentence_punctuation_question" => Sentence::Question(a, Stamp::Eternal),
                _ => Sentence::Quest(a, Stamp::Eternal),
            };
            // term and punctuation are compared (below); the truth slot is not what this stream is about
            Some((format!("A{}{kw}", e.space.format_items), Narsese::Sentence(s)))
        }
        _ => None,
    }
}

/// term + punctuation of a sentence, the rest ignored (the truth slot of a judgement without a written truth is
/// format-independent and not what this stream is about)
fn key(v: &Narsese) -> String {
    use narsese::api::{GetPunctuation, GetTerm};
    match v {
        Narsese::Sentence(s) => format!("S:{}{:?}", canon_narsese(&Narsese::Term(s.get_term().clone())), s.get_punctuation()),
        other => canon_narsese(other),
    }
}

pub fn extend(rep: &mut Report) {
    let path = match std::env::var("NVH_LEXDOC") {
        Ok(p) => p,
        Err(_) => return,
    };
    let text = match std::fs::read_to_string(&path) {
        Ok(t) => t,
        Err(_) => return,
    };
    let fms = formats();
    for line in text.lines() {
        let parts: Vec<&str> = line.split('\t').collect();
        if parts.len() != 3 {
            continue;
        }
        let fm = match fms.iter().find(|f| format!("FORMAT_{}", f.name.to_uppercase()) == parts[0]) {
            Some(f) => f,
            None => continue,
        };
        let kw: String = parts[2].split(',').filter(|x| !x.is_empty()).filter_map(|x| x.parse::<u32>().ok()).filter_map(char::from_u32).collect();
        let (input, want) = match case(fm, parts[1], &kw) {
            Some(x) => x,
            None => continue,
        };
        rep.hist.add(format!("documented-vocabulary/{}", fm.name));
        for (pipe, got) in [("enum parser", real_parse(fm.e, &input)), ("lexical parser + fold", real_lexfold(fm, &input))] {
            rep.evaluations += 1;
            let shown = match &got {
                Ok(Some(v)) => key(v),
                Ok(None) => "Err".to_string(),
                Err(()) => "PANIC".to_string(),
            };
            if shown != key(&want) {
                rep.fail(Failure {
                    stream: "documented-vocabulary".into(),
                    what: format!(
                        "[{}] the keyword the lexical format instance documents as `{}` (same-line comment) is not read as that constructor by the {}",
                        fm.name, parts[1], pipe
                    ),
                    input: input.clone(),
                    expected: key(&want),
                    got: shown,
                    known: None,
                });
            }
        }
    }
}
