//! nvh: harness of the correspondence check.  `nvh <property> --seed S --n N --out DIR [--thorough] [--shards K]`
//! runs the real library on generated cases, evaluates the property itself on the real code,
//! and writes (a) Coq case files on which the model is evaluated and compared, (b) result_<prop>.json.
mod c13;
mod coqw;
mod docvocab;
mod dumpfmt;
mod enumgen;
mod enumprops;
mod foldprops;
mod gen;
mod lexprops;
mod prng;
mod readmeprops;
mod ser;
mod termprops;
mod typstprops;
mod unicode;
mod util;
mod wf;

use util::Opts;

fn main() {
    let args: Vec<String> = std::env::args().collect();
    if args.len() < 2 {
        eprintln!("usage: nvh <property> [--seed S] [--n N] [--out DIR] [--thorough] [--shards K] [--replay FILE]");
        std::process::exit(2);
    }
    let prop = args[1].clone();
    if prop == "dump-unicode" {
        unicode::dump(&args[2]).expect("dump unicode");
        return;
    }
    if prop == "dump-formats" {
        dumpfmt::dump(&args[2]).expect("dump formats");
        return;
    }
    let mut o = Opts { seed: 1, n: 400, outdir: "/verif/_build/run".into(), thorough: false, shards: 16, replay: None };
    let mut i = 2;
    while i < args.len() {
        match args[i].as_str() {
            "--seed" => { o.seed = args[i + 1].parse().expect("seed"); i += 1; }
            "--n" => { o.n = args[i + 1].parse().expect("n"); i += 1; }
            "--out" => { o.outdir = args[i + 1].clone(); i += 1; }
            "--shards" => { o.shards = args[i + 1].parse().expect("shards"); i += 1; }
            "--replay" => { o.replay = Some(args[i + 1].clone()); i += 1; }
            "--thorough" => o.thorough = true,
            x => { eprintln!("unknown argument {x}"); std::process::exit(2); }
        }
        i += 1;
    }
    util::silence_panics();
    let rep = match prop.as_str() {
        "C13" => c13::run(&o),
        "C06" => termprops::run_c06(&o),
        "C07" => termprops::run_c07(&o),
        "C14" => termprops::run_c14(&o),
        "C17" => termprops::run_c17(&o),
        "C01" => enumprops::run_c01(&o),
        "C04" => enumprops::run_c04(&o),
        "C08" => enumprops::run_c08(&o),
        "C09" => enumprops::run_c09(&o),
        "C10" => enumprops::run_c10(&o),
        "C12" => enumprops::run_c12(&o),
        "C15" => enumprops::run_c15(&o),
        "C03" => foldprops::run_c03(&o),
        "C05F" => foldprops::run_c05fold(&o),
        "C02" => lexprops::run_c02(&o),
        "C05" => lexprops::run_c05(&o),
        "C11" => readmeprops::run_c11(&o),
        "C16" => typstprops::run_c16(&o),
        _ => { eprintln!("unknown property {prop}"); std::process::exit(2); }
    };
    let mut rep = rep;
    if prop == "C10" || prop == "C03" {
        // the vocabulary as documented (comments of the lexical format instances), searched on the real code
        docvocab::extend(&mut rep);
    }
    rep.write(&o.outdir).expect("write report");
    println!("{}: {} evaluations, {} distinct, {} failures, {} shards", rep.prop, rep.evaluations, rep.distinct.len(), rep.failures.len(), rep.shards.len());
}
