//! Correspondence streams and real-code property search for the enum string-conversion
//! properties C01 C04 C08 C09 C10 C12 C15 (model: Model/EnumFormatter.v, Model/EnumParser.v).
use crate::coqw::*;
use crate::enumgen::*;
use crate::gen::*;
use crate::prng::Rng;
use crate::ser::*;
use crate::util::*;
use narsese::api::{CastToTask, GetBudget, GetPunctuation, GetStamp, GetTerm, GetTruth, TryCastToSentence};
use narsese::conversion::inter_type::lexical_fold::TryFoldInto;
use narsese::conversion::string::impl_enum::NarseseFormat;
use narsese::enum_narsese::{Budget, Narsese, Punctuation, Sentence, Stamp, Task, Term, Truth};

// -------------------------------------------------------------------------------------------
// running the real parser
// -------------------------------------------------------------------------------------------
/// Ok(Some(v)) parsed, Ok(None) error (and the error could be displayed), Err(()) panic
pub type PR<T> = Result<Option<T>, ()>;

/// breadcrumb for crashes that cannot be caught (abort, stack overflow): the input about to be parsed
pub fn crumb(what: &str, s: &str) {
    if let Ok(path) = std::env::var("NVH_BREADCRUMB") {
        let _ = std::fs::write(path, format!("{} {:?}", what, s));
    }
}

pub fn real_parse(e: &'static EFmt, s: &str) -> PR<Narsese> {
    crumb("enum parse", s);
    guard(|| match e.parse::<Narsese>(s) {
        Ok(v) => Some(v),
        Err(err) => {
            let _ = format!("{}", err);
            let _ = format!("{:?}", err);
            None
        }
    })
    .ok_or(())
}
/// index and env_slice of the ParseError of a rejected input, read from its (derived) Debug output
/// `ParseError { message: "..", env_slice: ['a', '\n'], index: 3 }` (the fields are private)
pub fn real_parse_error_at(e: &'static EFmt, s: &str) -> Option<(usize, Vec<char>)> {
    let d = guard(|| e.parse::<Narsese>(s).err().map(|err| format!("{:?}", err)))??;
    parse_error_debug(&d)
}
pub fn parse_error_debug(d: &str) -> Option<(usize, Vec<char>)> {
    let ip = d.rfind("], index: ")?;
    let index: usize = d[ip + 10..].trim_end_matches(|c: char| c == '}' || c == ' ').parse().ok()?;
    let sp = d[..ip].rfind("env_slice: [")?;
    let body: Vec<char> = d[sp + 12..ip].chars().collect();
    let mut out = vec![];
    let mut i = 0;
    while i < body.len() {
        if body[i] != '\'' {
            return None;
        }
        i += 1;
        let c = if *body.get(i)? == '\\' {
            i += 1;
            let e = *body.get(i)?;
            i += 1;
            match e {
                'n' => '\n',
                't' => '\t',
                'r' => '\r',
                '0' => '\0',
                '\\' => '\\',
                '\'' => '\'',
                '"' => '"',
                'u' => {
                    if *body.get(i)? != '{' {
                        return None;
                    }
                    i += 1;
                    let mut v: u32 = 0;
                    while *body.get(i)? != '}' {
                        v = v * 16 + body[i].to_digit(16)?;
                        i += 1;
                    }
                    i += 1;
                    char::from_u32(v)?
                }
                _ => return None,
            }
        } else {
            let c = body[i];
            i += 1;
            c
        };
        out.push(c);
        if *body.get(i)? != '\'' {
            return None;
        }
        i += 1;
        if i < body.len() {
            if body.get(i) != Some(&',') || body.get(i + 1) != Some(&' ') {
                return None;
            }
            i += 2;
        }
    }
    Some((index, out))
}
pub fn real_parse_chars(e: &'static EFmt, s: &str) -> PR<Narsese> {
    guard(|| match e.parse_chars::<Narsese>(s.chars().collect()) {
        Ok(v) => Some(v),
        Err(err) => {
            let _ = format!("{}", err);
            None
        }
    })
    .ok_or(())
}
macro_rules! door {
    ($name:ident, $t:ty) => {
        pub fn $name(e: &'static EFmt, s: &str) -> PR<$t> {
            guard(|| match e.parse::<$t>(s) {
                Ok(v) => Some(v),
                Err(err) => {
                    let _ = format!("{}", err);
                    None
                }
            })
            .ok_or(())
        }
    };
}
door!(real_truth, Truth);
door!(real_budget, Budget);
door!(real_stamp, Stamp);
door!(real_punct, Punctuation);

pub fn real_multi(e: &'static EFmt, inputs: &[String]) -> Result<Vec<Option<Narsese>>, ()> {
    crumb("parse_multi", &format!("{:?}", inputs));
    guard(|| {
        e.parse_multi(inputs.iter().map(|s| s.as_str()))
            .into_iter()
            .map(|r| match r {
                Ok(v) => Some(v),
                Err(err) => {
                    let _ = format!("{}", err);
                    None
                }
            })
            .collect()
    })
    .ok_or(())
}

fn eres<T>(r: &PR<T>, f: impl Fn(&T) -> String) -> String {
    match r {
        Ok(Some(v)) => format!("(EOk {})", f(v)),
        Ok(None) => "EErr".into(),
        Err(()) => "EPanic".into(),
    }
}
fn pr_tag<T>(r: &PR<T>) -> &'static str {
    match r {
        Ok(Some(_)) => "ok",
        Ok(None) => "err",
        Err(()) => "panic",
    }
}
fn canon_pr(r: &PR<Narsese>) -> String {
    match r {
        Ok(Some(v)) => canon_narsese(v),
        Ok(None) => "Err".into(),
        Err(()) => "PANIC".into(),
    }
}

/// lexical parse + fold with the same-named formats
pub fn real_lexfold(fm: &Fm, s: &str) -> PR<Narsese> {
    crumb("lexical parse + fold", s);
    let (e, l) = (fm.e, fm.l);
    guard(|| match l.parse(s) {
        Ok(lv) => match lv.try_fold_into(e) {
            Ok(v) => Some(v),
            Err(err) => {
                let _ = format!("{:?}", err);
                None
            }
        },
        Err(err) => {
            let _ = format!("{}", err);
            None
        }
    })
    .ok_or(())
}

// -------------------------------------------------------------------------------------------
// well-formedness of parser output (C12), independent restatement
// -------------------------------------------------------------------------------------------
fn in01(x: f64) -> bool {
    x >= 0.0 && x <= 1.0
}
pub fn wf_out_term(t: &Term, parser_strict: bool) -> Result<(), String> {
    use Term::*;
    match t {
        Placeholder => Ok(()),
        Word(n) | VariableIndependent(n) | VariableDependent(n) | VariableQuery(n) | Operator(n) => {
            if n.is_empty() {
                Err(format!("empty atom name in {:?}", t))
            } else {
                Ok(())
            }
        }
        Interval(_) => Ok(()),
        ImageExtension(i, v) | ImageIntension(i, v) => {
            if *i > v.len() {
                return Err(format!("image index {} > {} components", i, v.len()));
            }
            for c in v {
                wf_out_term(c, parser_strict)?;
            }
            Ok(())
        }
        _ => {
            let cs = t.get_components();
            if parser_strict && cs.is_empty() {
                return Err(format!("empty compound/set {:?}", t));
            }
            for c in cs {
                wf_out_term(c, parser_strict)?;
            }
            Ok(())
        }
    }
}
pub fn wf_out(v: &Narsese, parser_strict: bool) -> Result<(), String> {
    wf_out_term(v.get_term(), parser_strict)?;
    for f in floats_of(v) {
        if !in01(f) {
            return Err(format!("number {} outside [0,1]", f));
        }
    }
    Ok(())
}
/// formatting in all three formats and Typst must not panic
pub fn printable(v: &Narsese) -> Result<(), String> {
    for fm in formats() {
        if guard(|| fm.e.format_narsese(v)).is_none() {
            return Err(format!("format_narsese panicked in {}", fm.name));
        }
    }
    use narsese::conversion::string::typst_formatter::FormatterTypst;
    if guard(|| FormatterTypst.format(v)).is_none() {
        return Err("typst rendering panicked".into());
    }
    Ok(())
}

// -------------------------------------------------------------------------------------------
// case construction
// -------------------------------------------------------------------------------------------
struct Ctx<'a> {
    rep: &'a mut Report,
    cases: Vec<String>,
    /// cases of the LEXICAL runner (Run/LexRun.v, type `lcase`) and their descriptions: written as a second group of
    /// shards behind the enum cases (C15 only)
    lcases: Vec<String>,
    ldescr: Vec<String>,
}
impl<'a> Ctx<'a> {
    fn push(&mut self, case: String, descr: String) {
        self.cases.push(case);
        self.rep.case_descr.push(descr);
    }
    fn parse_case(&mut self, fm: &Fm, s: &str) -> PR<Narsese> {
        let r = real_parse(fm.e, s);
        // a rejected input is compared together with the position and window of its error (EParseErrAt implies `Err`)
        let at = if matches!(r, Ok(None)) { real_parse_error_at(fm.e, s) } else { None };
        match at {
            Some((index, window)) => {
                self.rep.hist.add("error-position-compared".to_string());
                self.push(format!("EParseErrAt {} {} {} {}", fm.idx, cstr(s), index, cchars(&window)), format!("parse[{}] {:?} (error @ {})", fm.name, s, index));
            }
            None => self.push(format!("EParse {} {} {}", fm.idx, cstr(s), eres(&r, cnarsese)), format!("parse[{}] {:?}", fm.name, s)),
        }
        self.rep.evaluations += 1;
        self.rep.note_distinct(&format!("p{}|{}", fm.idx, s));
        r
    }
    fn fmt_case(&mut self, fm: &Fm, v: &Narsese) -> Option<String> {
        let s = guard(|| fm.e.format_narsese(v))?;
        self.push(format!("EFmt {} {} {} {}", fm.idx, cnarsese(v), shown_table(v), cstr(&s)), format!("format[{}] {}", fm.name, canon_narsese(v)));
        self.rep.evaluations += 1;
        Some(s)
    }
    fn fail(&mut self, stream: &str, what: &str, input: String, expected: String, got: String, known: Option<&str>) {
        self.rep.fail(Failure { stream: stream.into(), what: what.into(), input, expected, got, known: known.map(|s| s.to_string()) });
    }
}

fn finish(o: &Opts, prop: &str, mut rep: Report, cases: Vec<String>) -> Report {
    // the shards are contiguous slices of the case list and the streams differ a lot in cost per case (a 40-character
    // Han name against a 3-character fragment): deal the cases round-robin so that the shards take about equally long.
    // Cases and their descriptions are permuted together; a case's number is its position in the written order
    let (cases, descr) = if rep.case_descr.len() == cases.len() && o.shards > 1 {
        let k = o.shards;
        let order: Vec<usize> = (0..k).flat_map(|j| (j..cases.len()).step_by(k)).collect();
        (order.iter().map(|&i| cases[i].clone()).collect::<Vec<_>>(), order.iter().map(|&i| rep.case_descr[i].clone()).collect::<Vec<_>>())
    } else {
        (cases, std::mem::take(&mut rep.case_descr))
    };
    rep.case_descr = descr;
    rep.shards = write_shards(&o.outdir, prop, "Nv.Run.EnumRun", "mismatches_enum", "ecase", "N_scope", &cases, o.shards, "").unwrap();
    rep
}

pub fn value_stream(rng: &mut Rng, fm: &Fm, n: usize, thorough: bool) -> Vec<Narsese> {
    let g = term_gen_for(fm, if thorough { 6 } else { 4 }, if thorough { 5 } else { 4 });
    let mut out = vec![];
    // prefixed atoms with numeric names as whole terms / bare judgements (back-off between budget bracket and variable prefix)
    for name in ["1", "0", "12"] {
        for k in 0..4 {
            let t = match k {
                0 => Term::new_variable_independent(name),
                1 => Term::new_variable_dependent(name),
                2 => Term::new_variable_query(name),
                _ => Term::new_operator(name),
            };
            out.push(Narsese::Term(t.clone()));
            out.push(Narsese::Sentence(Sentence::Judgement(t.clone(), Truth::Empty, Stamp::Eternal)));
            out.push(Narsese::Sentence(Sentence::Question(t.clone(), Stamp::Eternal)));
            out.push(Narsese::Task(Task::new(Sentence::Goal(t, Truth::Empty, Stamp::Eternal), Budget::Empty)));
        }
    }
    // a bare placeholder directly before / after every copula (the one atom whose name may be empty)
    for k in 21..30 {
        let a = g.atom(rng);
        let t = g.term_of(rng, 3, k);
        let cs = t.get_components();
        let _ = cs;
        let (l, r) = (Term::Placeholder, a.clone());
        let mk = |x: Term, y: Term| match k {
            21 => Term::new_inheritance(x, y),
            22 => Term::new_similarity(x, y),
            23 => Term::new_implication(x, y),
            24 => Term::new_equivalence(x, y),
            25 => Term::new_implication_predictive(x, y),
            26 => Term::new_implication_concurrent(x, y),
            27 => Term::new_implication_retrospective(x, y),
            28 => Term::new_equivalence_predictive(x, y),
            _ => Term::new_equivalence_concurrent(x, y),
        };
        out.push(Narsese::Term(mk(l.clone(), r.clone())));
        out.push(Narsese::Sentence(Sentence::Judgement(mk(r, l), Truth::Empty, Stamp::Eternal)));
    }
    // one wide value: > 128 non-atomic components in one compound (depth counters, recursion guards)
    {
        let items: Vec<Term> = (0..140).map(|i| if i % 2 == 0 { Term::new_set_extension(vec![Term::new_word(format!("w{}", i))]) } else { Term::new_inheritance(Term::new_word(format!("s{}", i)), Term::new_word("p")) }).collect();
        out.push(Narsese::Term(Term::new_product(items.clone())));
        out.push(Narsese::Sentence(Sentence::Question(Term::new_conjunction(items), Stamp::Eternal)));
    }
    // every constructor on top, as term / sentence / task
    for k in 0..30 {
        out.push(gen_narsese(rng, &g, k % 3, Some(k)));
    }
    for i in 0..n {
        out.push(gen_narsese(rng, &g, i % 3, None));
    }
    out
}

// -------------------------------------------------------------------------------------------
// C01: format then parse
// -------------------------------------------------------------------------------------------
pub fn run_c01(o: &Opts) -> Report {
    let mut rep = Report::new(
        "C01",
        "well-formed enum values (all 30 constructors on top, nesting, per-format adversarial name alphabets, boundary floats, extreme stamps, all truth/budget arities) x 3 formats: \
         real format_narsese vs model byte for byte; real parse of the formatted string vs model parse; on the real code: parse(format(v)) has the same kind and canonical form as v (known classes K1-K3 filtered by decidable predicates); compact values on a fresh thread after inputs of each other format; \
         distinct = distinct (format, canonical value); non-trivial = compound or sentence/task",
    );
    let mut rng = Rng::new(o.seed ^ 0xC01);
    let mut cx = Ctx { rep: &mut rep, cases: vec![], lcases: vec![], ldescr: vec![] };
    let per = (o.n / 3).max(20);
    for fm in formats() {
        for v in value_stream(&mut rng, &fm, per, o.thorough) {
            let Some(s) = cx.fmt_case(&fm, &v) else {
                cx.fail("values", "formatting a well-formed value panicked", canon_narsese(&v), "".into(), "PANIC".into(), None);
                continue;
            };
            cx.rep.hist.add(format!("{}:{}:{}", fm.name, ["term", "sentence", "task"][kind_of(&v)], ctor_name(v.get_term())));
            if !matches!(v.get_term(), Term::Word(..)) || kind_of(&v) != 0 {
                cx.rep.note_distinct(&format!("{}|{}", fm.idx, canon_narsese(&v)));
            }
            cx.rep.sample(format!("[{}] {}", fm.name, s));
            let r = cx.parse_case(&fm, &s);
            let known = c01_known(fm.e, &v, &s);
            let good = matches!(&r, Ok(Some(w)) if kind_of(w) == kind_of(&v) && canon_narsese(w) == canon_narsese(&v));
            if !good {
                cx.fail("values", "parse(format(v)) differs from v", format!("[{}] {:?} = format of {}", fm.name, s, canon_narsese(&v)), canon_narsese(&v), canon_pr(&r), known);
            } else if let Some(k) = known {
                cx.rep.hist.add(format!("known-class-but-round-trips:{}", k));
            }
        }
    }
    // witnesses of the known classes are replayed on the real code (they must still fail)
    let wit: Vec<(usize, Narsese, &str)> = vec![
        (0, Narsese::Term(Term::ImageExtension(1, vec![Term::Placeholder, Term::new_word("B")])), "K1"),
        (2, Narsese::Term(Term::new_word("预算")), "K2"),
        (2, Narsese::Term(Term::new_implication(Term::new_word("x将"), Term::new_word("y"))), "K3"),
    ];
    for (fi, v, k) in wit {
        let fm = &formats()[fi];
        let s = fm.e.format_narsese(&v);
        let r = real_parse(fm.e, &s);
        let good = matches!(&r, Ok(Some(w)) if canon_narsese(w) == canon_narsese(&v));
        cx.rep.hist.add(format!("witness:{}:{}", k, if good { "round-trips" } else { "fails" }));
        if !good {
            cx.fail("witness", "known-class witness", format!("[{}] {:?}", fm.name, s), canon_narsese(&v), canon_pr(&r), Some(k));
        }
    }
    // images whose recorded index lies BEYOND the component list (constructible through the public variants, outside
    // the property's domain): formatter model vs real formatter only -- the ImageIterator never emits the placeholder
    // then (model mutation testing: `now == idx` at the end of the list weakened to `now <= idx` survived)
    for fm in formats() {
        let g = term_gen_for(&fm, 2, 3);
        for n in 0..3usize {
            for extra in [1usize, 3] {
                let v: Vec<Term> = (0..n).map(|_| g.atom(&mut rng)).collect();
                for t in [Term::ImageExtension(n + extra, v.clone()), Term::ImageIntension(n + extra, v.clone())] {
                    let nested = Term::new_product(vec![g.atom(&mut rng), t.clone()]);
                    for x in [t, nested] {
                        if cx.fmt_case(&fm, &Narsese::Term(x)).is_some() {
                            cx.rep.hist.add(format!("{}:format-only:image-index-beyond-length", fm.name));
                        }
                    }
                }
            }
        }
    }
    // the order in which the formats are used on a thread must not matter
    thread_order_stream(&mut cx, &mut rng, false, false);
    let cases = std::mem::take(&mut cx.cases);
    finish(o, "C01", rep, cases)
}

// -------------------------------------------------------------------------------------------
// C04: totality on malformed input, all entry points
// -------------------------------------------------------------------------------------------
fn malformed_inputs(rng: &mut Rng, fm: &Fm, n: usize, thorough: bool) -> Vec<String> {
    let pool = keyword_pool(fm.e);
    let mut out = stress_inputs(fm.e, rng, 64);
    out.extend(boundary_inputs(fm.e));
    out.extend(item_order_inputs(fm.e));
    let vals = value_stream(rng, fm, n / 4 + 4, thorough);
    for v in &vals {
        let s = fm.e.format_narsese(v);
        // truncation at every prefix length for short inputs
        let chars: Vec<char> = s.chars().collect();
        if chars.len() <= 24 {
            for k in 0..chars.len() {
                out.push(chars[..k].iter().collect());
            }
        }
        let mut m = s.clone();
        for _ in 0..rng.range(1, 3) {
            m = mutate(&m, rng, &pool);
        }
        out.push(m);
        out.push(mutate(&s, rng, &pool));
        if rng.chance(1, 4) {
            out.extend(edge_whitespace(&s));
        }
    }
    out
}

pub fn run_c04(o: &Opts) -> Report {
    let mut rep = Report::new(
        "C04",
        "malformed stream (token / code-point deletion, duplication, transposition, keyword insertion, truncation at every prefix, unbalanced nesting to depth 64, 400-digit runs, 512-char inputs) x 3 formats x entry points \
         parse / parse_chars / parse_multi / Truth / Budget / Stamp / Punctuation doors: real outcome (Ok value | Err | panic) vs model outcome; \
         plus a deterministic stream of error paths with long multi-byte payloads: every atom prefix x names of 1..40 chars made of 1-, 2-, 3-, 4-byte characters at every byte offset (rejected interval names, over-long numbers), bare / nested / in batches, and rejected number lists of truth, budget, fixed stamp, also with characters of every Unicode numeric category (Nd / Nl / No blocks, full-width forms) in the list; compact well-formed texts on fresh threads after each other format (panics only); on the real code: no panic, error Display works; distinct = distinct (format, entry, input); non-trivial = non-empty input",
    );
    let mut rng = Rng::new(o.seed ^ 0xC04);
    let mut cx = Ctx { rep: &mut rep, cases: vec![], lcases: vec![], ldescr: vec![] };
    // corpus: inputs that used to panic (fixed: entries of known_findings.txt) run first
    let corpus: Vec<(usize, &str)> = vec![
        (0, "<(*,(*,(*,(*,(*,a"),
        (1, "\\left<\\left(\\times{}\\; a"),
        (2, "「（积，（积，（积，（积，（积，a"),
        (0, "$1"),
        (0, "A. :! -1:"),
    ];
    for (fi, s) in corpus {
        let fm = &formats()[fi];
        let r = cx.parse_case(fm, s);
        if r.is_err() {
            cx.fail("corpus", "enum parser panicked", format!("[{}] {:?}", fm.name, s), "Ok or Err".into(), "PANIC".into(), None);
        }
    }
    for fm in formats() {
        let inputs = malformed_inputs(&mut rng, &fm, o.n / 3, o.thorough);
        let cap = if o.thorough { usize::MAX } else { 60 };
        for (i, s) in inputs.iter().enumerate() {
            let long = s.chars().count() > cap;
            // the model is evaluated on the short inputs only in the quick tier; the real code on all
            let r = if long { real_parse(fm.e, s) } else { cx.parse_case(&fm, s) };
            cx.rep.evaluations += long as u64;
            cx.rep.hist.add(format!("{}:parse:{}", fm.name, pr_tag(&r)));
            if r.is_err() {
                cx.fail("malformed", "enum parser panicked (parse)", format!("[{}] {:?}", fm.name, s), "Ok or Err".into(), "PANIC".into(), None);
            }
            let rc = real_parse_chars(fm.e, s);
            if canon_pr(&rc) != canon_pr(&r) {
                cx.fail("malformed", "parse_chars differs from parse", format!("[{}] {:?}", fm.name, s), canon_pr(&r), canon_pr(&rc), None);
            }
            if i % 3 == 0 && !long {
                // doors on the same text and on fragments of it
                let frag: String = if rng.chance(1, 2) { s.clone() } else { s.chars().skip(rng.below(s.chars().count() + 1)).collect() };
                let t = real_truth(fm.e, &frag);
                cx.push(format!("EDoorTruth {} {} {}", fm.idx, cstr(&frag), eres(&t, ctruth)), format!("truth door[{}] {:?}", fm.name, frag));
                let b = real_budget(fm.e, &frag);
                cx.push(format!("EDoorBudget {} {} {}", fm.idx, cstr(&frag), eres(&b, cbudget)), format!("budget door[{}] {:?}", fm.name, frag));
                let st = real_stamp(fm.e, &frag);
                cx.push(format!("EDoorStamp {} {} {}", fm.idx, cstr(&frag), eres(&st, cstamp)), format!("stamp door[{}] {:?}", fm.name, frag));
                let p = real_punct(fm.e, &frag);
                cx.push(format!("EDoorPunct {} {} {}", fm.idx, cstr(&frag), eres(&p, |p| cpunct(p).to_string())), format!("punct door[{}] {:?}", fm.name, frag));
                cx.rep.evaluations += 4;
                for (nm, bad) in [("truth", t.is_err()), ("budget", b.is_err()), ("stamp", st.is_err()), ("punctuation", p.is_err())] {
                    cx.rep.hist.add(format!("{}:door-{}:{}", fm.name, nm, if bad { "panic" } else { "no-panic" }));
                    if bad {
                        cx.fail("doors", &format!("stand-alone {} parser panicked", nm), format!("[{}] {:?}", fm.name, frag), "Ok or Err".into(), "PANIC".into(), None);
                    }
                }
            }
        }
        // item fragments through the doors
        let e = fm.e;
        let frags: Vec<String> = vec![
            format!("{}0.5{}0.9{}", e.sentence.truth_brackets.0, e.sentence.truth_separator, e.sentence.truth_brackets.1),
            format!("{}0.5{}0.9", e.sentence.truth_brackets.0, e.sentence.truth_separator),
            format!("{}1.5{}", e.sentence.truth_brackets.0, e.sentence.truth_brackets.1),
            e.sentence.truth_brackets.0.to_string(),
            format!("{}1", e.sentence.truth_brackets.0),
            format!("{}0.5{}0.9{}0.1{}", e.task.budget_brackets.0, e.task.budget_separator, e.task.budget_separator, e.task.budget_brackets.1),
            format!("{}0.5{}", e.task.budget_brackets.0, e.task.budget_separator),
            format!("{}{}{}", e.sentence.stamp_brackets.0, e.sentence.stamp_past, e.sentence.stamp_brackets.1),
            format!("{}{}-12{}", e.sentence.stamp_brackets.0, e.sentence.stamp_fixed, e.sentence.stamp_brackets.1),
            format!("{}{} 12", e.sentence.stamp_brackets.0, e.sentence.stamp_fixed),
            format!("{}{}99999999999999999999", e.sentence.stamp_brackets.0, e.sentence.stamp_fixed),
            format!("{}{}", e.sentence.stamp_brackets.0, e.sentence.stamp_fixed),
            e.sentence.stamp_brackets.0.to_string(),
            e.sentence.punctuation_judgement.to_string(),
            e.sentence.punctuation_quest.to_string(),
            String::new(),
            "x".into(),
        ];
        for f in frags {
            let t = real_truth(e, &f);
            cx.push(format!("EDoorTruth {} {} {}", fm.idx, cstr(&f), eres(&t, ctruth)), format!("truth door[{}] {:?}", fm.name, f));
            let b = real_budget(e, &f);
            cx.push(format!("EDoorBudget {} {} {}", fm.idx, cstr(&f), eres(&b, cbudget)), format!("budget door[{}] {:?}", fm.name, f));
            let st = real_stamp(e, &f);
            cx.push(format!("EDoorStamp {} {} {}", fm.idx, cstr(&f), eres(&st, cstamp)), format!("stamp door[{}] {:?}", fm.name, f));
            let p = real_punct(e, &f);
            cx.push(format!("EDoorPunct {} {} {}", fm.idx, cstr(&f), eres(&p, |p| cpunct(p).to_string())), format!("punct door[{}] {:?}", fm.name, f));
            cx.rep.evaluations += 4;
            if t.is_err() || b.is_err() || st.is_err() || p.is_err() {
                cx.fail("doors", "stand-alone item parser panicked", format!("[{}] {:?}", fm.name, f), "Ok or Err".into(), "PANIC".into(), None);
            }
        }
        // multi-input parsing over malformed inputs
        for _ in 0..(o.n / 30).max(3) {
            let k = rng.range(2, 5);
            let hs: Vec<String> = (0..k).map(|_| rng.pick(&inputs).clone()).filter(|s| s.chars().count() <= cap).collect();
            multi_case(&mut cx, &fm, &hs, "malformed-multi");
        }
        rejected_payload_stream(&mut cx, &fm);
    }
    // the order in which the formats are used on a thread must not matter
    thread_order_stream(&mut cx, &mut rng, false, true);
    let cases = std::mem::take(&mut cx.cases);
    finish(o, "C04", rep, cases)
}

/// Error paths that echo their payload, with LONG and MULTI-BYTE payloads (deterministic, the same in both tiers):
/// rejected atoms (intervals with non-numeric names, over-long numbers) and long names behind every atom prefix, bare
/// and nested, through parse / parse_chars / parse_multi; rejected number lists of truth, budget and fixed stamp, in a
/// sentence and through the stand-alone doors.  (The mutation stream only ever produced short ASCII payloads behind an
/// interval prefix, and multi-byte names of at most a few characters.)
fn rejected_payload_stream(cx: &mut Ctx, fm: &Fm) {
    let e = fm.e;
    fn whole(cx: &mut Ctx, fm: &Fm, s: &str, stream: &str, tag: &str, model: bool) -> PR<Narsese> {
        let e = fm.e;
        // the real code runs on every text; the model on all rejected ones and on half of the accepted long names
        let r = if model { cx.parse_case(fm, s) } else { real_parse(e, s) };
        cx.rep.evaluations += !model as u64;
        cx.rep.hist.add(format!("{}:{}:{}", fm.name, tag, pr_tag(&r)));
        if r.is_err() {
            cx.fail(stream, "enum parser panicked (parse)", format!("[{}] {:?}", fm.name, s), "Ok or Err".into(), "PANIC".into(), None);
        }
        let rc = real_parse_chars(e, s);
        cx.rep.evaluations += 1;
        if rc.is_err() {
            cx.fail(stream, "enum parser panicked (parse_chars)", format!("[{}] {:?}", fm.name, s), "Ok or Err".into(), "PANIC".into(), None);
        }
        if canon_pr(&rc) != canon_pr(&r) {
            cx.fail(stream, "parse_chars differs from parse", format!("[{}] {:?}", fm.name, s), canon_pr(&r), canon_pr(&rc), None);
        }
        r
    }
    let atoms = rejected_atom_inputs(e);
    let mut batch: Vec<String> = vec![];
    for (i, (s, interval)) in atoms.iter().enumerate() {
        whole(cx, fm, s, "rejected-atoms", if *interval { "interval-payload" } else { "name-payload" }, *interval || (i / 2) % 2 == 0);
        // batches of four consecutive texts: all of the interval's, one in five of the others
        if *interval || (i / 4) % 5 == 0 {
            batch.push(s.clone());
            if batch.len() == 4 {
                multi_case(cx, fm, &batch, "rejected-atoms-multi");
                batch.clear();
            }
        }
    }
    if !batch.is_empty() {
        multi_case(cx, fm, &batch, "rejected-atoms-multi");
    }
    let mut items = rejected_number_items(e);
    // characters of every Unicode numeric category inside the number lists
    items.extend(numeric_char_items(e));
    for (i, (kind, item)) in items.iter().enumerate() {
        let s = item_in_sentence(e, *kind, item);
        whole(cx, fm, &s, "rejected-numbers", "number-payload", true);
        let (case, bad) = match kind {
            ItemKind::Truth => {
                let t = real_truth(e, item);
                (format!("EDoorTruth {} {} {}", fm.idx, cstr(item), eres(&t, ctruth)), t.is_err())
            }
            ItemKind::Budget => {
                let b = real_budget(e, item);
                (format!("EDoorBudget {} {} {}", fm.idx, cstr(item), eres(&b, cbudget)), b.is_err())
            }
            ItemKind::Stamp => {
                let st = real_stamp(e, item);
                (format!("EDoorStamp {} {} {}", fm.idx, cstr(item), eres(&st, cstamp)), st.is_err())
            }
        };
        cx.push(case, format!("{:?} door[{}] {:?}", kind, fm.name, item));
        cx.rep.evaluations += 1;
        cx.rep.hist.add(format!("{}:door-{:?}-payload:{}", fm.name, kind, if bad { "panic" } else { "no-panic" }));
        if bad {
            cx.fail("rejected-numbers", &format!("stand-alone {:?} parser panicked", kind), format!("[{}] {:?}", fm.name, item), "Ok or Err".into(), "PANIC".into(), None);
        }
        if i % 16 == 0 {
            let hs: Vec<String> = items[i..(i + 3).min(items.len())].iter().map(|(k, it)| item_in_sentence(e, *k, it)).collect();
            multi_case(cx, fm, &hs, "rejected-numbers-multi");
        }
    }
}

fn multi_case(cx: &mut Ctx, fm: &Fm, hs: &[String], stream: &str) {
    let r = real_multi(fm.e, hs);
    let lit = match &r {
        Ok(v) => format!("(Some {})", clist(v, |x| match x {
            Some(v) => format!("(OOk {})", cnarsese(v)),
            None => "OErr".into(),
        })),
        Err(()) => "None".into(),
    };
    cx.push(format!("EMulti {} {} {}", fm.idx, clist(hs, |s| cstr(s)), lit), format!("parse_multi[{}] {:?}", fm.name, hs));
    cx.rep.evaluations += 1;
    cx.rep.note_distinct(&format!("m{}|{:?}", fm.idx, hs));
    match &r {
        Err(()) => cx.fail(stream, "parse_multi panicked", format!("[{}] {:?}", fm.name, hs), "a result per input".into(), "PANIC".into(), None),
        Ok(v) => {
            if v.len() != hs.len() {
                cx.fail(stream, "parse_multi returned a different number of results", format!("[{}] {:?}", fm.name, hs), hs.len().to_string(), v.len().to_string(), None);
            }
            for (i, (x, s)) in v.iter().zip(hs.iter()).enumerate() {
                let alone = real_parse(fm.e, s);
                let got = match x {
                    Some(v) => canon_narsese(v),
                    None => "Err".into(),
                };
                cx.rep.hist.add(format!("{}:multi-pos{}:{}", fm.name, i.min(4), pr_tag(&alone)));
                if got != canon_pr(&alone) {
                    cx.fail(stream, &format!("parse_multi position {} differs from parsing that input alone", i), format!("[{}] {:?}", fm.name, hs), canon_pr(&alone), got, None);
                }
            }
        }
    }
}

// -------------------------------------------------------------------------------------------
// C08: independence from earlier parses
// -------------------------------------------------------------------------------------------
pub fn run_c08(o: &Opts) -> Report {
    let mut rep = Report::new(
        "C08",
        "histories of 2-8 inputs mixing complete tasks/sentences/terms, budget-only / truth-only / punctuation-only fragments, partial inputs and malformed strings x 3 formats: real parse_multi vs model parse_multi (one re-targeted state); batches with repeated neighbours (every input -- each subset of the five items around a term, i.e. complete, partial and term-less, the fragments, complete values -- 2 and 3 times in a row, A B A B, A A B B), same-length and prefix neighbours; well-formed inputs of exactly 2^k-1, 2^k, 2^k+1 (k = 8, 12, 15, 16) and 10^n-1, 10^n, 10^n+1 characters alone / parse_chars / inside a batch; compact well-formed texts on a FRESH THREAD after inputs of each other format and interleaved across formats; \
         on the real code: every position equals parsing that input alone, parse_chars equals parse, repeated parsing with the shared static instances gives equal results, lexical parser likewise; distinct = distinct (format, history); non-trivial = history with at least one failing or partial input before the last",
    );
    let mut rng = Rng::new(o.seed ^ 0xC08);
    let mut cx = Ctx { rep: &mut rep, cases: vec![], lcases: vec![], ldescr: vec![] };
    // corpus (fixed finding)
    let fm0 = &formats()[0];
    multi_case(&mut cx, fm0, &["A B".to_string(), ".".into(), "$0.5$ C".into(), "D.".into()], "corpus");
    for fm in formats() {
        let e = fm.e;
        let pool = keyword_pool(e);
        let vals = value_stream(&mut rng, &fm, 30, false);
        let complete: Vec<String> = vals.iter().map(|v| e.format_narsese(v)).filter(|s| s.chars().count() <= 48).collect();
        let mut frags: Vec<String> = vec![
            format!("{}0.5{}", e.task.budget_brackets.0, e.task.budget_brackets.1),
            format!("{}0.5{} C", e.task.budget_brackets.0, e.task.budget_brackets.1),
            format!("{}0.5{}0.9{}", e.sentence.truth_brackets.0, e.sentence.truth_separator, e.sentence.truth_brackets.1),
            format!("A{}B", e.space.parse),
            format!("A {}", e.sentence.punctuation_judgement),
            e.sentence.punctuation_judgement.to_string(),
            e.sentence.punctuation_question.to_string(),
            format!("{}{}{}", e.sentence.stamp_brackets.0, e.sentence.stamp_present, e.sentence.stamp_brackets.1),
            format!("{}0.5{}", e.task.budget_brackets.0, e.task.budget_separator),
            "A".into(),
            "D".to_string() + e.sentence.punctuation_judgement,
            String::new(),
            e.space.parse.to_string(),
            format!("{}A", e.compound.brackets.0),
            format!("{}{}{}A", e.compound.brackets.0, e.compound.connecter_product, e.compound.separator),
        ];
        for _ in 0..10 {
            let s = rng.pick(&complete).clone();
            frags.push(mutate(&s, &mut rng, &pool));
            let c: Vec<char> = s.chars().collect();
            frags.push(c[..rng.below(c.len() + 1)].iter().collect());
        }
        for _ in 0..4 {
            let s = rng.pick(&complete).clone();
            frags.extend(edge_whitespace(&s));
        }
        frags.extend(boundary_inputs(e).into_iter().filter(|_| rng.chance(1, 12)));
        let n_hist = (o.n / 6).max(10);
        for _ in 0..n_hist {
            let k = rng.range(2, if o.thorough { 8 } else { 5 });
            let hs: Vec<String> = (0..k).map(|_| if rng.chance(1, 2) { rng.pick(&frags).clone() } else { rng.pick(&complete).clone() }).collect();
            multi_case(&mut cx, &fm, &hs, "histories");
        }
        // batches with REPEATED and NEARLY EQUAL neighbours (a random history almost never has two equal inputs in a
        // row): every input twice and three times in a row, A B A B, A A B B, B A A; a neighbour of the same length
        // that differs in one character; a proper prefix before / after the full input.  The inputs are every subset
        // of the five items around three terms (complete, PARTIAL -- term + truth, term + stamp, budget + term, which
        // parse to the bare term and leave items over -- and term-less, which are errors), the fragments above and
        // complete formatted values.
        {
            let g = term_gen_for(&fm, 2, 3);
            let mut dup: Vec<String> = vec![];
            let stmt = Term::new_inheritance(g.atom(&mut rng), g.atom(&mut rng));
            let comp = Term::new_product(vec![g.atom(&mut rng), g.atom(&mut rng)]);
            for t in [Term::new_word("A"), stmt, comp] {
                dup.extend(item_subset_inputs(e, &e.format_term(&t), &mut rng));
            }
            dup.extend(frags.iter().cloned());
            dup.extend(complete.iter().take(16).cloned());
            for (i, a) in dup.iter().enumerate() {
                let b = rng.pick(&dup).clone();
                let mut batches: Vec<Vec<String>> = vec![vec![a.clone(); 2], vec![a.clone(); 3], vec![a.clone(), b.clone(), a.clone(), b.clone()]];
                match i % 3 {
                    0 => batches.push(vec![a.clone(), a.clone(), b.clone(), b.clone()]),
                    1 => batches.push(vec![b.clone(), a.clone(), a.clone()]),
                    _ => {}
                }
                let ca: Vec<char> = a.chars().collect();
                if !ca.is_empty() && i % 2 == 0 {
                    // same length, one character replaced (by a character of the same text, or by a digit)
                    let k = rng.below(ca.len());
                    let mut cb = ca.clone();
                    cb[k] = if rng.chance(1, 2) { *rng.pick(&ca) } else { '7' };
                    let near: String = cb.into_iter().collect();
                    batches.push(vec![a.clone(), near.clone(), a.clone()]);
                    // a proper prefix next to the full text, both ways
                    let pre: String = ca[..rng.below(ca.len())].iter().collect();
                    batches.push(vec![pre.clone(), a.clone(), pre.clone()]);
                }
                for hs in batches {
                    cx.rep.hist.add(format!("{}:neighbours:{}", fm.name, if hs.windows(2).any(|w| w[0] == w[1]) { "equal-in-a-row" } else { "alternating-or-near" }));
                    multi_case(&mut cx, &fm, &hs, "repeated-neighbours");
                }
            }
        }
        // repeated parsing, parse_chars, lexical parser
        for s in complete.iter().take(20).chain(frags.iter()) {
            let a = real_parse(e, s);
            let b = real_parse(e, s);
            let c = real_parse_chars(e, s);
            cx.rep.evaluations += 3;
            if canon_pr(&a) != canon_pr(&b) {
                cx.fail("repeat", "parsing the same input twice gives different results", format!("[{}] {:?}", fm.name, s), canon_pr(&a), canon_pr(&b), None);
            }
            if canon_pr(&a) != canon_pr(&c) {
                cx.fail("repeat", "parse_chars differs from parse", format!("[{}] {:?}", fm.name, s), canon_pr(&a), canon_pr(&c), None);
            }
            let l1 = guard(|| fm.l.parse(s).ok());
            let _ = guard(|| fm.l.parse("$0.5$ <A --> B>. :|: %1.0;0.9%"));
            let l2 = guard(|| fm.l.parse(s).ok());
            if l1 != l2 {
                cx.fail("repeat", "lexical parser: same input, different results", format!("[{}] {:?}", fm.name, s), format!("{:?}", l1), format!("{:?}", l2), None);
            }
        }
    }
    // inputs AT SIZE THRESHOLDS: well-formed judgements of exactly 2^k - 1, 2^k, 2^k + 1 (k = 8, 12, 15, 16) and
    // 10^n - 1, 10^n, 10^n + 1 characters (blank padding behind / in front / inside, one long name, many components),
    // alone, through parse_chars and inside a batch: every entry point has its own copy of whatever guards the length.
    // The model runs on the batches of the short ones only.
    {
        let mut lens: Vec<usize> = vec![];
        for k in [8u32, 12, 15, 16] {
            lens.extend([(1usize << k) - 1, 1 << k, (1 << k) + 1]);
        }
        for n in if o.thorough { 2..=5u32 } else { 2..=4u32 } {
            lens.extend([10usize.pow(n) - 1, 10usize.pow(n), 10usize.pow(n) + 1]);
        }
        lens.sort();
        let fms = formats();
        for &len in lens.iter() {
            for how in 0..5usize {
                for fm in fms.iter() {
                    let Some(s) = sized_text(fm.e, len, how) else { continue };
                    let short = format!("A{}", fm.e.sentence.punctuation_judgement);
                    let hs = vec![short.clone(), s.clone(), short];
                    cx.rep.hist.add(format!("{}:size-threshold:{}", fm.name, if len <= 101 || (len <= 257 && how == 0) { "model+code" } else { "code" }));
                    if len <= 101 || (len <= 257 && how == 0) {
                        multi_case(&mut cx, fm, &hs, "size-thresholds");
                    }
                    let alone = real_parse(fm.e, &s);
                    let chars = real_parse_chars(fm.e, &s);
                    let multi = real_multi(fm.e, &hs);
                    cx.rep.evaluations += 3;
                    let shape = ["blanks behind", "blanks in front", "blanks after the copula", "one long subject name", "a product of one-letter components as subject"][how];
                    let shown = format!("[{}] a text of exactly {} characters ({}): {:?} ... {:?}", fm.name, len, shape, s.chars().take(24).collect::<String>(), s.chars().skip(len.saturating_sub(16)).collect::<String>());
                    if canon_pr(&chars) != canon_pr(&alone) {
                        cx.fail("size-thresholds", "parse_chars differs from parse", shown.clone(), canon_pr(&alone).chars().take(80).collect(), canon_pr(&chars).chars().take(80).collect(), None);
                    }
                    let at1 = match &multi {
                        Ok(v) if v.len() == 3 => match &v[1] {
                            Some(x) => canon_narsese(x),
                            None => "Err".into(),
                        },
                        Ok(_) => "wrong number of results".into(),
                        Err(()) => "PANIC".into(),
                    };
                    if at1 != canon_pr(&alone) {
                        cx.fail("size-thresholds", "parse_multi position 1 differs from parsing that input alone", shown.clone(), canon_pr(&alone).chars().take(80).collect(), at1.chars().take(80).collect(), None);
                    }
                    if !matches!(alone, Ok(Some(_))) {
                        cx.rep.hist.add(format!("{}:size-threshold:not-accepted:how{}", fm.name, how));
                    }
                }
            }
        }
    }
    // the order in which the formats are used on a thread must not matter
    thread_order_stream(&mut cx, &mut rng, false, false);
    // the lexical half of "depends only on format and input": state kept across calls (see lexprops::lex_state_search)
    crate::lexprops::c08_lexical_state(o, cx.rep);
    let cases = std::mem::take(&mut cx.cases);
    finish(o, "C08", rep, cases)
}

// -------------------------------------------------------------------------------------------
// order of formats on a thread (C01 C04 C08 C09)
// -------------------------------------------------------------------------------------------
/// compact well-formed values of a format: every plain copula between atoms, variables / operator as subject and
/// predicate, compounds, a sentence and a task with all items -- as (text, canonical value) in three spacings:
/// dense (atom subjects TOUCH the copula), canonical, random
fn thread_order_texts(fm: &Fm, rng: &mut Rng) -> Vec<(String, String)> {
    let (a, b, c) = if fm.idx == 2 { ("甲", "乙", "丙") } else { ("robin", "bird", "c") };
    let w = Term::new_word;
    let mut terms: Vec<Term> = vec![
        Term::new_inheritance(w(a), w(b)),
        Term::new_similarity(w(a), w(b)),
        Term::new_implication(w(a), w(b)),
        Term::new_equivalence(w(a), w(b)),
        Term::new_implication_predictive(w(a), w(b)),
        Term::new_implication_concurrent(w(a), w(b)),
        Term::new_implication_retrospective(w(a), w(b)),
        Term::new_equivalence_predictive(w(a), w(b)),
        Term::new_equivalence_concurrent(w(a), w(b)),
        Term::new_inheritance(Term::new_variable_independent(a), Term::new_variable_dependent(b)),
        Term::new_similarity(Term::new_variable_query(a), Term::new_operator(b)),
        Term::new_product(vec![w(a), w(b)]),
        Term::new_inheritance(Term::new_product(vec![w(a), w(b)]), w(c)),
        Term::new_conjunction(vec![Term::new_inheritance(w(a), w(b)), Term::new_similarity(w(b), w(c))]),
        Term::new_inheritance(Term::new_set_extension(vec![w(a)]), Term::new_set_intension(vec![w(b)])),
        Term::new_implication(Term::new_inheritance(w(a), w(b)), Term::new_inheritance(w(a), w(c))),
        w(a),
    ];
    let g = term_gen_for(fm, 2, 3);
    for _ in 0..3 {
        terms.push(Term::new_inheritance(g.atom(rng), g.atom(rng)));
    }
    let stmt = Term::new_inheritance(w(a), w(b));
    let mut vals: Vec<Narsese> = terms.into_iter().map(Narsese::Term).collect();
    vals.push(Narsese::Sentence(Sentence::Judgement(stmt.clone(), Truth::Double(1.0, 0.9), Stamp::Present)));
    vals.push(Narsese::Sentence(Sentence::Question(stmt.clone(), Stamp::Eternal)));
    vals.push(Narsese::Sentence(Sentence::Goal(stmt.clone(), Truth::Single(0.5), Stamp::Fixed(-5))));
    vals.push(Narsese::Task(Task::new(Sentence::Judgement(stmt, Truth::Double(1.0, 0.9), Stamp::Eternal), Budget::Triple(0.5, 0.75, 0.4))));
    let mut out = vec![];
    for v in vals {
        let text = fm.e.format_narsese(&v);
        if c01_known(fm.e, &v, &text).is_some() || risky_names(fm.e, v.get_term()) || respace_known(fm, &v) {
            continue;
        }
        let toks = narsese_tokens(fm.e, &v, Sugar::None, rng);
        if toks.canonical() != text {
            continue;
        }
        let want = canon_narsese(&v);
        let mut seen: Vec<String> = vec![];
        for policy in [0usize, 1, 2] {
            let s = toks.join(policy, rng, fm.e.space.parse);
            if !seen.contains(&s) {
                out.push((s.clone(), want.clone()));
                seen.push(s);
            }
        }
    }
    out
}

/// On a FRESH thread: parse `prime` (enum and lexical parser), then evaluate `eval` with the enum parser and with
/// lexical parse + fold.  None when the thread itself died.
fn on_fresh_thread(prime: Vec<(usize, String)>, eval: Vec<(usize, String)>) -> Option<Vec<(String, String)>> {
    std::thread::Builder::new()
        .stack_size(64 << 20)
        .spawn(move || {
            let fms = formats();
            for (i, s) in &prime {
                let _ = real_parse(fms[*i].e, s);
                let _ = real_lexfold(&fms[*i], s);
            }
            eval.iter().map(|(i, s)| (canon_pr(&real_parse(fms[*i].e, s)), canon_pr(&real_lexfold(&fms[*i], s)))).collect()
        })
        .ok()?
        .join()
        .ok()
}

/// The result of parsing must not depend on WHICH FORMAT (or which other inputs) the thread has parsed before: per-thread
/// or per-process memoisation keyed by too little shows only when the formats are used in another order than the
/// harness's fixed ascii, latex, han on its one thread.  For every ordered pair (F1, F2) a fresh thread parses a few F1
/// inputs and then the compact F2 texts (`thread_order_texts`); one more fresh thread parses the texts of all three
/// formats interleaved in random order.  Each result must be the value the text was printed from (which the main thread
/// and, with `model`, the model give as well).  `panic_only`: report only panics (C04's property).
fn thread_order_stream(cx: &mut Ctx, rng: &mut Rng, model: bool, panic_only: bool) {
    let fms = formats();
    let texts: Vec<Vec<(String, String)>> = fms.iter().map(|fm| thread_order_texts(fm, rng)).collect();
    let check = |cx: &mut Ctx, fi: usize, s: &str, want: &str, got: &(String, String), history: &str| {
        cx.rep.evaluations += 2;
        for (which, g) in [("enum parser", &got.0), ("lexical parse + fold", &got.1)] {
            cx.rep.hist.add(format!("thread-order:{}:{}", fms[fi].name, if g == want { "same" } else { "differs" }));
            if g != want && (!panic_only || g == "PANIC") {
                cx.fail(
                    "thread-order",
                    &format!("the result depends on what the thread parsed before ({}): {}", which, history),
                    format!("[{}] {:?}", fms[fi].name, s),
                    want.to_string(),
                    g.clone(),
                    None,
                );
            }
        }
    };
    // main thread (and the model)
    for (fi, ts) in texts.iter().enumerate() {
        for (s, want) in ts {
            let r = if model { cx.parse_case(&fms[fi], s) } else { real_parse(fms[fi].e, s) };
            let lf = real_lexfold(&fms[fi], s);
            check(cx, fi, s, want, &(canon_pr(&r), canon_pr(&lf)), "main thread");
        }
    }
    for f1 in 0..3 {
        for f2 in 0..3 {
            // an atom, a spaced statement, a dense one, a sentence / task of F1 first
            let n1 = texts[f1].len();
            let prime: Vec<(usize, String)> = [n1.saturating_sub(8), 1, 0, n1.saturating_sub(1)].iter().filter_map(|&k| texts[f1].get(k)).map(|(s, _)| (f1, s.clone())).collect();
            let eval: Vec<(usize, String)> = texts[f2].iter().map(|(s, _)| (f2, s.clone())).collect();
            let history = format!("fresh thread, {} inputs first (e.g. {:?})", fms[f1].name, prime.first().map(|p| p.1.clone()).unwrap_or_default());
            match on_fresh_thread(prime, eval) {
                Some(got) => {
                    for ((s, want), g) in texts[f2].iter().zip(got.iter()) {
                        check(cx, f2, s, want, g, &history);
                    }
                }
                None => cx.fail("thread-order", "the parsing thread died", history, "results".into(), "PANIC".into(), None),
            }
        }
    }
    // interleaved: all formats' texts in random order on one fresh thread, twice (starting with a latex / han text)
    for first in [1usize, 2] {
        let mut all: Vec<(usize, String, String)> = texts.iter().enumerate().flat_map(|(fi, ts)| ts.iter().map(move |(s, w)| (fi, s.clone(), w.clone()))).collect();
        for i in (1..all.len()).rev() {
            let j = rng.below(i + 1);
            all.swap(i, j);
        }
        if let Some(k) = all.iter().position(|x| x.0 == first) {
            all.swap(0, k);
        }
        let history = format!("fresh thread, inputs of all formats interleaved, first {:?}", all[0].1);
        match on_fresh_thread(vec![], all.iter().map(|x| (x.0, x.1.clone())).collect()) {
            Some(got) => {
                for ((fi, s, want), g) in all.iter().zip(got.iter()) {
                    check(cx, *fi, s, want, g, &history);
                }
            }
            None => cx.fail("thread-order", "the parsing thread died", history, "results".into(), "PANIC".into(), None),
        }
    }
}

// -------------------------------------------------------------------------------------------
// C09: whitespace between tokens;  C10: derived copulas and sugar
// -------------------------------------------------------------------------------------------
pub fn run_c09(o: &Opts) -> Report {
    let mut rep = Report::new(
        "C09",
        "well-formed values printed by an independent token-level formatter and re-spaced (no spaces at all / canonical / 0-3 spaces at every token boundary; Unicode whitespace for the lexical side) x 3 formats: real parse vs model parse on every variant; \
         on the real code: every variant parses to the value the canonical string parses to, in the enum parser and in the lexical-parse-then-fold pipeline; whitespace-stripped text through parse_chars (what enum_nse! does); truth / budget number lists of 0..4 values with 0-2 trailing separators and a blank at every position inside the brackets; compact texts on a fresh thread after inputs of each other format (dense statements whose atom subject touches the copula); distinct = distinct (format, variant text); non-trivial = all",
    );
    let mut rng = Rng::new(o.seed ^ 0xC09);
    let mut cx = Ctx { rep: &mut rep, cases: vec![], lcases: vec![], ldescr: vec![] };
    {
        let fm0 = &formats()[0];
        for s in ["A. :! -1:", "A. :!-1:", "A.:!  -1 :", "<A-->B>.%1;0.9%", " < A --> B > . % 1 ; 0.9 % "] {
            let r = cx.parse_case(fm0, s);
            if !matches!(r, Ok(Some(_))) {
                cx.fail("corpus", "well-formed input rejected", format!("[ascii] {:?}", s), "Ok".into(), canon_pr(&r), None);
            }
        }
    }
    // the inline macros themselves (they strip all whitespace from the literal, then parse): fixed literals, each
    // written densely and with spaces / tabs / newlines between tokens
    macro_rules! nse_pair {
        ($dense:literal, $spaced:literal) => {{
            let want = canon_pr(&real_parse(&narsese::conversion::string::impl_enum::format_instances::FORMAT_ASCII, $dense));
            let a = guard(|| narsese::enum_nse!($dense)).map(|v| canon_narsese(&v)).unwrap_or("PANIC".into());
            let b = guard(|| narsese::enum_nse!($spaced)).map(|v| canon_narsese(&v)).unwrap_or("PANIC".into());
            cx.rep.evaluations += 2;
            cx.rep.hist.add("macro:enum_nse");
            if a != want || b != want || want == "Err" || want == "PANIC" {
                cx.fail("macro", "enum_nse! differs from parsing the same text", format!("{:?} / {:?}", $dense, $spaced), want.clone(), format!("{} / {}", a, b), None);
            }
            let la = guard(|| narsese::lexical_nse!($dense));
            let lb = guard(|| narsese::lexical_nse!($spaced));
            cx.rep.evaluations += 2;
            if la.is_none() || la != lb {
                cx.fail("macro", "lexical_nse! on the spaced literal differs from the dense one", format!("{:?} / {:?}", $dense, $spaced), format!("{:?}", la), format!("{:?}", lb), None);
            }
        }};
    }
    nse_pair!("<A-->B>.", " < A --> B > . ");
    nse_pair!("<(&&,A,B)==><C<->D>>.%1;0.9%", "< ( && , A , B ) ==> < C <-> D > > . % 1 ; 0.9 %");
    nse_pair!("$0.5;0.5;0.5$<{x}-->[y]>!:|:%1%", "$ 0.5 ; 0.5 ; 0.5 $ < { x } --> [ y ] > ! :|: % 1 %");
    nse_pair!("(/,R,_,B)", "\t( /,\n R , _ ,  B )\n");
    nse_pair!("<S{--P>?:!-5:", "<S  {--  P> ? :! -5 :");
    nse_pair!("(--,<$x-->#y>)", "( -- , < $x --> #y > )");
    nse_pair!("<(*,{SELF},ball)-->^pick>@", "<(*, {SELF}, ball) --> ^pick> @");
    // witness of the known class K3 for this property (Han): removing the space before a copula merges the end of the
    // name with it (`x将 得y` is Implication(x将, y), `x将得y` is ImplicationPredictive(x, y))
    {
        let fm = &formats()[2];
        let (a, b) = (real_parse(fm.e, "「x将 得y」"), real_parse(fm.e, "「x将得y」"));
        let differ = canon_pr(&a) != canon_pr(&b);
        cx.rep.hist.add(format!("witness:K3:{}", if differ { "spacing changes the parse" } else { "same" }));
        if differ {
            cx.fail("witness", "known-class witness: removing the spaces changes the parse", "[han] \"「x将 得y」\" vs \"「x将得y」\"".into(), canon_pr(&a), canon_pr(&b), Some("K3"));
        }
    }
    let per = (o.n / 12).max(8);
    for fm in formats() {
        let g = term_gen_for(&fm, 2, 3);
        let mut vals = value_stream(&mut rng, &fm, per, o.thorough);
        for i in 0..8 {
            let (a, b) = (g.atom(&mut rng), g.atom(&mut rng));
            let t = match i % 4 {
                0 => Term::new_instance(a, b),
                1 => Term::new_property(a, b),
                2 => Term::new_instance_property(a, b),
                _ => Term::new_equivalence_retrospective(a, b),
            };
            vals.push(if i < 4 { Narsese::Term(t) } else { Narsese::Sentence(gen_sentence(&mut rng, t)) });
        }
        for v in vals {
            let text = fm.e.format_narsese(&v);
            if c01_known(fm.e, &v, &text).is_some() {
                continue;
            }
            if risky_names(fm.e, v.get_term()) {
                // a name ending in the beginning of a copula: removing the space before a copula merges them (class K3)
                cx.rep.hist.add(format!("{}:skipped-risky-name", fm.name));
                continue;
            }
            let toks = narsese_tokens(fm.e, &v, Sugar::None, &mut rng);
            let canonical = toks.canonical();
            // the same value written with the derived copulas where it has the desugared shape (no spaces / random spaces)
            let dtoks = narsese_tokens(fm.e, &v, Sugar::Derived, &mut rng);
            if dtoks.canonical() != canonical {
                for policy in [0usize, 2] {
                    let s = dtoks.join(policy, &mut rng, fm.e.space.parse);
                    let r = cx.parse_case(&fm, &s);
                    let lf = real_lexfold(&fm, &s);
                    cx.rep.evaluations += 1;
                    cx.rep.hist.add(format!("{}:derived-policy{}:{}", fm.name, policy, pr_tag(&r)));
                    let known = if policy == 0 && respace_known(&fm, &v) { Some("K3") } else { None };
                    if canon_pr(&r) != canon_narsese(&v) {
                        cx.fail("respaced-derived", "re-spaced derived-copula text parses differently (enum parser)", format!("[{}] {:?}", fm.name, s), canon_narsese(&v), canon_pr(&r), known);
                    }
                    if canon_pr(&lf) != canon_narsese(&v) {
                        cx.fail("respaced-derived", "re-spaced derived-copula text parses differently (lexical parse + fold)", format!("[{}] {:?}", fm.name, s), canon_narsese(&v), canon_pr(&lf), known);
                    }
                }
            }
            if canonical != text {
                cx.fail("respaced", "harness token formatter disagrees with format_narsese (harness defect)", canon_narsese(&v), text.clone(), canonical.clone(), None);
                continue;
            }
            let want = canon_narsese(&v);
            for policy in [0usize, 2, 2] {
                let s = toks.join(policy, &mut rng, fm.e.space.parse);
                let r = cx.parse_case(&fm, &s);
                cx.rep.hist.add(format!("{}:policy{}:{}", fm.name, policy, pr_tag(&r)));
                // zero spacing can merge tokens in formats without separators (K3-like): only count when canonical is itself spaced
                if canon_pr(&r) != want {
                    let known = if policy == 0 && respace_known(&fm, &v) { Some("K3") } else { None };
                    cx.fail("respaced", "re-spaced text parses differently (enum parser)", format!("[{}] {:?} (canonical {:?})", fm.name, s, text), want.clone(), canon_pr(&r), known);
                }
                let lf = real_lexfold(&fm, &s);
                if canon_pr(&lf) != want {
                    let known = if policy == 0 && respace_known(&fm, &v) { Some("K3") } else { None };
                    cx.fail("respaced", "re-spaced text parses differently (lexical parse + fold)", format!("[{}] {:?} (canonical {:?})", fm.name, s, text), want.clone(), canon_pr(&lf), known);
                }
                cx.rep.evaluations += 1;
                // the lexical parser ignores every Unicode whitespace character
                let u = toks.join(3, &mut rng, " ");
                let lu = real_lexfold(&fm, &u);
                cx.rep.evaluations += 1;
                if canon_pr(&lu) != want {
                    let known = if respace_known(&fm, &v) { Some("K3") } else { None };
                    cx.fail("respaced", "unicode-whitespace variant parses differently (lexical parse + fold)", format!("[{}] {:?}", fm.name, u), want.clone(), canon_pr(&lu), known);
                }
            }
            // what the macro does: strip all whitespace, parse_chars
            let stripped: String = text.chars().filter(|c| !c.is_whitespace()).collect();
            let rm = real_parse_chars(fm.e, &stripped);
            cx.rep.evaluations += 1;
            if canon_pr(&rm) != want && !respace_known(&fm, &v) {
                cx.fail("macro", "whitespace-stripped text parses differently", format!("[{}] {:?}", fm.name, stripped), want.clone(), canon_pr(&rm), None);
            }
        }
    }
    // number lists of every length with trailing separators and blanks at every position inside the brackets: all
    // spellings of one list must parse alike (enum parser, lexical parse + fold); every text also goes to the model.
    // Oracle restricted to the lists the README grammar allows and both parsers take (1..=full values, at most one
    // trailing separator); the other lists (empty, over-full, `;;`) are compared with the model only
    for fm in formats() {
        for nl in number_list_texts(fm.e) {
            let in_domain = nl.len >= 1 && nl.len <= nl.full && nl.trail <= 1;
            let mut first: Option<(String, String)> = None;
            for s in &nl.texts {
                let r = cx.parse_case(&fm, s);
                let lf = real_lexfold(&fm, s);
                cx.rep.evaluations += 1;
                cx.rep.hist.add(format!("{}:number-list:{:?}:len{}:trail{}:{}", fm.name, nl.kind, nl.len, nl.trail, pr_tag(&r)));
                if !in_domain {
                    continue;
                }
                let got = (canon_pr(&r), canon_pr(&lf));
                match &first {
                    None => {
                        if !matches!(r, Ok(Some(_))) {
                            cx.fail("number-lists", "well-formed number list rejected (enum parser)", format!("[{}] {:?}", fm.name, s), "Ok".into(), got.0.clone(), None);
                        }
                        first = Some(got);
                    }
                    Some(w) => {
                        if got.0 != w.0 {
                            cx.fail("number-lists", "blanks inside a number list change the parse (enum parser)", format!("[{}] {:?} (dense {:?})", fm.name, s, nl.texts[0]), w.0.clone(), got.0.clone(), None);
                        }
                        if got.1 != w.1 {
                            cx.fail("number-lists", "blanks inside a number list change the parse (lexical parse + fold)", format!("[{}] {:?} (dense {:?})", fm.name, s, nl.texts[0]), w.1.clone(), got.1.clone(), None);
                        }
                    }
                }
            }
        }
    }
    // the order in which the formats are used on a thread must not matter (main-thread results also against the model)
    thread_order_stream(&mut cx, &mut rng, true, false);
    let cases = std::mem::take(&mut cx.cases);
    // lexical half: every White_Space character in pure-ASCII and in non-ASCII texts, real lexical parser vs its model
    // (a second shard set, Run/LexRun.v) and parse / parse + fold invariance on the real code
    crate::lexprops::c09_lexical_ws(o, finish(o, "C09", rep, cases))
}

/// removing the spaces the formatter prints around copulas can merge a name with the copula (only when
/// a name character sequence plus copula start forms another copula: the K3 mechanism)
/// some atom name of the value ends with a non-empty proper prefix of a copula of the format: written directly
/// before a copula (no space) such a name merges with it -- the K3 mechanism, for plain and derived copulas alike
pub fn risky_names(e: &EFmt, t: &Term) -> bool {
    fn walk(e: &EFmt, x: &Term) -> bool {
        if let Some(name) = x.get_atom_name() {
            if matches!(x, Term::Placeholder | Term::Interval(..)) {
                return false;
            }
            return e.copulas().iter().any(|c| {
                let cs: Vec<char> = c.chars().collect();
                (1..cs.len()).any(|k| name.ends_with(&cs[..k].iter().collect::<String>()))
            });
        }
        x.get_components().into_iter().any(|c| walk(e, c))
    }
    walk(e, t)
}

fn respace_known(fm: &Fm, v: &Narsese) -> bool {
    // evaluate K3 as if the format printed no spaces between terms
    let t = v.get_term();
    k3_nospace(fm.e, t)
}
fn k3_nospace(e: &EFmt, t: &Term) -> bool {
    fn walk(e: &EFmt, x: &Term) -> bool {
        if x.get_atom_name().is_some() {
            return false;
        }
        let cs = x.get_components();
        if x.is_statement_like() {
            let subj = cs[0];
            if let Some(name) = subj.get_atom_name() {
                if !matches!(subj, Term::Placeholder) {
                    let cop = crate::enumgen::copula_str(e, x);
                    let follow = format!("{}{}", name, cop);
                    let chars: Vec<char> = follow.chars().collect();
                    let n = name.chars().count();
                    for i in 0..n {
                        let tail: String = chars[i..].iter().collect();
                        if e.copulas().iter().any(|c| tail.starts_with(c)) {
                            return true;
                        }
                    }
                }
            }
        }
        cs.into_iter().any(|c| walk(e, c))
    }
    walk(e, t)
}
trait StmtLike {
    fn is_statement_like(&self) -> bool;
}
impl StmtLike for Term {
    fn is_statement_like(&self) -> bool {
        use Term::*;
        matches!(
            self,
            Inheritance(..) | Similarity(..) | Implication(..) | Equivalence(..) | ImplicationPredictive(..) | ImplicationConcurrent(..)
                | ImplicationRetrospective(..) | EquivalencePredictive(..) | EquivalenceConcurrent(..)
        )
    }
}

pub fn run_c10(o: &Opts) -> Report {
    let mut rep = Report::new(
        "C10",
        "values containing the desugared shapes (inheritance with one-element extension/intension sets, predictive equivalence, images, intervals, placeholders) printed with the derived copulas (instance, property, instance-property, retrospective equivalence) by an independent token formatter x 3 formats x 2 spacings: real parse vs model parse; \
         on the real code: both pipelines return the documented desugared value; image index = position of first placeholder; interval = decimal value; placeholder ignores trailing name; distinct = distinct (format, text); non-trivial = text contains a derived copula / image / interval",
    );
    let mut rng = Rng::new(o.seed ^ 0xC10);
    let mut cx = Ctx { rep: &mut rep, cases: vec![], lcases: vec![], ldescr: vec![] };
    for fm in formats() {
        let e = fm.e;
        let g = term_gen_for(&fm, 3, 3);
        let mut work: Vec<Term> = vec![];
        let n = (o.n / 6).max(10);
        for i in 0..n {
            let a = g.term(&mut rng, 2);
            let b = g.term(&mut rng, 2);
            work.push(match i % 6 {
                0 => Term::new_instance(a, b),
                1 => Term::new_property(a, b),
                2 => Term::new_instance_property(a, b),
                3 => Term::new_equivalence_retrospective(a, b),
                4 => {
                    let v: Vec<Term> = (0..rng.range(1, 4)).map(|_| g.term(&mut rng, 2)).collect();
                    let idx = rng.range(0, v.len());
                    if rng.chance(1, 2) { Term::ImageExtension(idx, v) } else { Term::ImageIntension(idx, v) }
                }
                _ => Term::new_implication(Term::new_interval(rng.below(100000)), Term::new_conjunction_sequential(vec![a, Term::new_interval(7), b])),
            });
        }
        for t in work {
            let nested = if rng.chance(1, 3) { Term::new_product(vec![t.clone(), g.atom(&mut rng)]) } else { t.clone() };
            let v = if rng.chance(1, 2) { Narsese::Term(nested) } else { Narsese::Sentence(gen_sentence(&mut rng, nested)) };
            let text0 = e.format_narsese(&v);
            if c01_known(e, &v, &text0).is_some() {
                continue;
            }
            if risky_names(e, v.get_term()) {
                cx.rep.hist.add(format!("{}:skipped-risky-name", fm.name));
                continue;
            }
            let toks = narsese_tokens(e, &v, Sugar::Derived, &mut rng);
            let want = canon_narsese(&v);
            for policy in [1usize, 2] {
                let s = toks.join(policy, &mut rng, e.space.parse);
                let sugared = s != text0;
                cx.rep.hist.add(format!("{}:{}:{}", fm.name, ctor_name(&t), if sugared { "sugared" } else { "plain" }));
                let r = cx.parse_case(&fm, &s);
                if canon_pr(&r) != want {
                    cx.fail("sugar", "derived form does not parse to the documented value (enum parser)", format!("[{}] {:?}", fm.name, s), want.clone(), canon_pr(&r), None);
                }
                let lf = real_lexfold(&fm, &s);
                cx.rep.evaluations += 1;
                if canon_pr(&lf) != want {
                    cx.fail("sugar", "derived form does not parse to the documented value (lexical parse + fold)", format!("[{}] {:?}", fm.name, s), want.clone(), canon_pr(&lf), None);
                }
            }
        }
        // explicit documented equations
        let st = &e.statement;
        let (l, r, sp) = (st.brackets.0, st.brackets.1, e.space.parse);
        let (xl, xr) = e.compound.brackets_set_extension;
        let (il, ir) = e.compound.brackets_set_intension;
        let eqs: Vec<(String, String)> = vec![
            (format!("{l}S{sp}{}{sp}P{r}", st.copula_instance), format!("{l}{xl}S{xr}{sp}{}{sp}P{r}", st.copula_inheritance)),
            (format!("{l}S{sp}{}{sp}P{r}", st.copula_property), format!("{l}S{sp}{}{sp}{il}P{ir}{r}", st.copula_inheritance)),
            (format!("{l}S{sp}{}{sp}P{r}", st.copula_instance_property), format!("{l}{xl}S{xr}{sp}{}{sp}{il}P{ir}{r}", st.copula_inheritance)),
            (format!("{l}S{sp}{}{sp}P{r}", st.copula_equivalence_retrospective), format!("{l}P{sp}{}{sp}S{r}", st.copula_equivalence_predictive)),
            (format!("{}0007", e.atom.prefix_interval), format!("{}7", e.atom.prefix_interval)),
        ];
        // the placeholder as an operand of the derived copulas (its name is empty: the copula follows the prefix directly)
        let ph = e.atom.prefix_placeholder;
        let mut eqs = eqs;
        eqs.push((format!("{l}{ph}{sp}{}{sp}P{r}", st.copula_instance), format!("{l}{xl}{ph}{xr}{sp}{}{sp}P{r}", st.copula_inheritance)));
        eqs.push((format!("{l}{ph}{sp}{}{sp}P{r}", st.copula_property), format!("{l}{ph}{sp}{}{sp}{il}P{ir}{r}", st.copula_inheritance)));
        eqs.push((format!("{l}{ph}{sp}{}{sp}P{r}", st.copula_instance_property), format!("{l}{xl}{ph}{xr}{sp}{}{sp}{il}P{ir}{r}", st.copula_inheritance)));
        eqs.push((format!("{l}{ph}{sp}{}{sp}P{r}", st.copula_equivalence_retrospective), format!("{l}P{sp}{}{sp}{ph}{r}", st.copula_equivalence_predictive)));
        eqs.push((format!("{l}S{sp}{}{sp}{ph}{r}", st.copula_instance), format!("{l}{xl}S{xr}{sp}{}{sp}{ph}{r}", st.copula_inheritance)));
        let eqs: Vec<(String, String)> = eqs.iter().cloned().chain(eqs.iter().map(|(a, b)| (a.replace(sp, ""), b.replace(sp, "")))).collect();
        for (a, b) in eqs {
            let ra = cx.parse_case(&fm, &a);
            let rb = cx.parse_case(&fm, &b);
            if canon_pr(&ra) != canon_pr(&rb) || !matches!(ra, Ok(Some(_))) {
                cx.fail("equations", "documented desugaring equation fails (enum parser)", format!("[{}] {:?} vs {:?}", fm.name, a, b), canon_pr(&rb), canon_pr(&ra), None);
            }
            let (la, lb) = (real_lexfold(&fm, &a), real_lexfold(&fm, &b));
            if canon_pr(&la) != canon_pr(&lb) || canon_pr(&la) != canon_pr(&ra) {
                cx.fail("equations", "documented desugaring equation fails (lexical parse + fold)", format!("[{}] {:?} vs {:?}", fm.name, a, b), canon_pr(&rb), canon_pr(&la), None);
            }
        }
        // several placeholders: the index is the position of the FIRST one, the later ones stay components in order
        {
            let c = &e.compound;
            let ph = e.atom.prefix_placeholder;
            for (conn, ext) in [(c.connecter_image_extension, true), (c.connecter_image_intension, false)] {
                for (i1, i2) in [(0usize, 1usize), (0, 3), (1, 2), (1, 3), (2, 3)] {
                    let mut items: Vec<String> = vec!["A".into(), "B".into()];
                    let mut want_items = vec![Term::new_word("A"), Term::new_word("B")];
                    // positions in the final list of 4
                    let mut full: Vec<Option<usize>> = vec![];
                    let mut k = 0;
                    for pos in 0..4 {
                        if pos == i1 || pos == i2 { full.push(None) } else { full.push(Some(k)); k += 1; }
                    }
                    let texts: Vec<String> = full.iter().map(|x| match x { None => ph.to_string(), Some(k) => items[*k].clone() }).collect();
                    let mut rest: Vec<Term> = vec![];
                    for (pos, x) in full.iter().enumerate() {
                        if pos == i1 { continue; }
                        rest.push(match x { None => Term::Placeholder, Some(k) => want_items[*k].clone() });
                    }
                    items.clear(); want_items.clear();
                    let s = format!("{}{}{} {}{}", c.brackets.0, conn, c.separator, texts.join(&format!("{} ", c.separator)), c.brackets.1);
                    let want = canon_narsese(&Narsese::Term(if ext { Term::ImageExtension(i1, rest) } else { Term::ImageIntension(i1, rest) }));
                    let r = cx.parse_case(&fm, &s);
                    if canon_pr(&r) != want {
                        cx.fail("image", "image with several placeholders (enum parser)", format!("[{}] {:?}", fm.name, s), want.clone(), canon_pr(&r), None);
                    }
                    let lf = real_lexfold(&fm, &s);
                    cx.rep.evaluations += 1;
                    if canon_pr(&lf) != want {
                        cx.fail("image", "image with several placeholders (lexical parse + fold)", format!("[{}] {:?}", fm.name, s), want.clone(), canon_pr(&lf), None);
                    }
                }
            }
        }
        // image index = position of the first placeholder; placeholder ignores what follows its prefix
        let c = &e.compound;
        let ph = e.atom.prefix_placeholder;
        for (conn, ext) in [(c.connecter_image_extension, true), (c.connecter_image_intension, false)] {
            for idx in 0..4usize {
                let mut items: Vec<String> = vec!["R".into(), "A".into(), "B".into()];
                items.insert(idx, if idx == 2 { format!("{}name", ph) } else { ph.to_string() });
                let s = format!("{}{}{} {}{}", c.brackets.0, conn, c.separator, items.join(&format!("{} ", c.separator)), c.brackets.1);
                let want_t = {
                    let v = vec![Term::new_word("R"), Term::new_word("A"), Term::new_word("B")];
                    if ext { Term::ImageExtension(idx, v) } else { Term::ImageIntension(idx, v) }
                };
                let want = canon_narsese(&Narsese::Term(want_t));
                let r = cx.parse_case(&fm, &s);
                if canon_pr(&r) != want {
                    cx.fail("image", "image placeholder position (enum parser)", format!("[{}] {:?}", fm.name, s), want.clone(), canon_pr(&r), None);
                }
                let lf = real_lexfold(&fm, &s);
                if canon_pr(&lf) != want {
                    cx.fail("image", "image placeholder position (lexical parse + fold)", format!("[{}] {:?}", fm.name, s), want.clone(), canon_pr(&lf), None);
                }
            }
        }
    }
    let cases = std::mem::take(&mut cx.cases);
    finish(o, "C10", rep, cases)
}

/// texts aimed at the range / emptiness / arity checks and at the back-off between budget and `$`-variables
pub fn boundary_inputs(e: &'static EFmt) -> Vec<String> {
    let mut inputs: Vec<String> = vec![];
        let (tl, tr, ts) = (e.sentence.truth_brackets.0, e.sentence.truth_brackets.1, e.sentence.truth_separator);
        let (bl, br, bs) = (e.task.budget_brackets.0, e.task.budget_brackets.1, e.task.budget_separator);
        let c = &e.compound;
        let pj = e.sentence.punctuation_judgement;
        for num in ["1", "1.0", "1.0000000000000001", "1.0000000000000002", "1.1", "2", "0", "0.0", "00", "1e", "1.", ".5", ".", "1..2", "99999", "0.99999999999999999999"] {
            inputs.push(format!("A{pj} {tl}{num}{tr}"));
            inputs.push(format!("A{pj} {tl}0.5{ts}{num}{tr}"));
            inputs.push(format!("{bl}{num}{br} A{pj}"));
            inputs.push(format!("{bl}0.5{bs}0.5{bs}{num}{br} A{pj}"));
            inputs.push(format!("{bl}0.5{bs}{num}{bs}0.5{br} A{pj}"));
        }
        for conn in [c.connecter_negation, c.connecter_difference_extension, c.connecter_difference_intension, c.connecter_product, c.connecter_image_extension, c.connecter_image_intension, c.connecter_conjunction] {
            for items in ["", "A", "A, B", "A, B, C", "_", "_, A", "A, _", "_, _", "A, _, _"] {
                let items = items.replace(", ", &format!("{} ", c.separator)).replace('_', e.atom.prefix_placeholder);
                inputs.push(format!("{}{}{} {}{}", c.brackets.0, conn, c.separator, items, c.brackets.1));
                inputs.push(format!("{}{} {}{}", c.brackets.0, conn, items, c.brackets.1));
            }
        }
        for (l, r) in [c.brackets_set_extension, c.brackets_set_intension] {
            inputs.push(format!("{l}{r}"));
            inputs.push(format!("{l} {r}"));
            inputs.push(format!("{l}{}{r}", c.separator));
            inputs.push(format!("{l}A{} A{r}", c.separator));
        }
        for p in crate::wf::atom_prefixes(e) {
            inputs.push(p.to_string());
            inputs.push(format!("{}{}", p, pj));
            inputs.push(format!("{}{p}{}", e.statement.brackets.0, e.statement.brackets.1));
        }
    // numerically named prefixed atoms as whole terms (the budget bracket may coincide with a variable prefix)
    let pj = e.sentence.punctuation_judgement;
    for p in crate::wf::atom_prefixes(e) {
        for name in ["1", "0", "12", "0.5", "1x", "x"] {
            for tail in ["", pj, &format!(" {}", pj), &format!("{} ", pj), e.sentence.punctuation_question] {
                inputs.push(format!("{}{}{}", p, name, tail));
            }
        }
    }
    inputs
}

/// texts with items repeated / out of their canonical order, full and padded number lists, and a punctuation followed by a
/// failing term (added after model mutation testing, DESIGN 9.8).  Model vs implementation only (streams C04 / C12): with
/// items out of order the enum parser and the lexical parser classify differently (`A $0.5$.` is a task for the former,
/// a sentence for the latter), which is outside the domain of C15 (texts of formatted values)
pub fn item_order_inputs(e: &'static EFmt) -> Vec<String> {
    let mut inputs: Vec<String> = vec![];
    // every item TWICE and items out of order (a guard `... && slot.is_none()` decides; model mutation testing: dropping
    // the `truth.is_none()` conjunct survived), and number lists that are full / end in a separator / are padded with
    // spaces before the right bracket (dropping the space skip before the budget's right bracket survived)
    {
        let (tl, tr, ts) = (e.sentence.truth_brackets.0, e.sentence.truth_brackets.1, e.sentence.truth_separator);
        let (bl, br, bs) = (e.task.budget_brackets.0, e.task.budget_brackets.1, e.task.budget_separator);
        let (sl, sr) = e.sentence.stamp_brackets;
        let pj = e.sentence.punctuation_judgement;
        let pq = e.sentence.punctuation_question;
        let past = format!("{sl}{}{sr}", e.sentence.stamp_past);
        let fixed = format!("{sl}{}7{sr}", e.sentence.stamp_fixed);
        for s in [
            format!("A{pj} {tl}1{tr} {tl}0.5{tr}"),
            format!("A{pj} {tl}1{tr}{tl}0.5{tr}"),
            format!("A{pj} {past} {fixed}"),
            format!("A{pj} {fixed} {past} {tl}1{tr}"),
            format!("{bl}0.5{br} {bl}0.6{br} A{pj}"),
            format!("{bl}0.5{br} A{pj} {bl}0.6{br}"),
            format!("A{pj}{pj}"),
            format!("A{pj} {pq}"),
            format!("A B{pj}"),
            format!("A{pj} B"),
            format!("{tl}1{tr} A{pj}"),
            format!("{past} A{pj}"),
            format!("{pj} A"),
            format!("{pj} A {tl}1{tr}"),
            format!("A {bl}0.5{br}{pj}"),
            format!("A{pj} {tl}1{tr} {past}"),
            format!("{bl}0.1{bs}0.2{bs}0.3{bs} {br} A{pj}"),
            format!("{bl}0.1{bs}0.2{bs}0.3{bs}{br} A{pj}"),
            format!("{bl}0.1{bs}0.2{bs}0.3 {br} A{pj}"),
            format!("{bl}0.1{bs}0.2{bs}0.3{bs}0.4{br} A{pj}"),
            format!("{bl} 0.1 {bs} 0.2 {br} A{pj}"),
            format!("{bl}0.1{bs} {br} A{pj}"),
            format!("{bl} {br} A{pj}"),
            format!("A{pj} {tl}0.5{ts}0.9{ts} {tr}"),
            format!("A{pj} {tl}0.5{ts}0.9{ts}{tr}"),
            format!("A{pj} {tl}0.5{ts}0.9 {tr}"),
            format!("A{pj} {tl}0.5{ts}0.9{ts}0.1{tr}"),
            format!("A{pj} {tl} 0.5 {ts} 0.9 {tr}"),
            format!("A{pj} {tl}0.5{ts} {tr}"),
            format!("A{pj} {tl} {tr}"),
        ] {
            inputs.push(s);
        }
    }
    // a punctuation FIRST, then a term that fails: the term branch is then the last branch of consume_one that can run,
    // so the cursor it leaves is the one the stamp / truth guards and the final error see (model mutation testing: the
    // state an empty set fails with was interchangeable with the state before its right bracket)
    {
        let c = &e.compound;
        let st = &e.statement;
        let pj = e.sentence.punctuation_judgement;
        let (xl, xr) = c.brackets_set_extension;
        let (il, ir) = c.brackets_set_intension;
        let fails: Vec<String> = vec![
            format!("{xl}{xr}"),
            format!("{il} {ir}"),
            format!("{xl}{xr}{}", e.sentence.stamp_brackets.0),
            format!("{xl}{xr}{}", e.sentence.truth_brackets.0),
            format!("{}{}{} {}", c.brackets.0, c.connecter_conjunction, c.separator, c.brackets.1),
            format!("{}{}{} A{}", c.brackets.0, c.connecter_difference_extension, c.separator, c.brackets.1),
            format!("{}{}{} A{} B{}", c.brackets.0, c.connecter_negation, c.separator, c.separator, c.brackets.1),
            format!("{}{}{} A{}", c.brackets.0, c.connecter_image_extension, c.separator, c.brackets.1),
            format!("{}{} A{}", c.brackets.0, e.atom.prefix_operator, c.brackets.1),
            format!("{}?? A{}", c.brackets.0, c.brackets.1),
            format!("{}A{}", st.brackets.0, st.brackets.1),
            format!("{}A ?? B{}", st.brackets.0, st.brackets.1),
            format!("{}A {} {}", st.brackets.0, st.copula_inheritance, st.brackets.1),
            format!("{}", e.atom.prefix_interval),
            format!("{}x", e.atom.prefix_interval),
            format!("{}99999999999999999999999", e.atom.prefix_interval),
            format!("{}", e.atom.prefix_operator),
        ];
        for f in &fails {
            inputs.push(format!("{pj} {f}"));
            inputs.push(format!("{pj}{f}{}", e.sentence.stamp_brackets.0));
            inputs.push(format!("{pj} {f} {}1{}", e.sentence.truth_brackets.0, e.sentence.truth_brackets.1));
            inputs.push(format!("{f} {pj}"));
        }
    }
    inputs
}

/// the same text with non-space Unicode whitespace at its edges (the enum parser skips only the format's space)
pub fn edge_whitespace(s: &str) -> Vec<String> {
    vec![format!("{}\n", s), format!("\t{}", s), format!("{}\r\n", s), format!("\u{3000}{}", s), format!("{}\u{a0}", s), format!(" {} ", s), format!("\u{feff}{}", s), format!("{}\u{feff}", s)]
}

// -------------------------------------------------------------------------------------------
// C12: parser / fold output is well-formed and printable
// -------------------------------------------------------------------------------------------
pub fn run_c12(o: &Opts) -> Report {
    let mut rep = Report::new(
        "C12",
        "malformed and well-formed strings x 3 formats through the enum parser (model vs real outcome), plus lexical values with garbage fields through fold: on the real code every Ok value has truth/budget in [0,1], image index <= component count, non-empty non-placeholder names, (parser) no empty compound/set and negation/difference arity, \
         and formats in all three formats and Typst without panicking; distinct = distinct (format, input); non-trivial = inputs whose result is Ok",
    );
    let mut rng = Rng::new(o.seed ^ 0xC12);
    let mut cx = Ctx { rep: &mut rep, cases: vec![], lcases: vec![], ldescr: vec![] };
    for fm in formats() {
        let e = fm.e;
        let mut inputs = malformed_inputs(&mut rng, &fm, o.n / 3, o.thorough);
        inputs.extend(boundary_inputs(e));
        let cap = if o.thorough { 200 } else { 60 };
        for s in inputs {
            if s.chars().count() > cap {
                continue;
            }
            let r = cx.parse_case(&fm, &s);
            cx.rep.hist.add(format!("{}:{}", fm.name, pr_tag(&r)));
            if let Ok(Some(v)) = &r {
                if let Err(why) = wf_out(v, true) {
                    cx.fail("parser-output", "enum parser returned an ill-formed value", format!("[{}] {:?}", fm.name, s), "well-formed".into(), format!("{}: {}", why, canon_narsese(v)), None);
                }
                if let Err(why) = printable(v) {
                    cx.fail("parser-output", "parser output cannot be formatted", format!("[{}] {:?}", fm.name, s), "printable".into(), why, None);
                }
                cx.rep.sample(format!("[{}] {:?} -> {}", fm.name, s, canon_narsese(v)));
            }
            // the same text through the lexical parser + fold
            let lf = real_lexfold(&fm, &s);
            cx.rep.evaluations += 1;
            if let Ok(Some(v)) = &lf {
                if let Err(why) = wf_out(v, false) {
                    cx.fail("fold-output", "folding returned an ill-formed value", format!("[{}] {:?}", fm.name, s), "well-formed".into(), format!("{}: {}", why, canon_narsese(v)), None);
                }
                if let Err(why) = printable(v) {
                    cx.fail("fold-output", "fold output cannot be formatted", format!("[{}] {:?}", fm.name, s), "printable".into(), why, None);
                }
            }
        }
    }
    let cases = std::mem::take(&mut cx.cases);
    finish(o, "C12", rep, cases)
}

// -------------------------------------------------------------------------------------------
// C15: classification and conversions
// -------------------------------------------------------------------------------------------
/// every public way of formatting an enum value with a format: the value-level dispatch (`format_narsese`), the
/// `FormatTo` impl of the Narsese value (`format(&value)`, `value.format_to(fmt)`), and the three ways of formatting
/// the payload directly (`format_term / _sentence / _task`, `format(&payload)`, `payload.format_to(fmt)`).
/// None = the entry point panicked
pub fn enum_format_entries(e: &'static EFmt, v: &Narsese) -> Vec<(&'static str, Option<String>)> {
    use narsese::api::FormatTo;
    let mut out: Vec<(&'static str, Option<String>)> = vec![
        ("format_narsese", guard(|| e.format_narsese(v))),
        ("format(&Narsese)", guard(|| e.format(v))),
        ("Narsese::format_to", guard(|| FormatTo::format_to(v, e))),
    ];
    match v {
        Narsese::Term(t) => {
            out.push(("format_term", guard(|| e.format_term(t))));
            out.push(("format(&Term)", guard(|| e.format(t))));
            out.push(("Term::format_to", guard(|| FormatTo::format_to(t, e))));
        }
        Narsese::Sentence(s) => {
            out.push(("format_sentence", guard(|| e.format_sentence(s))));
            out.push(("format(&Sentence)", guard(|| e.format(s))));
            out.push(("Sentence::format_to", guard(|| FormatTo::format_to(s, e))));
        }
        Narsese::Task(k) => {
            out.push(("format_task", guard(|| e.format_task(k))));
            out.push(("format(&Task)", guard(|| e.format(k))));
            out.push(("Task::format_to", guard(|| FormatTo::format_to(k, e))));
        }
    }
    out
}

/// the same for a lexical value and a lexical format
pub fn lex_format_entries(l: &'static narsese::conversion::string::impl_lexical::NarseseFormat, v: &narsese::lexical::Narsese) -> Vec<(&'static str, Option<String>)> {
    use narsese::api::FormatTo;
    use narsese::lexical::Narsese as LN;
    let mut out: Vec<(&'static str, Option<String>)> = vec![
        ("lexical format_narsese", guard(|| l.format_narsese(v))),
        ("lexical format(&Narsese)", guard(|| l.format(v))),
        ("lexical Narsese::format_to", guard(|| FormatTo::format_to(v, l))),
    ];
    match v {
        LN::Term(t) => {
            out.push(("lexical format_term", guard(|| l.format_term(t))));
            out.push(("lexical format(&Term)", guard(|| l.format(t))));
        }
        LN::Sentence(s) => {
            out.push(("lexical format_sentence", guard(|| l.format_sentence(s))));
            out.push(("lexical format(&Sentence)", guard(|| l.format(s))));
        }
        LN::Task(k) => {
            out.push(("lexical format_task", guard(|| l.format_task(k))));
            out.push(("lexical format(&Task)", guard(|| l.format(k))));
        }
    }
    out
}

fn lkind(v: &narsese::lexical::Narsese) -> usize {
    if v.is_task() {
        2
    } else if v.is_sentence() {
        1
    } else {
        0
    }
}

pub fn run_c15(o: &Opts) -> Report {
    let mut rep = Report::new(
        "C15",
        "item combinations (budget present / empty / absent) x (term) x (punctuation present / absent) x stamp x truth, in all three formats, through both parsers: real outcome vs model (enum) and the classification table; casts: sentence->task->sentence, task->sentence iff empty budget (else handed back unchanged), NarseseValue wrap/unwrap (9 accessor combinations), \
         format(cast_to_task(s)) parses to a task with an empty budget in both models, through EVERY public formatting entry point (format_narsese on the wrapped value, format_task, format / FormatTo on the value and on the payload; enum and lexical), the text compared with the model formatters (lexical cases run by Run/LexRun.v); kind(parse(format(v))) = kind(v) through every entry point; truth / budget number lists of 0..4 values with 0-2 trailing separators and blanks inside the brackets through both parsers; distinct = distinct (format, text); non-trivial = all",
    );
    let mut rng = Rng::new(o.seed ^ 0xC15);
    let mut cx = Ctx { rep: &mut rep, cases: vec![], lcases: vec![], ldescr: vec![] };
    for fm in formats() {
        let e = fm.e;
        let g = term_gen_for(&fm, 3, 3);
        let n = (o.n / 6).max(12);
        for i in 0..n {
            let term = g.term(&mut rng, 1);
            if c01_known(e, &Narsese::Term(term.clone()), &e.format_term(&term)).is_some() {
                continue;
            }
            let t_s = e.format_term(&term);
            let budget = match i % 3 {
                0 => None,
                1 => Some(Budget::Empty),
                _ => Some(gen_budget(&mut rng)),
            };
            let punct = if (i / 3) % 2 == 0 { Some(rng.pick(&[Punctuation::Judgement, Punctuation::Goal, Punctuation::Question, Punctuation::Quest]).clone()) } else { None };
            let stamp = if rng.chance(1, 2) { Some(gen_stamp(&mut rng)) } else { None };
            let truth = if rng.chance(1, 2) { Some(gen_truth(&mut rng)) } else { None };
            let mut s = String::new();
            if let Some(b) = &budget {
                s.push_str(&e.format_budget(b));
                s.push_str(e.space.format_items);
            }
            s.push_str(&t_s);
            if let Some(p) = &punct {
                s.push_str(&e.format_punctuation(p));
            }
            if let Some(st) = &stamp {
                let x = e.format_stamp(st);
                if !x.is_empty() {
                    s.push_str(e.space.format_items);
                    s.push_str(&x);
                }
            }
            if let Some(tr) = &truth {
                let x = e.format_truth(tr);
                if !x.is_empty() {
                    s.push_str(e.space.format_items);
                    s.push_str(&x);
                }
            }
            let want_kind = match (&budget, &punct) {
                (Some(_), Some(_)) => 2,
                (None, Some(_)) => 1,
                (_, None) => 0,
            };
            // Han: a top-level text starting with the budget bracket is K2 territory; the classification is still defined by the items present
            let r = cx.parse_case(&fm, &s);
            cx.rep.hist.add(format!("{}:budget={}:punct={}:{}", fm.name, budget.is_some(), punct.is_some(), pr_tag(&r)));
            match &r {
                Ok(Some(v)) => {
                    if kind_of(v) != want_kind {
                        cx.fail("classify", "enum parser: wrong kind for the items present", format!("[{}] {:?}", fm.name, s), ["term", "sentence", "task"][want_kind].into(), ["term", "sentence", "task"][kind_of(v)].into(), None);
                    }
                }
                _ => cx.fail("classify", "enum parser rejected a well-formed item combination", format!("[{}] {:?}", fm.name, s), "Ok".into(), canon_pr(&r), None),
            }
            let lr = guard(|| fm.l.parse(&s).ok());
            cx.rep.evaluations += 1;
            match lr {
                Some(Some(lv)) => {
                    let k = if lv.is_task() { 2 } else if lv.is_sentence() { 1 } else { 0 };
                    if k != want_kind {
                        cx.fail("classify", "lexical parser: wrong kind for the items present", format!("[{}] {:?}", fm.name, s), ["term", "sentence", "task"][want_kind].into(), ["term", "sentence", "task"][k].into(), None);
                    }
                }
                _ => cx.fail("classify", "lexical parser rejected / panicked on a well-formed item combination", format!("[{}] {:?}", fm.name, s), "Ok".into(), "Err/PANIC".into(), None),
            }
        }
        // both parsers must classify identically, also around the `$`-variable / budget back-off
        for s in boundary_inputs(e) {
            if s.chars().count() > 40 {
                continue;
            }
            let r = cx.parse_case(&fm, &s);
            let lr = guard(|| fm.l.parse(&s).ok());
            cx.rep.evaluations += 1;
            if let (Ok(Some(v)), Some(Some(lv))) = (&r, &lr) {
                let k = if lv.is_task() { 2 } else if lv.is_sentence() { 1 } else { 0 };
                if k != kind_of(v) {
                    cx.fail("classify", "enum and lexical parser classify the same text differently", format!("[{}] {:?}", fm.name, s), ["term", "sentence", "task"][k].into(), ["term", "sentence", "task"][kind_of(v)].into(), None);
                }
            }
        }
        // number lists of every length 0..4 with 0-2 trailing separators and blanks inside the brackets (truth: sentence,
        // budget: task): every text against the model; where the list is one the README grammar allows and a writer would
        // use (1..=full values, at most one trailing separator) both parsers must accept it and classify it by the items
        // present; elsewhere (empty, over-full, `;;`) the two parsers are compared only when both accept
        for nl in number_list_texts(e) {
            let in_domain = nl.len >= 1 && nl.len <= nl.full && nl.trail <= 1;
            let want_kind = if nl.kind == ItemKind::Budget { 2 } else { 1 };
            // the dense text, the all-blank text and two single-blank texts per list (C09 runs all of them)
            let k = nl.texts.len();
            for (j, s) in nl.texts.iter().enumerate() {
                if !(j <= 1 || j + 1 == k || j == k / 2 || j + 2 == k) {
                    continue;
                }
                let r = cx.parse_case(&fm, s);
                let lr = guard(|| fm.l.parse(s).ok());
                cx.rep.evaluations += 1;
                cx.rep.hist.add(format!("{}:number-list:{:?}:len{}:trail{}:{}", fm.name, nl.kind, nl.len, nl.trail, pr_tag(&r)));
                let lk = match &lr {
                    Some(Some(lv)) => Some(if lv.is_task() { 2 } else if lv.is_sentence() { 1 } else { 0 }),
                    _ => None,
                };
                let ek = match &r {
                    Ok(Some(v)) => Some(kind_of(v)),
                    _ => None,
                };
                let names = |k: Option<usize>| k.map(|k| ["term", "sentence", "task"][k]).unwrap_or("Err").to_string();
                if in_domain {
                    if ek != Some(want_kind) || lk != Some(want_kind) {
                        cx.fail("number-lists", "both parsers must classify a text with a well-formed number list by the items present", format!("[{}] {:?}", fm.name, s), names(Some(want_kind)), format!("enum {} / lexical {}", names(ek), names(lk)), None);
                    }
                } else if let (Some(a), Some(b)) = (ek, lk) {
                    if a != b {
                        cx.fail("number-lists", "enum and lexical parser classify the same text differently", format!("[{}] {:?}", fm.name, s), names(lk), names(ek), None);
                    }
                }
            }
        }
        // casts and wrappers on enum values
        for v in value_stream(&mut rng, &fm, n, false) {
            cx.rep.evaluations += 1;
            // kind(parse(format(v))) = kind(v), whichever public entry point formats v (a task stays a task, also with an
            // empty budget; a sentence stays a sentence)
            let v_text = e.format_narsese(&v);
            if c01_known(e, &v, &v_text).is_none() && v_text.chars().count() <= 400 {
                let mut seen: Vec<String> = vec![];
                for (entry, text) in enum_format_entries(e, &v) {
                    cx.rep.evaluations += 1;
                    let Some(text) = text else {
                        cx.fail("entries", &format!("{} panicked", entry), format!("[{}] {}", fm.name, canon_narsese(&v)), "a string".into(), "PANIC".into(), None);
                        continue;
                    };
                    if seen.contains(&text) {
                        continue; // the same text as an earlier entry point's
                    }
                    let r = cx.parse_case(&fm, &text);
                    seen.push(text.clone());
                    if !matches!(&r, Ok(Some(w)) if kind_of(w) == kind_of(&v)) {
                        cx.fail("entries", &format!("kind(parse({}(v))) differs from kind(v)", entry), format!("[{}] {:?} = {} of {}", fm.name, text, entry, canon_narsese(&v)), ["term", "sentence", "task"][kind_of(&v)].into(), canon_pr(&r), None);
                    }
                }
                cx.rep.hist.add(format!("{}:entry-points:{}:{}-distinct-text(s)", fm.name, ["term", "sentence", "task"][kind_of(&v)], seen.len()));
            }
            match &v {
                Narsese::Sentence(s) => {
                    let k: Task = s.clone().cast_to_task();
                    if !matches!(k.get_budget(), Budget::Empty) {
                        cx.fail("casts", "cast_to_task must give an empty budget", canon_narsese(&v), "empty".into(), format!("{:?}", k.get_budget()), None);
                    }
                    match k.clone().try_cast_to_sentence() {
                        Ok(s2) if &s2 == s => {}
                        other => cx.fail("casts", "sentence -> task -> sentence must return the original", canon_narsese(&v), "Ok(original)".into(), format!("{:?}", other.is_ok()), None),
                    }
                    if c01_known(e, &v, &e.format_narsese(&v)).is_none() {
                        // EVERY public formatting entry point on the cast task (the value-level dispatch of format_narsese
                        // and the FormatTo impls are separate code from format_task); the text of format_narsese is also
                        // compared with the model formatter
                        let wrapped = Narsese::Task(k.clone());
                        let _ = cx.fmt_case(&fm, &wrapped);
                        let mut seen: Vec<String> = vec![];
                        for (entry, text) in enum_format_entries(e, &wrapped) {
                            cx.rep.evaluations += 1;
                            cx.rep.hist.add(format!("{}:cast-task-formatted-by:{}", fm.name, entry));
                            let Some(text) = text else {
                                cx.fail("casts", &format!("{} panicked on cast_to_task(s)", entry), format!("[{}] {}", fm.name, canon_narsese(&wrapped)), "a string".into(), "PANIC".into(), None);
                                continue;
                            };
                            // the model parses every distinct text once
                            let r = if seen.contains(&text) { real_parse(e, &text) } else { cx.parse_case(&fm, &text) };
                            seen.push(text.clone());
                            let ok = matches!(&r, Ok(Some(Narsese::Task(t))) if matches!(t.get_budget(), Budget::Empty) && canon_narsese(&Narsese::Sentence(t.get_sentence().clone())) == canon_narsese(&v));
                            if !ok {
                                cx.fail("casts", &format!("{}(cast_to_task(s)) must parse to a task with an empty budget", entry), format!("[{}] {:?} = {} of {}", fm.name, text, entry, canon_narsese(&wrapped)), "Task(s, Empty)".into(), canon_pr(&r), c01_known(e, &wrapped, &text));
                            }
                        }
                    }
                    let as_task = v.clone().try_into_task_compatible();
                    if !matches!(&as_task, Ok(t) if *t == k) {
                        cx.fail("casts", "try_into_task_compatible(Sentence s) must be cast_to_task(s)", canon_narsese(&v), "Ok".into(), format!("{:?}", as_task.is_ok()), None);
                    }
                }
                Narsese::Task(k) => {
                    let empty = matches!(k.get_budget(), Budget::Empty);
                    match k.clone().try_cast_to_sentence() {
                        Ok(s) => {
                            if !empty || &s != k.get_sentence() {
                                cx.fail("casts", "task -> sentence succeeds only for an empty budget and returns the sentence", canon_narsese(&v), "".into(), "Ok".into(), None);
                            }
                        }
                        Err(back) => {
                            if empty || &back != k {
                                cx.fail("casts", "task with a non-empty budget must be handed back unchanged", canon_narsese(&v), "".into(), "Err".into(), None);
                            }
                        }
                    }
                }
                Narsese::Term(_) => {}
            }
            // the lexical model: the same casts on the lexical value of the same text, and on hand-built budgets with blank entries
            if let Some(Some(lv)) = guard(|| fm.l.parse(&e.format_narsese(&v)).ok()) {
                use narsese::lexical::{Narsese as LN, Task as LTask};
                // kind(parse(format(lv))) = kind(lv) through every public entry point of the lexical formatter (domain: values
                // whose format_narsese text reads back as themselves)
                if guard(|| fm.l.parse(&fm.l.format_narsese(&lv)).ok()).flatten().as_ref() == Some(&lv) {
                    let mut seen: Vec<String> = vec![];
                    for (entry, text) in lex_format_entries(fm.l, &lv) {
                        cx.rep.evaluations += 1;
                        let Some(text) = text else {
                            cx.fail("entries", &format!("{} panicked", entry), format!("[{}] {:?}", fm.name, lv), "a string".into(), "PANIC".into(), None);
                            continue;
                        };
                        if seen.contains(&text) {
                            continue;
                        }
                        seen.push(text.clone());
                        let r = crate::lexprops::real_lex_parse(fm.l, &text);
                        if !matches!(&r, Ok(Some(w)) if lkind(w) == lkind(&lv)) {
                            cx.fail("entries", &format!("kind(parse({}(v))) differs from kind(v)", entry), format!("[{}] {:?} = {} of {:?}", fm.name, text, entry, lv), ["term", "sentence", "task"][lkind(&lv)].into(), format!("{:?}", r), None);
                        }
                    }
                }
                match lv {
                    LN::Sentence(ls) => {
                        let lk: LTask = ls.clone().cast_to_task();
                        if !lk.budget.is_empty() || lk.clone().try_cast_to_sentence().ok().as_ref() != Some(&ls) {
                            cx.fail("casts", "lexical: sentence -> task -> sentence must return the original", canon_narsese(&v), "Ok(original)".into(), format!("{:?}", lk), None);
                        }
                        // the lexical model: every formatting entry point on the cast task; the text must parse (lexical
                        // parser) to a task with an empty budget around the same sentence.  Domain: sentences whose own
                        // text reads back as themselves (the Han ambiguities of C02 are not this property's business)
                        let own = guard(|| fm.l.parse(&fm.l.format_sentence(&ls)).ok()).flatten();
                        if own == Some(LN::Sentence(ls.clone())) {
                            let lwrapped = LN::Task(lk.clone());
                            let mut seen: Vec<String> = vec![];
                            for (entry, text) in lex_format_entries(fm.l, &lwrapped) {
                                cx.rep.evaluations += 1;
                                cx.rep.hist.add(format!("{}:cast-task-formatted-by:{}", fm.name, entry));
                                let Some(text) = text else {
                                    cx.fail("casts", &format!("{} panicked on cast_to_task(s)", entry), format!("[{}] {:?}", fm.name, lwrapped), "a string".into(), "PANIC".into(), None);
                                    continue;
                                };
                                if entry == "lexical format_narsese" {
                                    cx.lcases.push(format!("LFmtC {} {} {}", fm.idx, crate::lexprops::clnarsese(&lwrapped), cstr(&text)));
                                    cx.ldescr.push(format!("lexical format[{}] {:?}", fm.name, lwrapped));
                                }
                                let r = crate::lexprops::real_lex_parse(fm.l, &text);
                                if !seen.contains(&text) {
                                    let lit = match &r {
                                        Ok(Some(x)) => format!("(LOk {})", crate::lexprops::clnarsese(x)),
                                        Ok(None) => "LErr".into(),
                                        Err(()) => "LPanic".into(),
                                    };
                                    cx.lcases.push(format!("LParseC {} {} {}", fm.idx, cstr(&text), lit));
                                    cx.ldescr.push(format!("lexical parse[{}] {:?}", fm.name, text));
                                    seen.push(text.clone());
                                }
                                let ok = matches!(&r, Ok(Some(LN::Task(t))) if t.budget.is_empty() && t.sentence == ls);
                                if !ok {
                                    cx.fail("casts", &format!("{}(cast_to_task(s)) must parse to a task with an empty budget", entry), format!("[{}] {:?} = {} of {:?}", fm.name, text, entry, lwrapped), "Task(s, [])".into(), format!("{:?}", r), None);
                                }
                            }
                        } else {
                            cx.rep.hist.add(format!("{}:lexical-sentence-does-not-read-back-as-itself", fm.name));
                        }
                        for blank in [vec!["".to_string()], vec!["".to_string(), "".to_string()], vec!["0.5".to_string()], vec!["".to_string(), "0.5".to_string()]] {
                            let t2 = LTask { budget: blank.clone(), sentence: ls.clone() };
                            match t2.clone().try_cast_to_sentence() {
                                Err(back) if back == t2 => {}
                                other => cx.fail("casts", "lexical: a task with a non-empty budget list must be handed back unchanged", format!("budget {:?} on {}", blank, canon_narsese(&v)), "Err(same task)".into(), format!("{:?}", other.is_ok()), None),
                            }
                        }
                    }
                    LN::Task(lk) => {
                        let empty = lk.budget.is_empty();
                        match lk.clone().try_cast_to_sentence() {
                            Ok(s2) if empty && s2 == lk.sentence => {}
                            Err(back) if !empty && back == lk => {}
                            other => cx.fail("casts", "lexical: task -> sentence succeeds exactly for an empty budget", canon_narsese(&v), format!("empty={}", empty), format!("{:?}", other.is_ok()), None),
                        }
                    }
                    LN::Term(_) => {}
                }
            }
            // the wrappers and casts of the value, model (Model/Access.v NValue section, Model/Sentence.v casts) vs real trait
            // methods (model mutation testing: flipped is_term / is_sentence / is_task survived -- these model functions were
            // used by theorems but compared with the code nowhere)
            {
                let it = v.clone().try_into_term().ok().map(Narsese::Term);
                let is = v.clone().try_into_sentence().ok().map(Narsese::Sentence);
                let ik = v.clone().try_into_task().ok().map(Narsese::Task);
                let compat = v.clone().try_into_task_compatible().ok().map(Narsese::Task);
                let (ok, back) = match TryCastToSentence::try_cast_to_sentence(v.clone()) {
                    Ok(w) => (true, w),
                    Err(w) => (false, w),
                };
                cx.push(
                    format!(
                        "ECast {} ({}, {}, {}) {} {} {} {} ({}, {})",
                        cnarsese(&v),
                        cbool(v.is_term()),
                        cbool(v.is_sentence()),
                        cbool(v.is_task()),
                        copt(&it, cnarsese),
                        copt(&is, cnarsese),
                        copt(&ik, cnarsese),
                        copt(&compat, cnarsese),
                        cbool(ok),
                        cnarsese(&back)
                    ),
                    format!("casts[{}] {}", fm.name, canon_narsese(&v)),
                );
                cx.rep.evaluations += 1;
                cx.rep.hist.add(format!("casts:{}:to_sentence={}", ["term", "sentence", "task"][kind_of(&v)], ok));
            }
            // wrap / unwrap
            let kind = kind_of(&v);
            let a = v.clone().try_into_term().is_ok();
            let b = v.clone().try_into_sentence().is_ok();
            let c = v.clone().try_into_task().is_ok();
            if (a, b, c) != (kind == 0, kind == 1, kind == 2) || (v.is_term(), v.is_sentence(), v.is_task()) != (kind == 0, kind == 1, kind == 2) {
                cx.fail("wrappers", "exactly the matching accessor succeeds", canon_narsese(&v), format!("{}", kind), format!("{:?}", (a, b, c)), None);
            }
            // the std conversions (TryFrom<Narsese> for Term / Sentence / Task) obey the same table
            {
                let t = Term::try_from(v.clone()).is_ok();
                let s2 = Sentence::try_from(v.clone()).is_ok();
                let k2 = Task::try_from(v.clone()).is_ok();
                if (t, s2, k2) != (kind == 0, kind == 1, kind == 2) {
                    cx.fail("wrappers", "TryFrom<Narsese>: exactly the matching conversion succeeds", canon_narsese(&v), format!("{}", kind), format!("{:?}", (t, s2, k2)), None);
                }
                if let Narsese::Sentence(sv) = &v {
                    let as_task = Narsese::Task(sv.clone().cast_to_task());
                    if Sentence::try_from(as_task.clone()).is_ok() || as_task.clone().try_into_sentence().is_ok() || Term::try_from(as_task).is_ok() {
                        cx.fail("wrappers", "a task with an empty budget is still a task: non-matching accessors / conversions must fail", canon_narsese(&v), "Err".into(), "Ok".into(), None);
                    }
                }
            }
            let back: Narsese = match v.clone() {
                Narsese::Term(t) => Narsese::from_term(t).try_into_term().map(Narsese::Term).unwrap_or(Narsese::Term(Term::Placeholder)),
                Narsese::Sentence(s) => Narsese::from_sentence(s).try_into_sentence().map(Narsese::Sentence).unwrap_or(Narsese::Term(Term::Placeholder)),
                Narsese::Task(t) => Narsese::from_task(t).try_into_task().map(Narsese::Task).unwrap_or(Narsese::Term(Term::Placeholder)),
            };
            if back != v {
                cx.fail("wrappers", "wrap then unwrap with the matching accessor returns the value", canon_narsese(&v), canon_narsese(&v), canon_narsese(&back), None);
            }
        }
    }
    // empty truth / budget brackets written out, every position and format, both parsers (see lexprops::empty_bracket_texts)
    crate::lexprops::c15_empty_brackets(cx.rep, &mut cx.lcases, &mut cx.ldescr);
    let cases = std::mem::take(&mut cx.cases);
    let lcases = std::mem::take(&mut cx.lcases);
    let ldescr = std::mem::take(&mut cx.ldescr);
    let mut rep = finish(o, "C15", rep, cases.clone());
    // second group of shards: the lexical cases, evaluated by the lexical runner; their indices continue the enum cases'
    if !lcases.is_empty() {
        let off = cases.len();
        let extra = write_shards(&o.outdir, "C15L", "Nv.Run.LexRun", "mismatches_lex", "lcase", "N_scope", &lcases, (o.shards / 4).max(1), "").unwrap();
        rep.shards.extend(extra.into_iter().map(|(p, lo, hi)| (p, lo + off, hi + off)));
        rep.case_descr.extend(ldescr);
        rep.evaluations += lcases.len() as u64;
    }
    rep
}
