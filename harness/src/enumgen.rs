//! Generators for the string-conversion properties: enum Narsese values, an independent token-level
//! formatter (for re-spacing and sugar variants), malformed-input mutators, serialisation of values.
use crate::coqw::*;
use crate::gen::*;
use crate::prng::Rng;
use crate::ser::*;
use narsese::api::{GetBudget, GetPunctuation, GetStamp, GetTerm, GetTruth};
use narsese::conversion::string::impl_enum::format_instances::{FORMAT_ASCII, FORMAT_HAN, FORMAT_LATEX};
use narsese::conversion::string::impl_enum::NarseseFormat;
use narsese::conversion::string::impl_lexical::format_instances as lexf;
use narsese::conversion::string::impl_lexical::NarseseFormat as LexFormat;
use narsese::enum_narsese::{Budget, Narsese, Punctuation, Sentence, Stamp, Task, Term, Truth};

pub type EFmt = NarseseFormat<&'static str>;

pub struct Fm {
    pub idx: usize,
    pub name: &'static str,
    pub e: &'static EFmt,
    pub l: &'static LexFormat,
}

pub fn formats() -> Vec<Fm> {
    vec![
        Fm { idx: 0, name: "ascii", e: &FORMAT_ASCII, l: &lexf::FORMAT_ASCII },
        Fm { idx: 1, name: "latex", e: &FORMAT_LATEX, l: &lexf::FORMAT_LATEX },
        Fm { idx: 2, name: "han", e: &FORMAT_HAN, l: &lexf::FORMAT_HAN },
    ]
}

pub fn term_gen_for(fm: &Fm, depth: usize, width: usize) -> TermGen {
    let e: &'static EFmt = fm.e;
    TermGen {
        max_depth: depth,
        max_width: width,
        style: match fm.idx {
            0 => NameStyle::Ascii,
            1 => NameStyle::Mixed,
            _ => NameStyle::Han,
        },
        name_ok: Box::new(move |n| crate::wf::wf_name(e, n)),
        wild: false,
    }
}

// ---------------------------------------------------------------------------------------------
// values
// ---------------------------------------------------------------------------------------------
const FLOATS: &[f64] = &[0.0, 1.0, 0.5, 0.9, 0.1, 0.75, 0.4, 0.123456789, 1e-7, 0.3333333333333333, 0.999, 5e-324, 0.000244140625, 0.7000000000000001];

pub fn gen_float(rng: &mut Rng) -> f64 {
    match rng.below(10) {
        0..=5 => *rng.pick(FLOATS),
        6 => (rng.below(1001) as f64) / 1000.0,
        7 => f64::from_bits(rng.next() % 0x3FF0_0000_0000_0001),
        _ => (rng.next() >> 11) as f64 / (1u64 << 53) as f64,
    }
}

pub fn gen_stamp(rng: &mut Rng) -> Stamp {
    match rng.below(9) {
        0 | 1 | 2 => Stamp::Eternal,
        3 => Stamp::Past,
        4 => Stamp::Present,
        5 => Stamp::Future,
        _ => Stamp::Fixed(match rng.below(7) {
            0 => 0,
            1 => -1,
            2 => isize::MAX,
            3 => isize::MIN,
            4 => rng.below(100000) as isize,
            5 => -(rng.below(100000) as isize),
            _ => rng.next() as isize,
        }),
    }
}

pub fn gen_truth(rng: &mut Rng) -> Truth {
    match rng.below(3) {
        0 => Truth::Empty,
        1 => Truth::Single(gen_float(rng)),
        _ => Truth::Double(gen_float(rng), gen_float(rng)),
    }
}

pub fn gen_budget(rng: &mut Rng) -> Budget {
    match rng.below(4) {
        0 => Budget::Empty,
        1 => Budget::Single(gen_float(rng)),
        2 => Budget::Double(gen_float(rng), gen_float(rng)),
        _ => Budget::Triple(gen_float(rng), gen_float(rng), gen_float(rng)),
    }
}

pub fn gen_sentence(rng: &mut Rng, term: Term) -> Sentence {
    let stamp = gen_stamp(rng);
    match rng.below(4) {
        0 => Sentence::Judgement(term, gen_truth(rng), stamp),
        1 => Sentence::Goal(term, gen_truth(rng), stamp),
        2 => Sentence::Question(term, stamp),
        _ => Sentence::Quest(term, stamp),
    }
}

/// kind: 0 term, 1 sentence, 2 task
pub fn gen_narsese(rng: &mut Rng, g: &TermGen, kind: usize, top: Option<usize>) -> Narsese {
    let mut term = match top {
        Some(k) => g.term_of(rng, 0, k),
        None => {
            if rng.chance(1, 6) {
                g.atom(rng)
            } else {
                g.term(rng, 0)
            }
        }
    };
    if rng.chance(1, 40) {
        // placeholder components (K1 region and its harmless neighbours)
        term = Term::ImageExtension(rng.below(3), vec![Term::Placeholder, g.atom(rng)]);
    }
    match kind {
        0 => Narsese::Term(term),
        1 => Narsese::Sentence(gen_sentence(rng, term)),
        _ => Narsese::Task(Task::new(gen_sentence(rng, term), gen_budget(rng))),
    }
}

// ---------------------------------------------------------------------------------------------
// serialisation to the model's value types (floats as raw bit patterns)
// ---------------------------------------------------------------------------------------------
pub fn zbits(f: f64) -> String {
    format!("{}%Z", f.to_bits())
}
pub fn ctruth(t: &Truth) -> String {
    match t {
        Truth::Empty => "TruthEmpty".into(),
        Truth::Single(f) => format!("(TruthSingle {})", zbits(*f)),
        Truth::Double(f, c) => format!("(TruthDouble {} {})", zbits(*f), zbits(*c)),
    }
}
pub fn cbudget(b: &Budget) -> String {
    match b {
        Budget::Empty => "BudgetEmpty".into(),
        Budget::Single(p) => format!("(BudgetSingle {})", zbits(*p)),
        Budget::Double(p, d) => format!("(BudgetDouble {} {})", zbits(*p), zbits(*d)),
        Budget::Triple(p, d, q) => format!("(BudgetTriple {} {} {})", zbits(*p), zbits(*d), zbits(*q)),
    }
}
pub fn cstamp(s: &Stamp) -> String {
    match s {
        Stamp::Eternal => "Eternal".into(),
        Stamp::Past => "Past".into(),
        Stamp::Present => "Present".into(),
        Stamp::Future => "Future".into(),
        Stamp::Fixed(t) => format!("(Fixed ({})%Z)", t),
    }
}
pub fn cpunct(p: &Punctuation) -> &'static str {
    match p {
        Punctuation::Judgement => "Judgement",
        Punctuation::Goal => "Goal",
        Punctuation::Question => "Question",
        Punctuation::Quest => "Quest",
    }
}
pub fn csentence(s: &Sentence) -> String {
    match s {
        Sentence::Judgement(t, tr, st) => format!("(SJudgement {} {} {})", cterm(t), ctruth(tr), cstamp(st)),
        Sentence::Goal(t, tr, st) => format!("(SGoal {} {} {})", cterm(t), ctruth(tr), cstamp(st)),
        Sentence::Question(t, st) => format!("(SQuestion {} {})", cterm(t), cstamp(st)),
        Sentence::Quest(t, st) => format!("(SQuest {} {})", cterm(t), cstamp(st)),
    }
}
pub fn cnarsese(v: &Narsese) -> String {
    match v {
        Narsese::Term(t) => format!("(NTerm {})", cterm(t)),
        Narsese::Sentence(s) => format!("(NSentence {})", csentence(s)),
        Narsese::Task(k) => format!("(NTask ({}, {}))", csentence(k.get_sentence()), cbudget(k.get_budget())),
    }
}

pub fn floats_of(v: &Narsese) -> Vec<f64> {
    let mut out = vec![];
    let (s, b): (Option<&Sentence>, Option<&Budget>) = match v {
        Narsese::Term(_) => (None, None),
        Narsese::Sentence(s) => (Some(s), None),
        Narsese::Task(k) => (Some(k.get_sentence()), Some(k.get_budget())),
    };
    if let Some(s) = s {
        match s.get_truth() {
            Some(Truth::Single(f)) => out.push(*f),
            Some(Truth::Double(f, c)) => {
                out.push(*f);
                out.push(*c)
            }
            _ => {}
        }
    }
    match b {
        Some(Budget::Single(p)) => out.push(*p),
        Some(Budget::Double(p, d)) => {
            out.push(*p);
            out.push(*d)
        }
        Some(Budget::Triple(p, d, q)) => {
            out.push(*p);
            out.push(*d);
            out.push(*q)
        }
        _ => {}
    }
    out
}

pub fn shown_table(v: &Narsese) -> String {
    let fs = floats_of(v);
    clist(&fs, |f| format!("({}, {})", zbits(*f), cstr(&f.to_string())))
}

/// semantic canonical form of a whole value (reference for "semantically identical")
pub fn canon_narsese(v: &Narsese) -> String {
    let fl = |f: &f64| format!("{:016x}", f.to_bits());
    let tr = |t: Option<&Truth>| match t {
        None => "-".to_string(),
        Some(Truth::Empty) => "%%".to_string(),
        Some(Truth::Single(f)) => format!("%{}%", fl(f)),
        Some(Truth::Double(f, c)) => format!("%{};{}%", fl(f), fl(c)),
    };
    let sent = |s: &Sentence| format!("{}{:?}{:?}{}", canon(s.get_term()), s.get_punctuation(), s.get_stamp(), tr(s.get_truth()));
    match v {
        Narsese::Term(t) => format!("T:{}", canon(t)),
        Narsese::Sentence(s) => format!("S:{}", sent(s)),
        Narsese::Task(k) => {
            let b = match k.get_budget() {
                Budget::Empty => "$$".to_string(),
                Budget::Single(p) => format!("${}$", fl(p)),
                Budget::Double(p, d) => format!("${};{}$", fl(p), fl(d)),
                Budget::Triple(p, d, q) => format!("${};{};{}$", fl(p), fl(d), fl(q)),
            };
            format!("K:{}{}", b, sent(k.get_sentence()))
        }
    }
}

pub fn kind_of(v: &Narsese) -> usize {
    match v {
        Narsese::Term(_) => 0,
        Narsese::Sentence(_) => 1,
        Narsese::Task(_) => 2,
    }
}

// ---------------------------------------------------------------------------------------------
// independent token-level formatter: tokens + canonical gaps
// ---------------------------------------------------------------------------------------------
/// tokens[i] followed by gaps[i] (canonical spacing the formatter emits after token i; last gap "")
#[derive(Clone, Default)]
pub struct Toks {
    pub toks: Vec<String>,
    pub gaps: Vec<String>,
}
impl Toks {
    pub fn push(&mut self, t: &str, gap: &str) {
        self.toks.push(t.to_string());
        self.gaps.push(gap.to_string());
    }
    fn set_last_gap(&mut self, gap: &str) {
        if let Some(g) = self.gaps.last_mut() {
            *g = gap.to_string();
        }
    }
    pub fn canonical(&self) -> String {
        let mut s = String::new();
        for (t, g) in self.toks.iter().zip(self.gaps.iter()) {
            s.push_str(t);
            s.push_str(g);
        }
        s
    }
    /// join with a spacing policy: 0 = no spaces at all, 1 = canonical, 2 = random 0..3 spaces per boundary,
    /// 3 = unicode whitespace (lexical side only)
    pub fn join(&self, policy: usize, rng: &mut Rng, space: &str) -> String {
        let mut s = String::new();
        let n = self.toks.len();
        for (i, t) in self.toks.iter().enumerate() {
            s.push_str(t);
            if i + 1 == n {
                break;
            }
            match policy {
                0 => {}
                1 => s.push_str(&self.gaps[i]),
                2 => {
                    for _ in 0..rng.below(4) {
                        s.push_str(space);
                    }
                }
                _ => {
                    for _ in 0..rng.below(3) {
                        s.push(*rng.pick(&[' ', '\t', '\n', '\u{3000}', '\u{a0}', '\u{2003}']));
                    }
                }
            }
        }
        s
    }
}

/// which derived-copula sugar to use when the term has the desugared shape (C10)
#[derive(Clone, Copy, PartialEq)]
pub enum Sugar {
    None,
    Derived,
}

fn prefix_of<'a>(e: &'a EFmt, t: &Term) -> &'a str {
    match t {
        Term::Word(..) => e.atom.prefix_word,
        Term::Placeholder => e.atom.prefix_placeholder,
        Term::VariableIndependent(..) => e.atom.prefix_variable_independent,
        Term::VariableDependent(..) => e.atom.prefix_variable_dependent,
        Term::VariableQuery(..) => e.atom.prefix_variable_query,
        Term::Interval(..) => e.atom.prefix_interval,
        Term::Operator(..) => e.atom.prefix_operator,
        _ => "",
    }
}

fn connecter_of<'a>(e: &'a EFmt, t: &Term) -> &'a str {
    let c = &e.compound;
    match t {
        Term::IntersectionExtension(..) => c.connecter_intersection_extension,
        Term::IntersectionIntension(..) => c.connecter_intersection_intension,
        Term::DifferenceExtension(..) => c.connecter_difference_extension,
        Term::DifferenceIntension(..) => c.connecter_difference_intension,
        Term::Product(..) => c.connecter_product,
        Term::ImageExtension(..) => c.connecter_image_extension,
        Term::ImageIntension(..) => c.connecter_image_intension,
        Term::Conjunction(..) => c.connecter_conjunction,
        Term::Disjunction(..) => c.connecter_disjunction,
        Term::Negation(..) => c.connecter_negation,
        Term::ConjunctionSequential(..) => c.connecter_conjunction_sequential,
        Term::ConjunctionParallel(..) => c.connecter_conjunction_parallel,
        _ => "",
    }
}

pub fn copula_str<'a>(e: &'a EFmt, t: &Term) -> &'a str {
    copula_of(e, t)
}
fn copula_of<'a>(e: &'a EFmt, t: &Term) -> &'a str {
    let s = &e.statement;
    match t {
        Term::Inheritance(..) => s.copula_inheritance,
        Term::Similarity(..) => s.copula_similarity,
        Term::Implication(..) => s.copula_implication,
        Term::Equivalence(..) => s.copula_equivalence,
        Term::ImplicationPredictive(..) => s.copula_implication_predictive,
        Term::ImplicationConcurrent(..) => s.copula_implication_concurrent,
        Term::ImplicationRetrospective(..) => s.copula_implication_retrospective,
        Term::EquivalencePredictive(..) => s.copula_equivalence_predictive,
        Term::EquivalenceConcurrent(..) => s.copula_equivalence_concurrent,
        _ => "",
    }
}

fn single_of_set(t: &Term, ext: bool) -> Option<&Term> {
    match (t, ext) {
        (Term::SetExtension(s), true) | (Term::SetIntension(s), false) if s.len() == 1 => s.iter().next(),
        _ => None,
    }
}

pub fn term_tokens(e: &EFmt, t: &Term, sugar: Sugar, rng: &mut Rng, out: &mut Toks) {
    let sp = e.space.format_terms;
    let list = |items: Vec<&Term>, out: &mut Toks, rng: &mut Rng| {
        let n = items.len();
        for (i, c) in items.into_iter().enumerate() {
            term_tokens(e, c, sugar, rng, out);
            if i + 1 != n {
                out.set_last_gap("");
                out.push(e.compound.separator, sp);
            }
        }
    };
    match t {
        Term::Word(..) | Term::Placeholder | Term::VariableIndependent(..) | Term::VariableDependent(..)
        | Term::VariableQuery(..) | Term::Interval(..) | Term::Operator(..) => {
            out.push(&format!("{}{}", prefix_of(e, t), t.get_atom_name_unchecked()), "");
        }
        Term::SetExtension(s) | Term::SetIntension(s) => {
            let (l, r) = if matches!(t, Term::SetExtension(..)) { e.compound.brackets_set_extension } else { e.compound.brackets_set_intension };
            out.push(l, "");
            list(s.iter().collect(), out, rng);
            out.set_last_gap("");
            out.push(r, "");
        }
        Term::ImageExtension(i, v) | Term::ImageIntension(i, v) => {
            out.push(e.compound.brackets.0, "");
            out.push(connecter_of(e, t), "");
            out.push(e.compound.separator, sp);
            let ph = Term::Placeholder;
            let mut items: Vec<&Term> = v.iter().collect();
            if *i <= items.len() {
                items.insert(*i, &ph);
            }
            list(items, out, rng);
            out.set_last_gap("");
            out.push(e.compound.brackets.1, "");
        }
        Term::Inheritance(a, b) | Term::Similarity(a, b) | Term::Implication(a, b) | Term::Equivalence(a, b)
        | Term::ImplicationPredictive(a, b) | Term::ImplicationConcurrent(a, b) | Term::ImplicationRetrospective(a, b)
        | Term::EquivalencePredictive(a, b) | Term::EquivalenceConcurrent(a, b) => {
            let st = &e.statement;
            let (mut x, mut y, mut cop): (&Term, &Term, &str) = (a, b, copula_of(e, t));
            if sugar == Sugar::Derived {
                if let Term::Inheritance(..) = t {
                    match (single_of_set(a, true), single_of_set(b, false)) {
                        (Some(s), Some(p)) if rng.chance(2, 3) => {
                            x = s;
                            y = p;
                            cop = st.copula_instance_property;
                        }
                        (Some(s), _) if rng.chance(2, 3) => {
                            x = s;
                            cop = st.copula_instance;
                        }
                        (_, Some(p)) if rng.chance(2, 3) => {
                            y = p;
                            cop = st.copula_property;
                        }
                        _ => {}
                    }
                }
                if let Term::EquivalencePredictive(..) = t {
                    if rng.chance(2, 3) {
                        x = b;
                        y = a;
                        cop = st.copula_equivalence_retrospective;
                    }
                }
            }
            out.push(st.brackets.0, "");
            term_tokens(e, x, sugar, rng, out);
            out.set_last_gap(sp);
            out.push(cop, sp);
            term_tokens(e, y, sugar, rng, out);
            out.set_last_gap("");
            out.push(st.brackets.1, "");
        }
        _ => {
            out.push(e.compound.brackets.0, "");
            out.push(connecter_of(e, t), "");
            out.push(e.compound.separator, sp);
            list(t.get_components(), out, rng);
            out.set_last_gap("");
            out.push(e.compound.brackets.1, "");
        }
    }
}

fn float_tokens(l: &str, sep: &str, r: &str, fs: &[f64], out: &mut Toks) {
    out.push(l, "");
    for (i, f) in fs.iter().enumerate() {
        if i != 0 {
            out.push(sep, "");
        }
        out.push(&f.to_string(), "");
    }
    out.push(r, "");
}

pub fn narsese_tokens(e: &EFmt, v: &Narsese, sugar: Sugar, rng: &mut Rng) -> Toks {
    let mut out = Toks::default();
    let (sentence, budget): (Option<&Sentence>, Option<&Budget>) = match v {
        Narsese::Term(t) => {
            term_tokens(e, t, sugar, rng, &mut out);
            (None, None)
        }
        Narsese::Sentence(s) => (Some(s), None),
        Narsese::Task(k) => (Some(k.get_sentence()), Some(k.get_budget())),
    };
    if let Some(b) = budget {
        let fs: Vec<f64> = match b {
            Budget::Empty => vec![],
            Budget::Single(p) => vec![*p],
            Budget::Double(p, d) => vec![*p, *d],
            Budget::Triple(p, d, q) => vec![*p, *d, *q],
        };
        float_tokens(e.task.budget_brackets.0, e.task.budget_separator, e.task.budget_brackets.1, &fs, &mut out);
        out.set_last_gap(e.space.format_items);
    }
    if let Some(s) = sentence {
        let sep = e.space.format_terms;
        term_tokens(e, s.get_term(), sugar, rng, &mut out);
        out.set_last_gap("");
        out.push(
            match s.get_punctuation() {
                Punctuation::Judgement => e.sentence.punctuation_judgement,
                Punctuation::Goal => e.sentence.punctuation_goal,
                Punctuation::Question => e.sentence.punctuation_question,
                Punctuation::Quest => e.sentence.punctuation_quest,
            },
            "",
        );
        let st = s.get_stamp();
        if !st.is_eternal() {
            out.set_last_gap(sep);
            // empty stamp brackets (LaTeX, Han) are not tokens
            if !e.sentence.stamp_brackets.0.is_empty() {
                out.push(e.sentence.stamp_brackets.0, "");
            }
            match st {
                Stamp::Past => out.push(e.sentence.stamp_past, ""),
                Stamp::Present => out.push(e.sentence.stamp_present, ""),
                Stamp::Future => out.push(e.sentence.stamp_future, ""),
                Stamp::Fixed(t) => {
                    out.push(e.sentence.stamp_fixed, "");
                    out.push(&t.to_string(), "");
                }
                Stamp::Eternal => {}
            }
            if !e.sentence.stamp_brackets.1.is_empty() {
                out.push(e.sentence.stamp_brackets.1, "");
            }
        }
        match s.get_truth() {
            Some(Truth::Single(f)) => {
                out.set_last_gap(sep);
                float_tokens(e.sentence.truth_brackets.0, e.sentence.truth_separator, e.sentence.truth_brackets.1, &[*f], &mut out)
            }
            Some(Truth::Double(f, c)) => {
                out.set_last_gap(sep);
                float_tokens(e.sentence.truth_brackets.0, e.sentence.truth_separator, e.sentence.truth_brackets.1, &[*f, *c], &mut out)
            }
            _ => {}
        }
    }
    out.set_last_gap("");
    out
}

// ---------------------------------------------------------------------------------------------
// known-finding classes of C01 (inherent ambiguities; see DESIGN section 7)
// ---------------------------------------------------------------------------------------------
fn any_term<'a>(t: &'a Term, f: &mut dyn FnMut(&'a Term) -> bool) -> bool {
    if f(t) {
        return true;
    }
    if t.get_atom_name().is_some() {
        return false;
    }
    t.get_components().into_iter().any(|c| any_term(c, f))
}

/// K1: an image whose component list contains a placeholder before its recorded index
pub fn k1(t: &Term) -> bool {
    any_term(t, &mut |x| match x {
        Term::ImageExtension(i, v) | Term::ImageIntension(i, v) => v.iter().take(*i).any(|c| *c == Term::Placeholder),
        _ => false,
    })
}

/// K2 (Han): a value without budget whose text begins like a budget: budget-left, budget content chars, budget-right
pub fn k2(e: &EFmt, v: &Narsese, text: &str) -> bool {
    if kind_of(v) == 2 {
        return false;
    }
    let (l, r) = e.task.budget_brackets;
    let is_name = |s: &str| s.chars().all(crate::wf::is_name_char);
    if !(is_name(l) && is_name(r)) {
        return false; // only formats whose budget brackets are name characters
    }
    if let Some(rest) = text.strip_prefix(l) {
        let sep = e.task.budget_separator;
        let mut rest = rest;
        loop {
            if rest.starts_with(r) {
                return true;
            }
            let mut ch = rest.chars();
            match ch.next() {
                Some(c) if c.is_ascii_digit() || c == '.' || c == ' ' => rest = ch.as_str(),
                Some(_) if rest.starts_with(sep) => rest = &rest[sep.len()..],
                _ => return false,
            }
        }
    }
    false
}

/// K3 (formats that print no space around copulas): a statement whose subject is an atom such that
/// a copula of the format starts inside the name once the following text is appended
pub fn k3(e: &EFmt, t: &Term) -> bool {
    if !e.space.format_terms.is_empty() {
        return false;
    }
    any_term(t, &mut |x| {
        let cop = copula_of(e, x);
        if cop.is_empty() {
            return false;
        }
        let cs = x.get_components();
        let subj = cs[0];
        if let Some(name) = subj.get_atom_name() {
            if matches!(subj, Term::Placeholder) {
                return false;
            }
            let follow = format!("{}{}{}", name, cop, e.format_term(cs[1]));
            let chars: Vec<char> = follow.chars().collect();
            let n = name.chars().count();
            for i in 0..n {
                let tail: String = chars[i..].iter().collect();
                if e.copulas().iter().any(|c| tail.starts_with(c)) {
                    return true;
                }
            }
        }
        false
    })
}

pub fn c01_known(e: &EFmt, v: &Narsese, text: &str) -> Option<&'static str> {
    let t = v.get_term();
    if k1(t) {
        return Some("K1");
    }
    if k2(e, v, text) {
        return Some("K2");
    }
    if k3(e, t) {
        return Some("K3");
    }
    None
}

// ---------------------------------------------------------------------------------------------
// malformed inputs
// ---------------------------------------------------------------------------------------------
pub fn keyword_pool(e: &EFmt) -> Vec<String> {
    let mut v: Vec<&str> = vec![
        e.space.parse,
        e.atom.prefix_placeholder,
        e.atom.prefix_variable_independent,
        e.atom.prefix_variable_dependent,
        e.atom.prefix_variable_query,
        e.atom.prefix_interval,
        e.atom.prefix_operator,
        e.compound.brackets.0,
        e.compound.brackets.1,
        e.compound.separator,
        e.compound.brackets_set_extension.0,
        e.compound.brackets_set_extension.1,
        e.compound.brackets_set_intension.0,
        e.compound.brackets_set_intension.1,
        e.compound.connecter_intersection_extension,
        e.compound.connecter_intersection_intension,
        e.compound.connecter_difference_extension,
        e.compound.connecter_difference_intension,
        e.compound.connecter_product,
        e.compound.connecter_image_extension,
        e.compound.connecter_image_intension,
        e.compound.connecter_conjunction,
        e.compound.connecter_disjunction,
        e.compound.connecter_negation,
        e.compound.connecter_conjunction_sequential,
        e.compound.connecter_conjunction_parallel,
        e.statement.brackets.0,
        e.statement.brackets.1,
        e.sentence.punctuation_judgement,
        e.sentence.punctuation_goal,
        e.sentence.punctuation_question,
        e.sentence.punctuation_quest,
        e.sentence.stamp_brackets.0,
        e.sentence.stamp_brackets.1,
        e.sentence.stamp_past,
        e.sentence.stamp_present,
        e.sentence.stamp_future,
        e.sentence.stamp_fixed,
        e.sentence.truth_brackets.0,
        e.sentence.truth_brackets.1,
        e.sentence.truth_separator,
        e.task.budget_brackets.0,
        e.task.budget_brackets.1,
        e.task.budget_separator,
        "0", "1", "0.5", ".", "-", "+", "a", "9", "1.5", "-1",
        // whitespace other than the format's space keyword (the enum parser skips only that keyword)
        "\t", "\n", "\u{3000}", "\u{a0}", "\u{feff}",
    ];
    v.extend(e.copulas());
    v.into_iter().filter(|s| !s.is_empty()).map(|s| s.to_string()).collect()
}

/// one random mutation of `s` (token or code-point level)
pub fn mutate(s: &str, rng: &mut Rng, pool: &[String]) -> String {
    let chars: Vec<char> = s.chars().collect();
    let n = chars.len();
    let ins = |at: usize, what: &str| -> String {
        let mut out: String = chars[..at].iter().collect();
        out.push_str(what);
        out.extend(chars[at..].iter());
        out
    };
    match rng.below(9) {
        0 if n > 0 => {
            let i = rng.below(n);
            let mut c = chars.clone();
            c.remove(i);
            c.into_iter().collect()
        }
        1 if n > 0 => {
            let i = rng.below(n);
            ins(i, &chars[i].to_string())
        }
        2 if n > 1 => {
            let i = rng.below(n - 1);
            let mut c = chars.clone();
            c.swap(i, i + 1);
            c.into_iter().collect()
        }
        3 | 4 => ins(rng.below(n + 1), rng.pick::<String>(pool).as_str()),
        5 if n > 0 => chars[..rng.below(n)].iter().collect(),
        6 if n > 1 => {
            // delete a span
            let i = rng.below(n);
            let j = (i + 1 + rng.below(4)).min(n);
            let mut out: String = chars[..i].iter().collect();
            out.extend(chars[j..].iter());
            out
        }
        7 if n > 0 => {
            // replace one char by a keyword
            let i = rng.below(n);
            let mut out: String = chars[..i].iter().collect();
            out.push_str(rng.pick::<String>(pool).as_str());
            out.extend(chars[i + 1..].iter());
            out
        }
        _ => {
            // duplicate a span
            if n == 0 {
                return rng.pick(pool).clone();
            }
            let i = rng.below(n);
            let j = (i + 1 + rng.below(6)).min(n);
            let span: String = chars[i..j].iter().collect();
            ins(j, &span)
        }
    }
}

/// structured stress inputs: unbalanced nesting up to `depth`, long digit runs, 512-char inputs
pub fn stress_inputs(e: &EFmt, rng: &mut Rng, depth: usize) -> Vec<String> {
    let mut out = vec![];
    let c = &e.compound;
    let openers: Vec<String> = vec![
        format!("{}{}{}", c.brackets.0, c.connecter_product, c.separator),
        format!("{}{}{} ", c.brackets.0, c.connecter_conjunction, c.separator),
        c.brackets_set_extension.0.to_string(),
        c.brackets_set_intension.0.to_string(),
        e.statement.brackets.0.to_string(),
        format!("{}{}", c.brackets.0, c.connecter_negation),
        c.brackets.0.to_string(),
    ];
    for d in [1usize, 2, 3, 4, 5, 6, 8, 16, 32, depth] {
        for _ in 0..2 {
            let mut s = String::new();
            for _ in 0..d {
                s.push_str(rng.pick::<String>(&openers).as_str());
            }
            s.push('a');
            out.push(s.clone());
            // close some of them
            let closers = [c.brackets.1, c.brackets_set_extension.1, c.brackets_set_intension.1, e.statement.brackets.1];
            for _ in 0..rng.below(d + 1) {
                s.push_str(*rng.pick::<&str>(&closers));
            }
            out.push(s.clone());
            s.push_str(e.sentence.punctuation_judgement);
            out.push(s);
        }
    }
    // balanced deep nesting
    for d in [8usize, 32, depth] {
        let mut s = String::new();
        for _ in 0..d {
            s.push_str(c.brackets.0);
            s.push_str(c.connecter_negation);
            s.push_str(c.separator);
        }
        s.push('a');
        for _ in 0..d {
            s.push_str(c.brackets.1);
        }
        out.push(s);
    }
    let digits: String = (0..400).map(|i| char::from(b'0' + (i % 10) as u8)).collect();
    out.push(format!("{}{}{}", e.sentence.truth_brackets.0, digits, e.sentence.truth_brackets.1));
    out.push(format!("a{} {}0.{}{}", e.sentence.punctuation_judgement, e.sentence.truth_brackets.0, digits, e.sentence.truth_brackets.1));
    out.push(format!("{}{}{} a{}", e.task.budget_brackets.0, digits, e.task.budget_brackets.1, e.sentence.punctuation_goal));
    out.push(format!("a{} {}{}{}{}", e.sentence.punctuation_judgement, e.sentence.stamp_brackets.0, e.sentence.stamp_fixed, digits, e.sentence.stamp_brackets.1));
    out.push(format!("{}{}", e.atom.prefix_interval, digits));
    out.push("a".repeat(512));
    out.push(format!("{}{}", e.statement.brackets.0, "a ".repeat(255)));
    out.push(String::new());
    out.push(" ".to_string());
    out.push(e.space.parse.repeat(40));
    // every prefix of a typical task
    out
}

// ---------------------------------------------------------------------------------------------
// rejected atoms / rejected number lists with long multi-byte payloads
// ---------------------------------------------------------------------------------------------
/// Atom names whose UTF-8 layout puts a character boundary at EVERY byte offset modulo the character width, from the
/// start and from the end of the name: a run of one character of 1, 2, 3 or 4 bytes, of every total length in `lens`
/// (in chars), preceded by 0..width ASCII digits or followed by 0..width ASCII digits.  Any byte-indexed cut of the
/// name (`&s[..n]`, `&s[s.len() - n..]`, `String::truncate(n)`) lands inside a character for one of them as soon as
/// the name is longer than `n` bytes.  The 1-byte runs are the over-long numbers (`999..9`, rejected by intervals from
/// 20 digits on) and the plain non-numeric names.
pub fn payload_names(lens: &[usize]) -> Vec<String> {
    let mut out = vec![];
    for (w, ch) in [(1usize, '9'), (1, 'a'), (2, 'é'), (3, '秒'), (4, '🦀')] {
        let mut shapes: Vec<(usize, usize)> = (0..w).map(|k| (k, 0)).collect();
        shapes.extend((1..w).map(|k| (0, k)));
        for (lead, trail) in shapes {
            for &len in lens {
                if len <= lead + trail {
                    continue;
                }
                let mut s: String = "1234"[..lead].to_string();
                for _ in 0..len - lead - trail {
                    s.push(ch);
                }
                s.push_str(&"5678"[..trail]);
                out.push(s);
            }
        }
    }
    out
}

/// the seven atom prefixes of a format (the word prefix included)
pub fn all_atom_prefixes(e: &EFmt) -> Vec<&'static str> {
    let a = &e.atom;
    vec![a.prefix_word, a.prefix_placeholder, a.prefix_variable_independent, a.prefix_variable_dependent, a.prefix_variable_query, a.prefix_interval, a.prefix_operator]
}

/// `atom` as a component: of a product, of a set, subject / predicate of a statement, inside a nested compound
pub fn nest_atom(e: &EFmt, atom: &str, how: usize) -> String {
    let c = &e.compound;
    let st = &e.statement;
    let sp = e.space.format_terms;
    match how % 5 {
        0 => format!("{}{}{} A{} {}{}", c.brackets.0, c.connecter_product, c.separator, c.separator, atom, c.brackets.1),
        1 => format!("{}{} {} B{}", st.brackets.0, atom, st.copula_inheritance, st.brackets.1),
        2 => format!("{}{}{}", c.brackets_set_extension.0, atom, c.brackets_set_extension.1),
        3 => format!("{}A {}{}{}{}", st.brackets.0, st.copula_similarity, sp, atom, st.brackets.1),
        _ => format!("{}{}{} {}{}{}{}{}", c.brackets.0, c.connecter_negation, c.separator, c.brackets_set_intension.0, atom, c.brackets_set_intension.1, c.brackets.1, e.sentence.punctuation_judgement),
    }
}

/// Texts whose atoms are REJECTED or merely long: every atom prefix of the format x `payload_names` (every length 1..40
/// for the interval prefix -- the one prefix whose names can be rejected: non-numeric, over-long numbers -- and a
/// ladder of lengths for the other prefixes), bare and as a component.  `.1` tells whether the prefix is the interval's.
pub fn rejected_atom_inputs(e: &EFmt) -> Vec<(String, bool)> {
    let all: Vec<usize> = (1..=40).collect();
    let ladder = [1usize, 2, 3, 5, 6, 7, 8, 11, 16, 22, 32, 40];
    let mut out = vec![];
    for p in all_atom_prefixes(e) {
        let interval = p == e.atom.prefix_interval;
        let names = payload_names(if interval { &all } else { &ladder });
        for (i, name) in names.iter().enumerate() {
            let atom = format!("{}{}", p, name);
            out.push((nest_atom(e, &atom, i), interval));
            out.push((atom, interval));
        }
    }
    out
}

/// which stand-alone parser an item text is for
#[derive(Clone, Copy, PartialEq, Eq, Debug)]
pub enum ItemKind {
    Truth,
    Budget,
    Stamp,
}

/// Truth / budget / fixed-stamp items whose number list is REJECTED or over-long, with payloads of many lengths:
/// buffers that are not numbers (`1.1.1.`, `....`, `+-+-`, `--`), over-long digit runs, and multi-byte characters
/// directly after a partial number, in the first / last slot of the list.  (The error messages echo the buffer or the
/// offending character.)
pub fn rejected_number_items(e: &EFmt) -> Vec<(ItemKind, String)> {
    let (tl, tr, ts) = (e.sentence.truth_brackets.0, e.sentence.truth_brackets.1, e.sentence.truth_separator);
    let (bl, br, bs) = (e.task.budget_brackets.0, e.task.budget_brackets.1, e.task.budget_separator);
    let (sl, sr) = e.sentence.stamp_brackets;
    let fixed = e.sentence.stamp_fixed;
    let lens = [1usize, 2, 7, 8, 19, 20, 21, 22, 40];
    let rep = |unit: &str, len: usize| -> String { unit.chars().cycle().take(len).collect() };
    let mut out = vec![];
    for &len in &lens {
        let mut floats: Vec<String> = vec![rep("1.", len), rep(".", len), rep("9", len), rep("0", len), format!("0.{}", rep("9", len))];
        let mut ints: Vec<String> = vec![rep("+-", len), rep("-", len), rep("9", len), format!("-{}", rep("9", len)), format!("+{}", rep("0", len)), rep("9-", len)];
        for ch in ['é', '秒', '🦀'] {
            for lead in 0..3usize {
                if len > lead {
                    let s = format!("{}{}", &"123"[..lead], rep(&ch.to_string(), len - lead));
                    floats.push(s.clone());
                    ints.push(s);
                }
            }
        }
        for p in &floats {
            out.push((ItemKind::Truth, format!("{tl}{p}{ts}0.5{tr}")));
            out.push((ItemKind::Truth, format!("{tl}0.5{ts}{p}{tr}")));
            out.push((ItemKind::Truth, format!("{tl}{p}{tr}")));
            out.push((ItemKind::Budget, format!("{bl}{p}{bs}0.5{br}")));
            out.push((ItemKind::Budget, format!("{bl}0.5{bs}0.5{bs}{p}{br}")));
            out.push((ItemKind::Budget, format!("{bl}{p}")));
        }
        for p in &ints {
            out.push((ItemKind::Stamp, format!("{sl}{fixed}{p}{sr}")));
            out.push((ItemKind::Stamp, format!("{sl}{fixed} {p}")));
        }
    }
    out
}

/// Truth / budget / fixed-stamp items with a character of every Unicode NUMERIC category and block inside the number
/// list: Nd (Arabic-Indic, Devanagari, Thai, NKo, full-width, mathematical bold -- 2-, 3- and 4-byte), Nl (Roman
/// numerals, ideographic zero, Hangzhou), No (superscript, vulgar fractions, circled / parenthesised numbers), and the
/// look-alikes of the decimal point and of the separators (full-width dot, Arabic decimal separator, CJK numeral `一`
/// of category Lo); alone, after / before an ASCII digit, after the dot.  (`char::is_numeric`, `is_digit(10)`,
/// `to_digit` and code-point arithmetic disagree on exactly these; only ASCII digits are part of a number.)
pub fn numeric_char_items(e: &EFmt) -> Vec<(ItemKind, String)> {
    let (tl, tr, ts) = (e.sentence.truth_brackets.0, e.sentence.truth_brackets.1, e.sentence.truth_separator);
    let (bl, br, bs) = (e.task.budget_brackets.0, e.task.budget_brackets.1, e.task.budget_separator);
    let (sl, sr) = e.sentence.stamp_brackets;
    let fixed = e.sentence.stamp_fixed;
    let chars = [
        '\u{0663}', '\u{0969}', '\u{0E53}', '\u{07C3}', '\u{FF10}', '\u{FF19}', '\u{1D7D3}', '\u{1D7FF}', // Nd
        '\u{2163}', '\u{3007}', '\u{3021}', '\u{2188}', // Nl
        '\u{00B2}', '\u{00BD}', '\u{2460}', '\u{3220}', '\u{2189}', '\u{10107}', // No
        '\u{FF0E}', '\u{066B}', '\u{4E00}', '\u{FF11}', // look-alikes: full-width dot, Arabic decimal separator, CJK one (Lo)
    ];
    let mut out = vec![];
    let mut k = 0usize;
    for c in chars {
        for p in [format!("{c}"), format!("1{c}"), format!("0.{c}"), format!("{c}5"), format!("0{c}5")] {
            out.push((
                ItemKind::Truth,
                match k % 3 {
                    0 => format!("{tl}{p}{ts}0.5{tr}"),
                    1 => format!("{tl}0.5{ts}{p}{tr}"),
                    _ => format!("{tl}{p}{tr}"),
                },
            ));
            out.push((
                ItemKind::Budget,
                match k % 4 {
                    0 => format!("{bl}{p}{bs}0.5{br}"),
                    1 => format!("{bl}0.5{bs}0.5{bs}{p}{br}"),
                    2 => format!("{bl}{p}{br}"),
                    _ => format!("{bl}0.5{bs} {p} {bs}0.5{br}"),
                },
            ));
            k += 1;
        }
        for p in [format!("{c}"), format!("1{c}"), format!("-{c}")] {
            out.push((ItemKind::Stamp, format!("{sl}{fixed}{p}{sr}")));
        }
    }
    out
}

/// a truth / budget number list in a judgement on `A`: `len` values, `trail` trailing separators, `full` = the most
/// values the item takes; `texts[0]` is written without any blank, the others have blanks inside the brackets
pub struct NumList {
    pub kind: ItemKind,
    pub len: usize,
    pub trail: usize,
    pub full: usize,
    pub texts: Vec<String>,
}

/// Number lists of EVERY length 0..4 with 0, 1, 2 TRAILING separators (the README grammar: `n ~ (";" ~ n)* ~ ";"*`), for
/// truth and budget, each written densely, with one blank at each single position inside the brackets (after the left
/// bracket, around every number and separator, between trailing separators, before the right bracket), with blanks at
/// all positions, and densely without the blank between the item and the sentence.  (The formatters never print a
/// trailing separator or a blank inside the brackets, so formatter-shaped streams never leave the number loop through
/// its "list is full" exit.)
pub fn number_list_texts(e: &EFmt) -> Vec<NumList> {
    let pj = e.sentence.punctuation_judgement;
    let sp = e.space.parse;
    let nums = ["0.5", "0.75", "0.4", "1", "0.9"];
    let mut out = vec![];
    for (kind, l, sep, r, full) in [
        (ItemKind::Truth, e.sentence.truth_brackets.0, e.sentence.truth_separator, e.sentence.truth_brackets.1, 2usize),
        (ItemKind::Budget, e.task.budget_brackets.0, e.task.budget_separator, e.task.budget_brackets.1, 3),
    ] {
        for len in 0..=4usize {
            for trail in 0..=2usize {
                let mut toks: Vec<&str> = vec![l];
                for i in 0..len {
                    if i != 0 {
                        toks.push(sep);
                    }
                    toks.push(nums[i]);
                }
                for _ in 0..trail {
                    toks.push(sep);
                }
                toks.push(r);
                let gaps = toks.len() - 1;
                let join = |blank_at: &dyn Fn(usize) -> bool| -> String {
                    let mut s = String::new();
                    for (i, t) in toks.iter().enumerate() {
                        s.push_str(t);
                        if i < gaps && blank_at(i) {
                            s.push_str(sp);
                        }
                    }
                    s
                };
                let mut items: Vec<String> = vec![join(&|_| false)];
                for g in 0..gaps {
                    items.push(join(&|i| i == g));
                }
                items.push(join(&|_| true));
                let wrap = |item: &str, outer: &str| match kind {
                    ItemKind::Budget => format!("{}{}A{}", item, outer, pj),
                    _ => format!("A{}{}{}", pj, outer, item),
                };
                let mut texts = vec![wrap(&items[0], "")];
                texts.extend(items.iter().map(|it| wrap(it, sp)));
                texts.dedup();
                out.push(NumList { kind, len, trail, full, texts });
            }
        }
    }
    out
}

/// A well-formed judgement of EXACTLY `len` characters (None when `len` is too small for the shape): `how` 0 / 1 / 2 =
/// a short statement padded with blanks behind / in front / inside, 3 = a statement whose subject is one long name,
/// 4 = a statement whose subject is a product of as many one-letter components as fit (the rest: blanks behind).
/// For inputs AT size thresholds (2^k - 1, 2^k, 2^k + 1, 10^n): length guards, counters narrowed to u8 / u16, buffers.
pub fn sized_text(e: &EFmt, len: usize, how: usize) -> Option<String> {
    let st = &e.statement;
    let c = &e.compound;
    let pj = e.sentence.punctuation_judgement;
    let sp = e.space.parse;
    let n = |s: &str| s.chars().count();
    if n(sp) != 1 {
        return None;
    }
    let cop = st.copula_inheritance;
    match how {
        0 | 1 | 2 => {
            let base = format!("{}A {} B{}{}", st.brackets.0, cop, st.brackets.1, pj);
            let pad = sp.repeat(len.checked_sub(n(&base))?);
            Some(match how {
                0 => base + &pad,
                1 => pad + &base,
                _ => format!("{}A {}{} B{}{}", st.brackets.0, cop, pad, st.brackets.1, pj),
            })
        }
        3 => {
            let over = n(st.brackets.0) + 1 + n(cop) + 2 + n(st.brackets.1) + n(pj);
            let k = len.checked_sub(over)?;
            if k == 0 {
                return None;
            }
            Some(format!("{}{} {} B{}{}", st.brackets.0, "a".repeat(k), cop, st.brackets.1, pj))
        }
        _ => {
            let head = format!("{}{}{}{}", st.brackets.0, c.brackets.0, c.connecter_product, c.separator);
            let tail = format!("{} {} r{}{}", c.brackets.1, cop, st.brackets.1, pj);
            let room = len.checked_sub(n(&head) + n(&tail) + 1)?;
            let unit = format!("{}w", c.separator);
            let m = room / n(&unit);
            let mut s = head;
            s.push('w');
            for _ in 0..m {
                s.push_str(&unit);
            }
            s.push_str(&tail);
            let pad = len - n(&s);
            Some(s + &sp.repeat(pad))
        }
    }
}

/// an item of `rejected_number_items` at its place in a judgement on `A`
pub fn item_in_sentence(e: &EFmt, kind: ItemKind, item: &str) -> String {
    let pj = e.sentence.punctuation_judgement;
    match kind {
        ItemKind::Budget => format!("{} A{}", item, pj),
        _ => format!("A{} {}", pj, item),
    }
}

// ---------------------------------------------------------------------------------------------
// partial / complete / invalid inputs by the items present (histories of C08)
// ---------------------------------------------------------------------------------------------
/// every non-empty subset of {budget, term, punctuation, stamp, truth} written in the canonical order around `term`:
/// complete tasks and sentences, PARTIAL inputs (a term followed by a truth / stamp but no punctuation, a budget and
/// a term: they parse to the bare term and the other items are left over) and inputs without a term (errors)
pub fn item_subset_inputs(e: &EFmt, term: &str, rng: &mut Rng) -> Vec<String> {
    let mut out = vec![];
    for mask in 1u32..32 {
        let budget = if rng.chance(1, 2) { Budget::Empty } else { gen_budget(rng) };
        let truth = match gen_truth(rng) {
            Truth::Empty => Truth::Single(0.9),
            t => t,
        };
        let stamp = match gen_stamp(rng) {
            Stamp::Eternal => Stamp::Present,
            s => s,
        };
        let punct = rng.pick(&[Punctuation::Judgement, Punctuation::Goal, Punctuation::Question, Punctuation::Quest]).clone();
        let mut parts: Vec<String> = vec![];
        if mask & 1 != 0 {
            parts.push(e.format_budget(&budget));
        }
        if mask & 2 != 0 {
            parts.push(term.to_string());
        }
        let mut s = parts.join(e.space.format_items);
        if mask & 4 != 0 {
            s.push_str(&e.format_punctuation(&punct));
        }
        for (bit, text) in [(8u32, e.format_stamp(&stamp)), (16, e.format_truth(&truth))] {
            if mask & bit != 0 {
                if !s.is_empty() {
                    s.push_str(e.space.format_items);
                }
                s.push_str(&text);
            }
        }
        out.push(s);
    }
    out
}
