//! `nvh dump-formats <file>`: the shipped format instances AS COMPILED -- every keyword of the three enum formats, the
//! array `copulas()` returns, every dictionary of the three lexical formats in the order the library iterates it, and every
//! `fn(char) -> bool` field evaluated on all of Unicode (as inclusive ranges).  The translator cross-checks the tables it reads
//! from the source text against this dump and falls back to it when the source is written in a shape it does not recognise.
//! Strings are written as arrays of code points (no escaping to get wrong).
use narsese::conversion::string::impl_enum::format_instances as ef;
use narsese::conversion::string::impl_enum::NarseseFormat as EnumFormat;
use narsese::conversion::string::impl_lexical::format_instances as lf;
use narsese::conversion::string::impl_lexical::NarseseFormat as LexFormat;
use nar_dev_utils::{PrefixMatch, SuffixMatch};
use narsese::conversion::string::typst_formatter as ty;
use std::fmt::Write;

fn js(s: &str) -> String {
    format!("[{}]", s.chars().map(|c| (c as u32).to_string()).collect::<Vec<_>>().join(","))
}
fn jlist(xs: impl Iterator<Item = String>) -> String {
    format!("[{}]", xs.collect::<Vec<_>>().join(","))
}
fn jpair(a: &str, b: &str) -> String {
    format!("[{},{}]", js(a), js(b))
}
fn jranges(pred: fn(char) -> bool) -> String {
    jlist(crate::unicode::ranges(pred).into_iter().map(|(a, b)| format!("[{},{}]", a, b)))
}

fn enum_fields<'a>(f: &EnumFormat<&'a str>) -> Vec<(&'static str, &'a str)> {
    vec![
        ("space_parse", f.space.parse),
        ("space_format_terms", f.space.format_terms),
        ("space_format_items", f.space.format_items),
        ("atom_prefix_word", f.atom.prefix_word),
        ("atom_prefix_variable_independent", f.atom.prefix_variable_independent),
        ("atom_prefix_variable_dependent", f.atom.prefix_variable_dependent),
        ("atom_prefix_variable_query", f.atom.prefix_variable_query),
        ("atom_prefix_interval", f.atom.prefix_interval),
        ("atom_prefix_operator", f.atom.prefix_operator),
        ("atom_prefix_placeholder", f.atom.prefix_placeholder),
        ("compound_brackets_0", f.compound.brackets.0),
        ("compound_brackets_1", f.compound.brackets.1),
        ("compound_separator", f.compound.separator),
        ("compound_brackets_set_extension_0", f.compound.brackets_set_extension.0),
        ("compound_brackets_set_extension_1", f.compound.brackets_set_extension.1),
        ("compound_brackets_set_intension_0", f.compound.brackets_set_intension.0),
        ("compound_brackets_set_intension_1", f.compound.brackets_set_intension.1),
        ("compound_connecter_intersection_extension", f.compound.connecter_intersection_extension),
        ("compound_connecter_intersection_intension", f.compound.connecter_intersection_intension),
        ("compound_connecter_difference_extension", f.compound.connecter_difference_extension),
        ("compound_connecter_difference_intension", f.compound.connecter_difference_intension),
        ("compound_connecter_product", f.compound.connecter_product),
        ("compound_connecter_image_extension", f.compound.connecter_image_extension),
        ("compound_connecter_image_intension", f.compound.connecter_image_intension),
        ("compound_connecter_conjunction", f.compound.connecter_conjunction),
        ("compound_connecter_disjunction", f.compound.connecter_disjunction),
        ("compound_connecter_negation", f.compound.connecter_negation),
        ("compound_connecter_conjunction_sequential", f.compound.connecter_conjunction_sequential),
        ("compound_connecter_conjunction_parallel", f.compound.connecter_conjunction_parallel),
        ("statement_brackets_0", f.statement.brackets.0),
        ("statement_brackets_1", f.statement.brackets.1),
        ("statement_copula_inheritance", f.statement.copula_inheritance),
        ("statement_copula_similarity", f.statement.copula_similarity),
        ("statement_copula_implication", f.statement.copula_implication),
        ("statement_copula_equivalence", f.statement.copula_equivalence),
        ("statement_copula_instance", f.statement.copula_instance),
        ("statement_copula_property", f.statement.copula_property),
        ("statement_copula_instance_property", f.statement.copula_instance_property),
        ("statement_copula_implication_predictive", f.statement.copula_implication_predictive),
        ("statement_copula_implication_concurrent", f.statement.copula_implication_concurrent),
        ("statement_copula_implication_retrospective", f.statement.copula_implication_retrospective),
        ("statement_copula_equivalence_predictive", f.statement.copula_equivalence_predictive),
        ("statement_copula_equivalence_concurrent", f.statement.copula_equivalence_concurrent),
        ("statement_copula_equivalence_retrospective", f.statement.copula_equivalence_retrospective),
        ("sentence_punctuation_judgement", f.sentence.punctuation_judgement),
        ("sentence_punctuation_goal", f.sentence.punctuation_goal),
        ("sentence_punctuation_question", f.sentence.punctuation_question),
        ("sentence_punctuation_quest", f.sentence.punctuation_quest),
        ("sentence_stamp_brackets_0", f.sentence.stamp_brackets.0),
        ("sentence_stamp_brackets_1", f.sentence.stamp_brackets.1),
        ("sentence_stamp_past", f.sentence.stamp_past),
        ("sentence_stamp_present", f.sentence.stamp_present),
        ("sentence_stamp_future", f.sentence.stamp_future),
        ("sentence_stamp_fixed", f.sentence.stamp_fixed),
        ("sentence_truth_brackets_0", f.sentence.truth_brackets.0),
        ("sentence_truth_brackets_1", f.sentence.truth_brackets.1),
        ("sentence_truth_separator", f.sentence.truth_separator),
        ("task_budget_brackets_0", f.task.budget_brackets.0),
        ("task_budget_brackets_1", f.task.budget_brackets.1),
        ("task_budget_separator", f.task.budget_separator),
    ]
}

fn dump_enum(name: &str, f: &EnumFormat<&str>, s: &mut String) {
    writeln!(s, "  \"{}\": {{", name).unwrap();
    writeln!(s, "   \"fields\": {{{}}},", enum_fields(f).iter().map(|(k, v)| format!("\"{}\": {}", k, js(v))).collect::<Vec<_>>().join(", ")).unwrap();
    writeln!(s, "   \"copulas\": {},", jlist(f.copulas().iter().map(|c| js(c)))).unwrap();
    writeln!(s, "   \"is_valid_atom_name\": {}", jranges(f.is_valid_atom_name)).unwrap();
    write!(s, "  }}").unwrap();
}

fn dump_lex(name: &str, f: &LexFormat, s: &mut String) {
    writeln!(s, "  \"{}\": {{", name).unwrap();
    writeln!(s, "   \"is_for_parse\": {},", jranges(f.space.is_for_parse)).unwrap();
    writeln!(s, "   \"remove_spaces_before_parse\": {},", f.space.remove_spaces_before_parse).unwrap();
    writeln!(s, "   \"format_terms\": {},", js(&f.space.format_terms)).unwrap();
    writeln!(s, "   \"format_items\": {},", js(&f.space.format_items)).unwrap();
    writeln!(s, "   \"prefixes\": {},", jlist(f.atom.prefixes.iter_x_fixes().map(|x| js(x)))).unwrap();
    writeln!(s, "   \"is_identifier\": {},", jranges(f.atom.is_identifier)).unwrap();
    writeln!(s, "   \"set_brackets_by_prefix\": {},", jlist(f.compound.set_brackets.prefix_terms().map(|t| jpair(&t.0, &t.1)))).unwrap();
    writeln!(s, "   \"set_brackets_by_suffix\": {},", jlist(f.compound.set_brackets.suffix_terms().map(|t| jpair(&t.0, &t.1)))).unwrap();
    writeln!(s, "   \"compound_brackets\": {},", jpair(&f.compound.brackets.0, &f.compound.brackets.1)).unwrap();
    writeln!(s, "   \"separator\": {},", js(&f.compound.separator)).unwrap();
    writeln!(s, "   \"connecters\": {},", jlist(f.compound.connecters.iter_x_fixes().map(|x| js(x)))).unwrap();
    writeln!(s, "   \"statement_brackets\": {},", jpair(&f.statement.brackets.0, &f.statement.brackets.1)).unwrap();
    writeln!(s, "   \"copulas\": {},", jlist(f.statement.copulas.iter_x_fixes().map(|x| js(x)))).unwrap();
    writeln!(s, "   \"punctuations\": {},", jlist(f.sentence.punctuations.iter_x_fixes().map(|x| js(x)))).unwrap();
    writeln!(s, "   \"truth_brackets\": {},", jpair(&f.sentence.truth_brackets.0, &f.sentence.truth_brackets.1)).unwrap();
    writeln!(s, "   \"truth_separator\": {},", js(&f.sentence.truth_separator)).unwrap();
    writeln!(s, "   \"is_truth_content\": {},", jranges(f.sentence.is_truth_content)).unwrap();
    writeln!(s, "   \"stamp_brackets\": {},", jlist(f.sentence.stamp_brackets.suffix_terms().map(|t| jpair(&t.0, &t.1)))).unwrap();
    writeln!(s, "   \"is_stamp_content\": {},", jranges(f.sentence.is_stamp_content)).unwrap();
    writeln!(s, "   \"budget_brackets\": {},", jpair(&f.task.budget_brackets.0, &f.task.budget_brackets.1)).unwrap();
    writeln!(s, "   \"budget_separator\": {},", js(&f.task.budget_separator)).unwrap();
    writeln!(s, "   \"is_budget_content\": {}", jranges(f.task.is_budget_content)).unwrap();
    write!(s, "  }}").unwrap();
}


/// the markup constants of typst_formatter/definition.rs, by name (second source of translator table T6)
fn dump_typst(s: &mut String) {
    let strs: Vec<(&str, &str)> = vec![
        ("TERM_PREFIX_WORD", ty::TERM_PREFIX_WORD),
        ("TERM_PREFIX_PLACEHOLDER", ty::TERM_PREFIX_PLACEHOLDER),
        ("TERM_PREFIX_I_VAR", ty::TERM_PREFIX_I_VAR),
        ("TERM_PREFIX_D_VAR", ty::TERM_PREFIX_D_VAR),
        ("TERM_PREFIX_Q_VAR", ty::TERM_PREFIX_Q_VAR),
        ("TERM_PREFIX_INTERVAL", ty::TERM_PREFIX_INTERVAL),
        ("TERM_PREFIX_OPERATOR", ty::TERM_PREFIX_OPERATOR),
        ("SEPARATOR_COMPOUND", ty::SEPARATOR_COMPOUND),
        ("SEPARATOR_STATEMENT", ty::SEPARATOR_STATEMENT),
        ("SEPARATOR_ITEM", ty::SEPARATOR_ITEM),
        ("SEPARATOR_TRUTH", ty::SEPARATOR_TRUTH),
        ("SEPARATOR_BUDGET", ty::SEPARATOR_BUDGET),
        ("CONNECTER_EXT_INTERSECT", ty::CONNECTER_EXT_INTERSECT),
        ("CONNECTER_INT_INTERSECT", ty::CONNECTER_INT_INTERSECT),
        ("CONNECTER_EXT_DIFFERENCE", ty::CONNECTER_EXT_DIFFERENCE),
        ("CONNECTER_INT_DIFFERENCE", ty::CONNECTER_INT_DIFFERENCE),
        ("CONNECTER_PRODUCT", ty::CONNECTER_PRODUCT),
        ("CONNECTER_EXT_IMAGE", ty::CONNECTER_EXT_IMAGE),
        ("CONNECTER_INT_IMAGE", ty::CONNECTER_INT_IMAGE),
        ("CONNECTER_CONJUNCTION", ty::CONNECTER_CONJUNCTION),
        ("CONNECTER_DISJUNCTION", ty::CONNECTER_DISJUNCTION),
        ("CONNECTER_NEGATION", ty::CONNECTER_NEGATION),
        ("CONNECTER_SEQ_CONJUNCTION", ty::CONNECTER_SEQ_CONJUNCTION),
        ("CONNECTER_PAR_CONJUNCTION", ty::CONNECTER_PAR_CONJUNCTION),
        ("COPULA_INHERITANCE", ty::COPULA_INHERITANCE),
        ("COPULA_SIMILARITY", ty::COPULA_SIMILARITY),
        ("COPULA_IMPLICATION", ty::COPULA_IMPLICATION),
        ("COPULA_EQUIVALENCE", ty::COPULA_EQUIVALENCE),
        ("COPULA_INSTANCE", ty::COPULA_INSTANCE),
        ("COPULA_PROPERTY", ty::COPULA_PROPERTY),
        ("COPULA_INSTANCE_PROPERTY", ty::COPULA_INSTANCE_PROPERTY),
        ("COPULA_IMPLICATION_PREDICTIVE", ty::COPULA_IMPLICATION_PREDICTIVE),
        ("COPULA_IMPLICATION_CONCURRENT", ty::COPULA_IMPLICATION_CONCURRENT),
        ("COPULA_IMPLICATION_RETROSPECTIVE", ty::COPULA_IMPLICATION_RETROSPECTIVE),
        ("COPULA_EQUIVALENCE_PREDICTIVE", ty::COPULA_EQUIVALENCE_PREDICTIVE),
        ("COPULA_EQUIVALENCE_CONCURRENT", ty::COPULA_EQUIVALENCE_CONCURRENT),
        ("COPULA_EQUIVALENCE_RETROSPECTIVE", ty::COPULA_EQUIVALENCE_RETROSPECTIVE),
        ("STAMP_ETERNAL", ty::STAMP_ETERNAL),
        ("STAMP_PAST", ty::STAMP_PAST),
        ("STAMP_PRESENT", ty::STAMP_PRESENT),
        ("STAMP_FUTURE", ty::STAMP_FUTURE),
        ("STAMP_FIXED", ty::STAMP_FIXED),
        ("PUNCTUATION_JUDGEMENT", ty::PUNCTUATION_JUDGEMENT),
        ("PUNCTUATION_GOAL", ty::PUNCTUATION_GOAL),
        ("PUNCTUATION_QUESTION", ty::PUNCTUATION_QUESTION),
        ("PUNCTUATION_QUEST", ty::PUNCTUATION_QUEST),
    ];
    let pairs: Vec<(&str, (&str, &str))> = vec![
        ("BRACKETS_COMPOUND", ty::BRACKETS_COMPOUND),
        ("BRACKETS_EXT_SET", ty::BRACKETS_EXT_SET),
        ("BRACKETS_INT_SET", ty::BRACKETS_INT_SET),
        ("BRACKETS_STATEMENT", ty::BRACKETS_STATEMENT),
        ("BRACKETS_TRUTH", ty::BRACKETS_TRUTH),
        ("BRACKETS_BUDGET", ty::BRACKETS_BUDGET),
    ];
    let mut items: Vec<String> = strs.iter().map(|(k, v)| format!("\"{}\": {}", k, js(v))).collect();
    items.extend(pairs.iter().map(|(k, v)| format!("\"{}\": {}", k, jpair(v.0, v.1))));
    writeln!(s, " \"typst\": {{{}}},", items.join(", ")).unwrap();
}

pub fn dump(path: &str) -> std::io::Result<()> {
    let mut s = String::new();
    writeln!(s, "{{").unwrap();
    writeln!(s, " \"alnum\": {},", jranges(|c| c.is_alphanumeric())).unwrap();
    writeln!(s, " \"whitespace\": {},", jranges(|c| c.is_whitespace())).unwrap();
    dump_typst(&mut s);
    writeln!(s, " \"enum\": {{").unwrap();
    dump_enum("FORMAT_ASCII", &ef::FORMAT_ASCII, &mut s);
    writeln!(s, ",").unwrap();
    dump_enum("FORMAT_LATEX", &ef::FORMAT_LATEX, &mut s);
    writeln!(s, ",").unwrap();
    dump_enum("FORMAT_HAN", &ef::FORMAT_HAN, &mut s);
    writeln!(s, "\n }},\n \"lexical\": {{").unwrap();
    dump_lex("FORMAT_ASCII", &lf::FORMAT_ASCII, &mut s);
    writeln!(s, ",").unwrap();
    dump_lex("FORMAT_LATEX", &lf::FORMAT_LATEX, &mut s);
    writeln!(s, ",").unwrap();
    dump_lex("FORMAT_HAN", &lf::FORMAT_HAN, &mut s);
    writeln!(s, "\n }}\n}}").unwrap();
    std::fs::write(path, s)
}
