//! Correspondence streams and real-code property search for the lexical string conversion:
//! C02 (format then parse) and C05 (totality of the lexical parser; the fold half of C05 is a
//! separate stream, see `c05_parser_stream` / `run_c05`).
//! Model: Model/LexFormatter.v, Model/LexParser.v; runner: Run/LexRun.v.
use crate::coqw::*;
use crate::enumgen::{formats, gen_narsese, keyword_pool, mutate, stress_inputs, term_gen_for, Fm};
use crate::gen::{gen_name, NameStyle};
use crate::prng::Rng;
use crate::util::*;
use nar_dev_utils::{PrefixMatch, SuffixMatch};
use narsese::conversion::string::impl_lexical::NarseseFormat as LexFormat;
use narsese::lexical::{Narsese as LNarsese, Sentence as LSentence, Task as LTask, Term as LTerm};

// -------------------------------------------------------------------------------------------
// the vocabulary of a lexical format, read through the public dictionary API (iteration order!)
// -------------------------------------------------------------------------------------------
pub struct Vocab {
    pub prefixes: Vec<String>,
    pub set_brackets: Vec<(String, String)>,
    pub set_brackets_suffix_order: Vec<(String, String)>,
    pub connecters: Vec<String>,
    pub copulas: Vec<String>,
    pub punctuations: Vec<String>,
    pub stamp_brackets: Vec<(String, String)>,
}

pub fn vocab(l: &LexFormat) -> Vocab {
    Vocab {
        prefixes: l.atom.prefixes.prefix_terms().cloned().collect(),
        set_brackets: l.compound.set_brackets.prefix_terms().cloned().collect(),
        set_brackets_suffix_order: l.compound.set_brackets.suffix_terms().cloned().collect(),
        connecters: l.compound.connecters.prefix_terms().cloned().collect(),
        copulas: l.statement.copulas.prefix_terms().cloned().collect(),
        punctuations: l.sentence.punctuations.suffix_terms().cloned().collect(),
        stamp_brackets: l.sentence.stamp_brackets.suffix_terms().cloned().collect(),
    }
}

/// every non-empty keyword of the format (what a name of the C02 domain must not contain)
pub fn keywords(l: &LexFormat, v: &Vocab) -> Vec<String> {
    let mut k: Vec<String> = vec![];
    k.extend(v.prefixes.iter().cloned());
    for (a, b) in v.set_brackets.iter().chain(v.stamp_brackets.iter()) {
        k.push(a.clone());
        k.push(b.clone());
    }
    k.extend(v.connecters.iter().cloned());
    k.extend(v.copulas.iter().cloned());
    k.extend(v.punctuations.iter().cloned());
    for s in [
        &l.compound.brackets.0,
        &l.compound.brackets.1,
        &l.compound.separator,
        &l.statement.brackets.0,
        &l.statement.brackets.1,
        &l.sentence.truth_brackets.0,
        &l.sentence.truth_brackets.1,
        &l.sentence.truth_separator,
        &l.task.budget_brackets.0,
        &l.task.budget_brackets.1,
        &l.task.budget_separator,
    ] {
        k.push(s.clone());
    }
    k.retain(|s| !s.is_empty());
    k.sort();
    k.dedup();
    k
}

// -------------------------------------------------------------------------------------------
// serialisation into the model's types
// -------------------------------------------------------------------------------------------
pub fn clterm(t: &LTerm) -> String {
    match t {
        LTerm::Atom { prefix, name } => format!("(LAtom {} {})", cstr(prefix), cstr(name)),
        LTerm::Compound { connecter, terms } => format!("(LCompound {} {})", cstr(connecter), clist(terms, clterm)),
        LTerm::Set { left_bracket, terms, right_bracket } => {
            format!("(LSet {} {} {})", cstr(left_bracket), clist(terms, clterm), cstr(right_bracket))
        }
        LTerm::Statement { copula, subject, predicate } => {
            format!("(LStatement {} {} {})", cstr(copula), clterm(subject), clterm(predicate))
        }
    }
}
pub fn clsentence(s: &LSentence) -> String {
    format!(
        "{{| ls_term := {}; ls_punct := {}; ls_stamp := {}; ls_truth := {} |}}",
        clterm(&s.term),
        cstr(&s.punctuation),
        cstr(&s.stamp),
        clist(&s.truth, |x| cstr(x))
    )
}
pub fn cltask(k: &LTask) -> String {
    format!("{{| lt_budget := {}; lt_sentence := {} |}}", clist(&k.budget, |x| cstr(x)), clsentence(&k.sentence))
}
pub fn clnarsese(v: &LNarsese) -> String {
    match v {
        LNarsese::Term(t) => format!("(NTerm {})", clterm(t)),
        LNarsese::Sentence(s) => format!("(NSentence {})", clsentence(s)),
        LNarsese::Task(k) => format!("(NTask {})", cltask(k)),
    }
}

/// Ok(Some(v)) parsed, Ok(None) error (the error could be displayed), Err(()) panic
pub type PR<T> = Result<Option<T>, ()>;

fn clres<T>(r: &PR<T>, f: impl Fn(&T) -> String) -> String {
    match r {
        Ok(Some(v)) => format!("(LOk {})", f(v)),
        Ok(None) => "LErr".into(),
        Err(()) => "LPanic".into(),
    }
}
fn pr_tag<T>(r: &PR<T>) -> &'static str {
    match r {
        Ok(Some(_)) => "ok",
        Ok(None) => "err",
        Err(()) => "panic",
    }
}

pub fn real_lex_parse(l: &'static LexFormat, s: &str) -> PR<LNarsese> {
    guard(|| match l.parse(s) {
        Ok(v) => Some(v),
        Err(err) => {
            let _ = format!("{}", err);
            let _ = format!("{:?}", err);
            None
        }
    })
    .ok_or(())
}
pub fn real_lex_parse_term(l: &'static LexFormat, s: &str) -> PR<LTerm> {
    guard(|| match l.parse_term(s) {
        Ok(v) => Some(v),
        Err(err) => {
            let _ = format!("{}", err);
            None
        }
    })
    .ok_or(())
}

// -------------------------------------------------------------------------------------------
// the C02 domain, restated independently
// -------------------------------------------------------------------------------------------
pub struct Dom<'a> {
    pub l: &'a LexFormat,
    pub v: &'a Vocab,
    pub kw: &'a [String],
}

impl<'a> Dom<'a> {
    pub fn name_ok(&self, n: &str) -> bool {
        !n.is_empty() && n.chars().all(|c| (self.l.atom.is_identifier)(c)) && !self.kw.iter().any(|k| n.contains(k.as_str()))
    }
    pub fn number_ok(&self, s: &str) -> bool {
        !s.is_empty() && s.chars().all(|c| c.is_ascii_digit() || c == '.')
    }
    pub fn stamp_ok(&self, s: &str) -> bool {
        if s.is_empty() {
            return true;
        }
        self.v.stamp_brackets.iter().any(|(a, b)| {
            if a.is_empty() {
                s == b
            } else {
                s.len() >= a.len() + b.len()
                    && s.starts_with(a.as_str())
                    && s.ends_with(b.as_str())
                    && s[a.len()..s.len() - b.len()].chars().all(|c| (self.l.sentence.is_stamp_content)(c))
            }
        })
    }
    pub fn term_ok(&self, t: &LTerm) -> bool {
        match t {
            LTerm::Atom { prefix, name } => self.v.prefixes.contains(prefix) && self.name_ok(name),
            LTerm::Compound { connecter, terms } => {
                self.v.connecters.contains(connecter) && !terms.is_empty() && terms.iter().all(|x| self.term_ok(x))
            }
            LTerm::Set { left_bracket, terms, right_bracket } => {
                self.v.set_brackets.contains(&(left_bracket.clone(), right_bracket.clone()))
                    && !terms.is_empty()
                    && terms.iter().all(|x| self.term_ok(x))
            }
            LTerm::Statement { copula, subject, predicate } => {
                self.v.copulas.contains(copula) && self.term_ok(subject) && self.term_ok(predicate)
            }
        }
    }
    pub fn sentence_ok(&self, s: &LSentence) -> bool {
        self.term_ok(&s.term) && self.v.punctuations.contains(&s.punctuation) && self.stamp_ok(&s.stamp) && s.truth.iter().all(|x| self.number_ok(x))
    }
    pub fn vocab_ok(&self, v: &LNarsese) -> bool {
        match v {
            LNarsese::Term(t) => self.term_ok(t),
            LNarsese::Sentence(s) => self.sentence_ok(s),
            LNarsese::Task(k) => self.sentence_ok(&k.sentence) && k.budget.iter().all(|x| self.number_ok(x)),
        }
    }

    /// Known class K5 (inherent, Han only in the shipped tables): the subject of a statement is an atom
    /// and, in the whitespace-free text, a copula of the format already matches at a position INSIDE
    /// the subject's name (the name contains no keyword; its end together with the beginning of what
    /// follows creates one), so that the name scan stops early.
    pub fn k5(&self, t: &LTerm) -> bool {
        let strip = |s: String| -> Vec<char> { s.chars().filter(|c| !c.is_whitespace()).collect() };
        match t {
            LTerm::Atom { .. } => false,
            LTerm::Compound { terms, .. } | LTerm::Set { terms, .. } => terms.iter().any(|x| self.k5(x)),
            LTerm::Statement { copula, subject, predicate } => {
                if self.k5(subject) || self.k5(predicate) {
                    return true;
                }
                if let LTerm::Atom { name, .. } = &**subject {
                    let mut text: Vec<char> = name.chars().collect();
                    let n = text.len();
                    text.extend(copula.chars());
                    text.extend(strip(self.l.format_term(predicate)));
                    text.extend(self.l.statement.brackets.1.chars());
                    for i in 0..n {
                        let rest: String = text[i..].iter().collect();
                        if self.v.copulas.iter().any(|c| !c.is_empty() && rest.starts_with(c.as_str())) {
                            return true;
                        }
                    }
                }
                false
            }
        }
    }
}

fn term_of(v: &LNarsese) -> &LTerm {
    match v {
        LNarsese::Term(t) => t,
        LNarsese::Sentence(s) => &s.term,
        LNarsese::Task(k) => &k.sentence.term,
    }
}

// -------------------------------------------------------------------------------------------
// generators of lexical values over the real dictionaries
// -------------------------------------------------------------------------------------------
pub struct LexGen<'a> {
    pub fm: &'a Fm,
    pub v: &'a Vocab,
    pub kw: &'a [String],
    pub max_depth: usize,
    /// names restricted to the C02 domain?
    pub strict_names: bool,
    /// foreign keywords / zero components / garbage allowed?
    pub wild: bool,
}

const NUMBERS: &[&str] = &["0.5", "1", "0", "1.0", "0.9", "0.75", "0.123456789", "007", ".5", "5.", ".", "1e", "12345678901234567890", "0.4", "0.999"];
const STAMP_CONTENTS: &[&str] = &["", "1", "-1", "+137", "0", "-", "+-", "99999999999999999999", "-0", "42"];

impl<'a> LexGen<'a> {
    fn style(&self) -> NameStyle {
        match self.fm.idx {
            0 => NameStyle::Ascii,
            1 => NameStyle::Mixed,
            _ => NameStyle::Han,
        }
    }
    pub fn name(&self, rng: &mut Rng) -> String {
        let dom = Dom { l: self.fm.l, v: self.v, kw: self.kw };
        for _ in 0..300 {
            let style = if self.strict_names || rng.chance(3, 4) { self.style() } else { NameStyle::Mixed };
            let n = gen_name(rng, style);
            if !self.strict_names || dom.name_ok(&n) {
                return n;
            }
        }
        "n".to_string()
    }
    fn number(&self, rng: &mut Rng) -> String {
        if self.wild && rng.chance(1, 8) {
            return (*rng.pick::<&str>(&["", "x", "1;2", "-1", "1,5", " "])).to_string();
        }
        let s = *rng.pick::<&str>(NUMBERS);
        if self.strict_names && !s.chars().all(|c| c.is_ascii_digit() || c == '.') {
            return "0.5".into();
        }
        s.to_string()
    }
    fn numbers(&self, rng: &mut Rng) -> Vec<String> {
        let k = match rng.below(8) {
            0 | 1 => 0,
            2 => 1,
            3 | 4 => 2,
            5 => 3,
            6 => 4,
            _ => 5,
        };
        (0..k).map(|_| self.number(rng)).collect()
    }
    fn stamp(&self, rng: &mut Rng) -> String {
        if rng.chance(1, 3) {
            return String::new();
        }
        if self.wild && rng.chance(1, 8) {
            return (*rng.pick::<&str>(&[":", "::", "t", "x", ":!:x", "过", "t=t=1"])).to_string();
        }
        let (a, b) = rng.pick(&self.v.stamp_brackets).clone();
        if a.is_empty() {
            format!("{}{}", a, b)
        } else {
            format!("{}{}{}", a, rng.pick::<&str>(STAMP_CONTENTS), b)
        }
    }
    fn foreign<'b>(&self, rng: &mut Rng, own: &'b [String]) -> String {
        // a keyword of another format, or garbage
        let others = formats();
        let o = &others[(self.fm.idx + 1 + rng.below(2)) % 3];
        let ov = vocab(o.l);
        match rng.below(4) {
            0 => rng.pick(&ov.connecters).clone(),
            1 => rng.pick(&ov.copulas).clone(),
            2 => String::new(),
            _ => {
                let mut s = rng.pick(own).clone();
                s.push('x');
                s
            }
        }
    }
    pub fn atom(&self, rng: &mut Rng) -> LTerm {
        let prefix = if self.wild && rng.chance(1, 10) { self.foreign(rng, &self.v.prefixes) } else if rng.chance(1, 2) { String::new() } else { rng.pick(&self.v.prefixes).clone() };
        let name = if !self.strict_names && !prefix.is_empty() && rng.chance(1, 6) { String::new() } else { self.name(rng) };
        LTerm::new_atom(prefix, name)
    }
    fn comps(&self, rng: &mut Rng, depth: usize) -> Vec<LTerm> {
        let lo = if self.wild && rng.chance(1, 8) { 0 } else { 1 };
        let k = match rng.below(6) {
            0 => lo,
            1 | 2 => 2,
            3 => 3,
            4 => 1,
            _ => rng.range(lo, 5),
        };
        (0..k).map(|_| self.term(rng, depth + 1)).collect()
    }
    pub fn term_kind(&self, rng: &mut Rng, depth: usize, kind: usize) -> LTerm {
        match kind {
            0 => self.atom(rng),
            1 => {
                let c = if self.wild && rng.chance(1, 10) { self.foreign(rng, &self.v.connecters) } else { rng.pick(&self.v.connecters).clone() };
                LTerm::new_compound(c, self.comps(rng, depth))
            }
            2 => {
                let (a, b) = if self.wild && rng.chance(1, 10) {
                    (rng.pick(&self.v.set_brackets).0.clone(), rng.pick(&self.v.set_brackets).1.clone())
                } else {
                    rng.pick(&self.v.set_brackets).clone()
                };
                LTerm::new_set(a, self.comps(rng, depth), b)
            }
            _ => {
                let c = if self.wild && rng.chance(1, 10) { self.foreign(rng, &self.v.copulas) } else { rng.pick(&self.v.copulas).clone() };
                LTerm::new_statement(c, self.term(rng, depth + 1), self.term(rng, depth + 1))
            }
        }
    }
    pub fn term(&self, rng: &mut Rng, depth: usize) -> LTerm {
        if depth >= self.max_depth || rng.chance(2 + depth, 7 + depth) {
            return self.atom(rng);
        }
        let kind = 1 + rng.below(3);
        self.term_kind(rng, depth, kind)
    }
    pub fn sentence(&self, rng: &mut Rng, term: LTerm) -> LSentence {
        let p = if self.wild && rng.chance(1, 12) { (*rng.pick::<&str>(&["", "x", "..", "%"])).to_string() } else { rng.pick(&self.v.punctuations).clone() };
        LSentence::new(term, p, self.stamp(rng), self.numbers(rng))
    }
    /// kind: 0 term, 1 sentence, 2 task; top: top-level term kind if given
    pub fn narsese(&self, rng: &mut Rng, kind: usize, top: Option<usize>) -> LNarsese {
        let term = match top {
            Some(k) => self.term_kind(rng, 0, k),
            None => self.term(rng, 0),
        };
        match kind {
            0 => LNarsese::Term(term),
            1 => LNarsese::Sentence(self.sentence(rng, term)),
            _ => LNarsese::Task(LTask { budget: self.numbers(rng), sentence: self.sentence(rng, term) }),
        }
    }
}

// -------------------------------------------------------------------------------------------
// case construction
// -------------------------------------------------------------------------------------------
struct Ctx<'a> {
    rep: &'a mut Report,
    cases: Vec<String>,
}
impl<'a> Ctx<'a> {
    fn push(&mut self, case: String, descr: String) {
        self.cases.push(case);
        self.rep.case_descr.push(descr);
        self.rep.evaluations += 1;
    }
    fn parse_case(&mut self, fm: &Fm, s: &str) -> PR<LNarsese> {
        let r = real_lex_parse(fm.l, s);
        self.push(format!("LParseC {} {} {}", fm.idx, cstr(s), clres(&r, clnarsese)), format!("lexical parse[{}] {:?}", fm.name, s));
        self.rep.note_distinct(&format!("p{}|{}", fm.idx, s));
        r
    }
    fn parse_term_case(&mut self, fm: &Fm, s: &str) -> PR<LTerm> {
        let r = real_lex_parse_term(fm.l, s);
        self.push(format!("LParseTermC {} {} {}", fm.idx, cstr(s), clres(&r, clterm)), format!("lexical parse_term[{}] {:?}", fm.name, s));
        self.rep.note_distinct(&format!("t{}|{}", fm.idx, s));
        r
    }
    fn fmt_case(&mut self, fm: &Fm, v: &LNarsese) -> Option<String> {
        let s = guard(|| fm.l.format_narsese(v))?;
        self.push(format!("LFmtC {} {} {}", fm.idx, clnarsese(v), cstr(&s)), format!("lexical format[{}] {:?}", fm.name, v));
        Some(s)
    }
    fn fail(&mut self, stream: &str, what: &str, input: String, expected: String, got: String, known: Option<&str>) {
        self.rep.fail(Failure { stream: stream.into(), what: what.into(), input, expected, got, known: known.map(|s| s.to_string()) });
    }
    /// the dictionaries' real iteration order and the whitespace table: compared with the model
    fn table_cases(&mut self) {
        for fm in formats() {
            let v = vocab(fm.l);
            let single = |xs: &Vec<String>| -> Vec<(String, String)> { xs.iter().map(|s| (s.clone(), String::new())).collect() };
            let dicts: Vec<(usize, Vec<(String, String)>)> = vec![
                (0, single(&v.prefixes)),
                (1, v.set_brackets.clone()),
                (2, single(&v.connecters)),
                (3, single(&v.copulas)),
                (4, single(&v.punctuations)),
                (5, v.stamp_brackets.clone()),
                (6, v.set_brackets_suffix_order.clone()),
            ];
            for (which, d) in dicts {
                self.push(
                    format!("LDictC {} {} {}", fm.idx, which, clist(&d, |(a, b)| format!("({}, {})", cstr(a), cstr(b)))),
                    format!("dictionary iteration order[{}] #{}", fm.name, which),
                );
            }
        }
        self.push("LWhitespaceC".into(), "char::is_whitespace = the model's 25 code points".into());
    }
}

fn finish(o: &Opts, prop: &str, mut rep: Report, cases: Vec<String>) -> Report {
    rep.shards = write_shards(&o.outdir, prop, "Nv.Run.LexRun", "mismatches_lex", "lcase", "N_scope", &cases, o.shards, "").unwrap();
    rep
}

fn shape(v: &LNarsese) -> String {
    let t = match term_of(v) {
        LTerm::Atom { .. } => "atom",
        LTerm::Compound { .. } => "compound",
        LTerm::Set { .. } => "set",
        LTerm::Statement { .. } => "statement",
    };
    let k = match v {
        LNarsese::Term(_) => "term".to_string(),
        LNarsese::Sentence(s) => format!("sentence/truth{}/{}", s.truth.len(), if s.stamp.is_empty() { "nostamp" } else { "stamp" }),
        LNarsese::Task(k) => format!("task/budget{}/truth{}/{}", k.budget.len(), k.sentence.truth.len(), if k.sentence.stamp.is_empty() { "nostamp" } else { "stamp" }),
    };
    format!("{}:{}", k, t)
}

// -------------------------------------------------------------------------------------------
// C02: lexical format then parse
// -------------------------------------------------------------------------------------------
pub fn run_c02(o: &Opts) -> Report {
    let mut rep = Report::new(
        "C02",
        "lexical values over the real dictionaries of each format (1-5 components, nesting, all connecters / set brackets / copulas / prefixes / punctuations, all stamp forms, 0-5 truth and budget entries, names from per-format adversarial alphabets) x 3 formats: \
         real format_narsese vs model byte for byte; real parse of that text vs model parse; on the real code: parse(format(x)) == x field for field for every x of the property's domain (vocab_ok restated independently; known class K5 by a decidable predicate); \
         a second stream of values OUTSIDE the domain (foreign keywords, zero components, empty names, garbage numbers / stamps / punctuation, names with keywords) is compared model vs implementation only; \
         plus the real iteration order of every dictionary (prefix_terms / suffix_terms) and std's char::is_whitespace vs the model; distinct = distinct (format, value); non-trivial = not a bare atom",
    );
    let mut rng = Rng::new(o.seed ^ 0xC02);
    let mut cx = Ctx { rep: &mut rep, cases: vec![] };
    cx.table_cases();
    let per = (o.n / 3).max(20);
    for fm in formats() {
        let v = vocab(fm.l);
        let kw = keywords(fm.l, &v);
        let dom = Dom { l: fm.l, v: &v, kw: &kw };
        let depth = if o.thorough { 5 } else { 4 };
        let strict = LexGen { fm: &fm, v: &v, kw: &kw, max_depth: depth, strict_names: true, wild: false };
        let wild = LexGen { fm: &fm, v: &v, kw: &kw, max_depth: depth, strict_names: false, wild: true };
        let mut values: Vec<(LNarsese, bool)> = vec![];
        for k in 0..12 {
            values.push((strict.narsese(&mut rng, k % 3, Some(k % 4)), true));
        }
        for i in 0..per {
            values.push((strict.narsese(&mut rng, i % 3, None), true));
        }
        for i in 0..(per / 3).max(8) {
            values.push((wild.narsese(&mut rng, i % 3, None), false));
        }
        // corners of the item layer, for every format: an atom that begins like a budget (prefix = budget bracket,
        // numeric name), every stamp form with empty content, empty budget, bare atoms ending in stamp / truth
        // content characters, every punctuation with every prefix, single-entry and five-entry truths
        {
            let num = |s: &str| LTerm::new_atom("", s);
            let bl = fm.l.task.budget_brackets.0.clone();
            for p in v.prefixes.iter() {
                for name in ["1", "0", "12", "a", "x1", "a1"] {
                    if !dom.name_ok(name) {
                        continue;
                    }
                    let a = LTerm::new_atom(p.clone(), name);
                    values.push((LNarsese::Term(a.clone()), true));
                    for q in v.punctuations.iter() {
                        values.push((LNarsese::Sentence(LSentence::new(a.clone(), q.clone(), "", vec![])), true));
                        values.push((LNarsese::Sentence(LSentence::new(a.clone(), q.clone(), "", vec!["1".to_string()])), true));
                    }
                }
                if *p == bl {
                    cx.rep.hist.add(format!("{}:corner:prefix-equals-budget-bracket", fm.name));
                }
            }
            for (a, b) in v.stamp_brackets.iter() {
                for content in ["", "1", "-1", "+0"] {
                    if a.is_empty() && !content.is_empty() {
                        continue;
                    }
                    let st = format!("{}{}{}", a, content, b);
                    for tv in [vec![], vec!["0.5".to_string()], vec!["1".to_string(), "0.9".to_string(), ".".to_string(), "7".to_string(), "0".to_string()]] {
                        values.push((LNarsese::Sentence(LSentence::new(num("a"), v.punctuations[0].clone(), st.clone(), tv.clone())), true));
                        values.push((LNarsese::Task(LTask { budget: vec![], sentence: LSentence::new(num("12"), v.punctuations[1].clone(), st.clone(), tv.clone()) }), true));
                        values.push((LNarsese::Task(LTask { budget: vec!["0.1".to_string()], sentence: LSentence::new(LTerm::new_set(v.set_brackets[0].0.clone(), vec![num("a")], v.set_brackets[0].1.clone()), v.punctuations[2].clone(), st.clone(), tv) }), true));
                    }
                }
            }
        }
        // the K5 witness of DESIGN.md and its harmless neighbours
        if fm.idx == 2 {
            values.push((LNarsese::Term(LTerm::new_statement("得", LTerm::new_atom("", "x将"), LTerm::new_atom("", "y"))), true));
            values.push((LNarsese::Term(LTerm::new_statement("有", LTerm::new_atom("", "x具"), LTerm::new_atom("", "y"))), true));
            values.push((LNarsese::Term(LTerm::new_statement("是", LTerm::new_atom("", "x将"), LTerm::new_atom("", "y"))), true));
        }
        // one wide value: > 128 non-atomic components in one compound / set (depth counters, recursion guards)
        {
            let atom = |i: usize| LTerm::new_atom("", if fm.idx == 2 { format!("甲{}", i) } else { format!("w{}", i) });
            let items: Vec<LTerm> = (0..140).map(|i| if i % 2 == 0 { LTerm::new_set(v.set_brackets[0].0.clone(), vec![atom(i)], v.set_brackets[0].1.clone()) } else { LTerm::new_statement(v.copulas[0].clone(), atom(i), atom(0)) }).collect();
            values.push((LNarsese::Term(LTerm::new_compound(v.connecters[0].clone(), items.clone())), true));
            values.push((LNarsese::Term(LTerm::new_set(v.set_brackets[0].0.clone(), items, v.set_brackets[0].1.clone())), true));
        }
        for (x, intended) in values {
            let Some(s) = cx.fmt_case(&fm, &x) else {
                cx.fail("values", "formatting a lexical value panicked", format!("[{}] {:?}", fm.name, x), "a string".into(), "PANIC".into(), None);
                continue;
            };
            let in_dom = dom.vocab_ok(&x);
            cx.push(format!("LVocabC {} {} {}", fm.idx, clnarsese(&x), cbool(in_dom)), format!("vocab_ok[{}] {:?}", fm.name, x));
            if intended && !in_dom {
                cx.rep.hist.add(format!("{}:generator-left-domain", fm.name));
            }
            cx.rep.hist.add(format!("{}:{}:{}", fm.name, if in_dom { "domain" } else { "outside" }, shape(&x)));
            if !matches!(term_of(&x), LTerm::Atom { .. }) || !matches!(x, LNarsese::Term(_)) {
                cx.rep.note_distinct(&format!("{}|{:?}", fm.idx, x));
            }
            cx.rep.sample(format!("[{}] {}", fm.name, s));
            let r = cx.parse_case(&fm, &s);
            cx.rep.hist.add(format!("{}:parse-of-formatted:{}", fm.name, pr_tag(&r)));
            if r.is_err() {
                cx.fail("values", "lexical parser panicked on formatter output", format!("[{}] {:?}", fm.name, s), "Ok or Err".into(), "PANIC".into(), None);
                continue;
            }
            if in_dom {
                let known = if dom.k5(term_of(&x)) { Some("K5") } else { None };
                // the known class is the failure of the theorems' hypothesis unamb_top (decided by the model)
                cx.push(format!("LUnambC {} {} {}", fm.idx, clnarsese(&x), cbool(known.is_some())), format!("K5 = not unamb_top[{}] {:?}", fm.name, x));
                let good = matches!(&r, Ok(Some(w)) if *w == x);
                if !good {
                    cx.fail(
                        "values",
                        "parse(format(x)) differs from x",
                        format!("[{}] {:?} = format of {:?}", fm.name, s, x),
                        format!("{:?}", x),
                        match &r {
                            Ok(Some(w)) => format!("{:?}", w),
                            Ok(None) => "Err".into(),
                            Err(()) => "PANIC".into(),
                        },
                        known,
                    );
                } else if let Some(k) = known {
                    cx.rep.hist.add(format!("known-class-but-round-trips:{}", k));
                }
            }
        }
    }
    // placeholders: a prefix with an EMPTY name is what the enum formatter prints for `_`; it is outside the theorem's
    // domain (names non-empty) but part of every format's vocabulary, and the library round-trips it: checked on the real code,
    // directly before every copula / separator / bracket
    for fm in formats() {
        let v = vocab(fm.l);
        let ph = fm.e.atom.prefix_placeholder.to_string();
        let a = LTerm::new_atom("", if fm.idx == 2 { "甲" } else { "A" });
        let hole = LTerm::new_atom(ph.clone(), "");
        let mut xs: Vec<LTerm> = vec![];
        for c in &v.copulas {
            xs.push(LTerm::new_statement(c.clone(), hole.clone(), a.clone()));
            xs.push(LTerm::new_statement(c.clone(), a.clone(), hole.clone()));
            xs.push(LTerm::new_statement(c.clone(), LTerm::new_statement(c.clone(), hole.clone(), a.clone()), a.clone()));
        }
        for c in &v.connecters {
            xs.push(LTerm::new_compound(c.clone(), vec![a.clone(), hole.clone(), a.clone()]));
            xs.push(LTerm::new_compound(c.clone(), vec![hole.clone()]));
        }
        for (l, r) in &v.set_brackets {
            xs.push(LTerm::new_set(l.clone(), vec![hole.clone(), a.clone()], r.clone()));
        }
        for t in xs {
            for x in [LNarsese::Term(t.clone()), LNarsese::Sentence(LSentence { term: t.clone(), punctuation: v.punctuations[0].clone(), stamp: String::new(), truth: vec![] })] {
                let Some(s) = cx.fmt_case(&fm, &x) else { continue };
                let r = cx.parse_case(&fm, &s);
                cx.rep.hist.add(format!("{}:placeholder:{}", fm.name, pr_tag(&r)));
                if !matches!(&r, Ok(Some(w)) if *w == x) {
                    cx.fail("placeholders", "parse(format(x)) differs from x (prefix-only atom)", format!("[{}] {:?}", fm.name, s), format!("{:?}", x), format!("{:?}", r.as_ref().ok()), None);
                }
            }
        }
    }
    let cases = std::mem::take(&mut cx.cases);
    finish(o, "C02", rep, cases)
}

// -------------------------------------------------------------------------------------------
// C05: totality of the lexical parser (parse and parse_term) on malformed input
// -------------------------------------------------------------------------------------------
const UNICODE_WS: &[char] = &['\t', '\n', '\u{b}', '\u{c}', '\r', ' ', '\u{85}', '\u{a0}', '\u{1680}', '\u{2000}', '\u{2003}', '\u{200a}', '\u{2028}', '\u{2029}', '\u{202f}', '\u{205f}', '\u{3000}', '\u{200b}', '\u{feff}'];

fn lex_keyword_pool(fm: &Fm, v: &Vocab, kw: &[String]) -> Vec<String> {
    let mut pool = keyword_pool(fm.e);
    pool.extend(kw.iter().cloned());
    for (a, b) in &v.stamp_brackets {
        pool.push(format!("{}-1{}", a, b));
    }
    pool.extend(["0", "1", ".", "+", "-", "a", "_", "9"].iter().map(|s| s.to_string()));
    pool
}

fn lex_stress(fm: &Fm, v: &Vocab, rng: &mut Rng, depth: usize) -> Vec<String> {
    let l = fm.l;
    let mut out = stress_inputs(fm.e, rng, depth);
    // the inputs of finding F2 (fixed) and their relatives: truncated multi-character brackets
    let conn = |i: usize| v.connecters[i % v.connecters.len()].clone();
    let mut openers: Vec<String> = vec![
        format!("{}{}{}", l.compound.brackets.0, conn(0), l.compound.separator),
        format!("{}{}", l.compound.brackets.0, conn(3)),
        l.statement.brackets.0.clone(),
        l.compound.brackets.0.clone(),
    ];
    for (a, _) in &v.set_brackets {
        openers.push(a.clone());
    }
    let closers: Vec<String> = {
        let mut c = vec![l.compound.brackets.1.clone(), l.statement.brackets.1.clone()];
        for (_, b) in &v.set_brackets {
            c.push(b.clone());
        }
        c
    };
    for d in [1usize, 2, 3, 5, 8, 16, 32, depth] {
        let mut s = String::new();
        for _ in 0..d {
            s.push_str(rng.pick::<String>(&openers).as_str());
        }
        s.push('a');
        out.push(s.clone());
        for k in 0..d.min(6) {
            // closers, each possibly truncated by one or more characters
            let c: Vec<char> = rng.pick::<String>(&closers).chars().collect();
            let cut = if k == d.min(6) - 1 { rng.below(c.len() + 1) } else { c.len() };
            s.extend(c[..cut].iter());
            out.push(s.clone());
        }
    }
    // statement skeletons with every copula, cut anywhere
    for c in &v.copulas {
        let s = format!("{}a{}b{}", l.statement.brackets.0, c, l.statement.brackets.1);
        let cs: Vec<char> = s.chars().collect();
        out.push(s.clone());
        out.push(cs[..rng.below(cs.len() + 1)].iter().collect());
    }
    // item fragments: budget / truth / stamp / punctuation alone and in wrong places
    let (bl, br) = (&l.task.budget_brackets.0, &l.task.budget_brackets.1);
    let (tl, tr) = (&l.sentence.truth_brackets.0, &l.sentence.truth_brackets.1);
    for body in ["", "0.5", "0.5;0.5", "1,2", "0.5、0.5", "x"] {
        out.push(format!("{}{}{}", bl, body, br));
        out.push(format!("{}{}", bl, body));
        out.push(format!("{}{}{}", tl, body, tr));
        out.push(format!("{}{}", body, tr));
        out.push(format!("{}{}{}{}{}{}", bl, body, br, tl, body, tr));
        out.push(format!("{}{}{}a", tl, body, tr));
        out.push(format!("{}{}{}a{}", bl, body, br, v.punctuations[0]));
        out.push(format!("{}{}{}{}", bl, body, br, v.punctuations[0]));
    }
    for (a, b) in &v.stamp_brackets {
        for body in ["", "1", "-1", "+", "x"] {
            out.push(format!("{}{}{}", a, body, b));
            out.push(format!("a{}{}{}{}", v.punctuations[0], a, body, b));
            out.push(format!("a{}{}{}", a, body, b));
        }
    }
    for p in &v.punctuations {
        out.push(p.clone());
        out.push(format!("a{}{}", p, p));
    }
    // budget bracket overlapping the suffix items
    out.push(format!("{}{}", bl, tr));
    out.push(format!("{}{}{}", bl, br, br));
    out.push(format!("{}", bl));
    // long inputs
    out.push("a".repeat(512));
    out.push(format!("{}{}", l.statement.brackets.0, "a".repeat(300)));
    let unit = format!("{}{}{}a{}", l.compound.brackets.0, conn(4), l.compound.separator, l.compound.brackets.1);
    let mut long = String::new();
    while long.chars().count() + unit.chars().count() < 500 {
        long.push_str(&unit);
    }
    out.push(long);
    // balanced deep nesting (depth), sets inside statements inside compounds
    let mut s = String::new();
    let mut close: Vec<String> = vec![];
    for d in 0..depth {
        match d % 3 {
            0 => {
                s.push_str(&format!("{}{}{}", l.compound.brackets.0, conn(d), l.compound.separator));
                close.push(l.compound.brackets.1.clone());
            }
            1 => {
                let (a, b) = &v.set_brackets[d % v.set_brackets.len()];
                s.push_str(a);
                close.push(b.clone());
            }
            _ => {
                s.push_str(&l.statement.brackets.0);
                close.push(format!("{}b{}", v.copulas[d % v.copulas.len()], l.statement.brackets.1));
            }
        }
    }
    s.push('a');
    for c in close.iter().rev() {
        s.push_str(c);
    }
    out.push(s);
    out
}

/// the malformed stream of one format
fn malformed_lex(rng: &mut Rng, fm: &Fm, v: &Vocab, kw: &[String], n: usize, thorough: bool) -> Vec<String> {
    let pool = lex_keyword_pool(fm, v, kw);
    let mut out = lex_stress(fm, v, rng, 64);
    let depth = if thorough { 5 } else { 4 };
    let strict = LexGen { fm, v, kw, max_depth: depth, strict_names: true, wild: false };
    let wild = LexGen { fm, v, kw, max_depth: depth, strict_names: false, wild: true };
    let eg = term_gen_for(fm, depth, 4);
    let mut texts: Vec<String> = vec![];
    for i in 0..(n / 4 + 6) {
        let x = if i % 4 == 3 { wild.narsese(rng, i % 3, None) } else { strict.narsese(rng, i % 3, None) };
        texts.push(fm.l.format_narsese(&x));
        // realistic texts of the enum formatter with the same-named format
        let ev = gen_narsese(rng, &eg, i % 3, None);
        if let Some(s) = guard(|| fm.e.format_narsese(&ev)) {
            texts.push(s);
        }
    }
    for s in &texts {
        let chars: Vec<char> = s.chars().collect();
        if chars.len() <= [26usize, 90, 26][fm.idx] {
            for k in 0..chars.len() {
                out.push(chars[..k].iter().collect());
            }
        }
        let mut m = s.clone();
        for _ in 0..rng.range(1, 3) {
            m = mutate(&m, rng, &pool);
        }
        out.push(m);
        out.push(mutate(s, rng, &pool));
        if rng.chance(1, 2) {
            // Unicode whitespace sprinkled over a valid text
            let mut w = String::new();
            for c in s.chars() {
                if rng.chance(1, 5) {
                    w.push(*rng.pick::<char>(UNICODE_WS));
                }
                w.push(c);
            }
            out.push(w);
        }
    }
    out
}

/// parser half of C05 (a fold stream can be appended by `run_c05`)
fn c05_parser_stream(o: &Opts, cx: &mut Ctx, rng: &mut Rng) {
    // corpus: the inputs of the fixed finding F2 run first
    let corpus: Vec<(usize, &str)> = vec![
        (1, "\\left(\\times{}\\; \\left(\\times{}\\; a\\right"),
        (1, "\\left<\\left(\\times{}\\; a\\right"),
        (1, "\\left<a\\rightarrow{}b\\righ"),
        (1, "\\left\\{a\\right"),
        (0, "<(*,(*,(*,(*,(*,a"),
        (2, "「（积，（积，（积，a"),
        (0, "$"),
        (0, "?"),
        (0, ""),
    ];
    for (fi, s) in corpus {
        let fm = &formats()[fi];
        let r = cx.parse_case(fm, s);
        let t = cx.parse_term_case(fm, s);
        if r.is_err() || t.is_err() {
            cx.fail("corpus", "lexical parser panicked", format!("[{}] {:?}", fm.name, s), "Ok or Err".into(), "PANIC".into(), None);
        }
    }
    // a custom (non-shipped) format violating the table obligation of the totality theorem (budget brackets :=
    // truth brackets): the model predicts `&env[3..0]` for "%1%" (Props/C05.v C05_table_obligation_needed)
    {
        let mut f = formats()[0].l.clone();
        f.task.budget_brackets = f.sentence.truth_brackets.clone();
        let r = guard(|| f.parse("%1%").is_ok());
        cx.rep.hist.add(format!(
            "custom-format(ascii, budget brackets := truth brackets) \"%1%\": {}",
            match r {
                None => "panic (as the model predicts)",
                Some(_) => "no panic (THE MODEL PREDICTS A PANIC)",
            }
        ));
    }
    for fm in formats() {
        let v = vocab(fm.l);
        let kw = keywords(fm.l, &v);
        let inputs = malformed_lex(rng, &fm, &v, &kw, o.n / 3, o.thorough);
        let cap = if o.thorough { usize::MAX } else { 600 };
        for (i, s) in inputs.iter().enumerate() {
            let len = s.chars().count();
            let long = len > cap && i % 7 != 0;
            cx.rep.hist.add(format!("{}:len:{}", fm.name, match len { 0 => "0", 1..=8 => "1-8", 9..=32 => "9-32", 33..=128 => "33-128", _ => ">128" }));
            // the model is evaluated on the shorter inputs (and a seventh of the long ones) in the quick tier; the real code on all
            let r = if long { cx.rep.evaluations += 1; real_lex_parse(fm.l, s) } else { cx.parse_case(&fm, s) };
            cx.rep.hist.add(format!("{}:parse:{}", fm.name, pr_tag(&r)));
            if r.is_err() {
                cx.fail("malformed", "lexical parser panicked (parse)", format!("[{}] {:?}", fm.name, s), "Ok or Err".into(), "PANIC".into(), None);
            }
            let t = if long || i % 2 == 1 { cx.rep.evaluations += 1; real_lex_parse_term(fm.l, s) } else { cx.parse_term_case(&fm, s) };
            cx.rep.hist.add(format!("{}:parse_term:{}", fm.name, pr_tag(&t)));
            if t.is_err() {
                cx.fail("malformed", "lexical parser panicked (parse_term)", format!("[{}] {:?}", fm.name, s), "Ok or Err".into(), "PANIC".into(), None);
            }
            if i < 6 {
                cx.rep.sample(format!("[{}] {:?} -> {}", fm.name, s, pr_tag(&r)));
            }
        }
    }
}

pub fn run_c05(o: &Opts) -> Report {
    let mut rep = Report::new(
        "C05",
        "parser half: malformed stream (code-point deletion / duplication / transposition, keyword insertion and replacement, span deletion / duplication, truncation at every prefix for short inputs, multi-character brackets truncated inside, unbalanced and balanced nesting to depth 64, 512-char inputs, Unicode whitespace, item fragments in wrong places) \
         over lexical-formatter and enum-formatter texts x 3 formats x entry points parse / parse_term: real outcome (Ok value | Err | panic) vs model outcome; on the real code: no panic, error Display works; \
         plus dictionary iteration orders and char::is_whitespace vs the model; distinct = distinct (format, entry, input); non-trivial = non-empty input",
    );
    let mut rng = Rng::new(o.seed ^ 0xC05);
    let mut cx = Ctx { rep: &mut rep, cases: vec![] };
    cx.table_cases();
    c05_parser_stream(o, &mut cx, &mut rng);
    let cases = std::mem::take(&mut cx.cases);
    finish(o, "C05", rep, cases)
}
