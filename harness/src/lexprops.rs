//! Correspondence streams and real-code property search for the lexical string conversion:
//! C02 (format then parse) and C05 (totality of the lexical parser; the fold half of C05 is a
//! separate stream, see `c05_parser_stream` / `run_c05`).
//! Model: Model/LexFormatter.v, Model/LexParser.v; runner: Run/LexRun.v.
use crate::coqw::*;
use crate::enumgen::{formats, gen_narsese, keyword_pool, mutate, stress_inputs, term_gen_for, Fm};
use crate::gen::{gen_name, NameStyle};
use crate::prng::Rng;
use crate::util::*;
use nar_dev_utils::{PrefixMatch, SuffixMatch};
use narsese::conversion::string::impl_lexical::NarseseFormat as LexFormat;
use narsese::lexical::{Narsese as LNarsese, Sentence as LSentence, Task as LTask, Term as LTerm};

// -------------------------------------------------------------------------------------------
// the vocabulary of a lexical format, read through the public dictionary API (iteration order!)
// -------------------------------------------------------------------------------------------
pub struct Vocab {
    pub prefixes: Vec<String>,
    pub set_brackets: Vec<(String, String)>,
    pub set_brackets_suffix_order: Vec<(String, String)>,
    pub connecters: Vec<String>,
    pub copulas: Vec<String>,
    pub punctuations: Vec<String>,
    pub stamp_brackets: Vec<(String, String)>,
}

pub fn vocab(l: &LexFormat) -> Vocab {
    Vocab {
        prefixes: l.atom.prefixes.prefix_terms().cloned().collect(),
        set_brackets: l.compound.set_brackets.prefix_terms().cloned().collect(),
        set_brackets_suffix_order: l.compound.set_brackets.suffix_terms().cloned().collect(),
        connecters: l.compound.connecters.prefix_terms().cloned().collect(),
        copulas: l.statement.copulas.prefix_terms().cloned().collect(),
        punctuations: l.sentence.punctuations.suffix_terms().cloned().collect(),
        stamp_brackets: l.sentence.stamp_brackets.suffix_terms().cloned().collect(),
    }
}

/// every non-empty keyword of the format (what a name of the C02 domain must not contain)
pub fn keywords(l: &LexFormat, v: &Vocab) -> Vec<String> {
    let mut k: Vec<String> = vec![];
    k.extend(v.prefixes.iter().cloned());
    for (a, b) in v.set_brackets.iter().chain(v.stamp_brackets.iter()) {
        k.push(a.clone());
        k.push(b.clone());
    }
    k.extend(v.connecters.iter().cloned());
    k.extend(v.copulas.iter().cloned());
    k.extend(v.punctuations.iter().cloned());
    for s in [
        &l.compound.brackets.0,
        &l.compound.brackets.1,
        &l.compound.separator,
        &l.statement.brackets.0,
        &l.statement.brackets.1,
        &l.sentence.truth_brackets.0,
        &l.sentence.truth_brackets.1,
        &l.sentence.truth_separator,
        &l.task.budget_brackets.0,
        &l.task.budget_brackets.1,
        &l.task.budget_separator,
    ] {
        k.push(s.clone());
    }
    k.retain(|s| !s.is_empty());
    k.sort();
    k.dedup();
    k
}

// -------------------------------------------------------------------------------------------
// serialisation into the model's types
// -------------------------------------------------------------------------------------------
pub fn clterm(t: &LTerm) -> String {
    match t {
        LTerm::Atom { prefix, name } => format!("(LAtom {} {})", cstr(prefix), cstr(name)),
        LTerm::Compound { connecter, terms } => format!("(LCompound {} {})", cstr(connecter), clist(terms, clterm)),
        LTerm::Set { left_bracket, terms, right_bracket } => {
            format!("(LSet {} {} {})", cstr(left_bracket), clist(terms, clterm), cstr(right_bracket))
        }
        LTerm::Statement { copula, subject, predicate } => {
            format!("(LStatement {} {} {})", cstr(copula), clterm(subject), clterm(predicate))
        }
    }
}
pub fn clsentence(s: &LSentence) -> String {
    format!(
        "{{| ls_term := {}; ls_punct := {}; ls_stamp := {}; ls_truth := {} |}}",
        clterm(&s.term),
        cstr(&s.punctuation),
        cstr(&s.stamp),
        clist(&s.truth, |x| cstr(x))
    )
}
pub fn cltask(k: &LTask) -> String {
    format!("{{| lt_budget := {}; lt_sentence := {} |}}", clist(&k.budget, |x| cstr(x)), clsentence(&k.sentence))
}
pub fn clnarsese(v: &LNarsese) -> String {
    match v {
        LNarsese::Term(t) => format!("(NTerm {})", clterm(t)),
        LNarsese::Sentence(s) => format!("(NSentence {})", clsentence(s)),
        LNarsese::Task(k) => format!("(NTask {})", cltask(k)),
    }
}

/// Ok(Some(v)) parsed, Ok(None) error (the error could be displayed), Err(()) panic
pub type PR<T> = Result<Option<T>, ()>;

fn clres<T>(r: &PR<T>, f: impl Fn(&T) -> String) -> String {
    match r {
        Ok(Some(v)) => format!("(LOk {})", f(v)),
        Ok(None) => "LErr".into(),
        Err(()) => "LPanic".into(),
    }
}
fn pr_tag<T>(r: &PR<T>) -> &'static str {
    match r {
        Ok(Some(_)) => "ok",
        Ok(None) => "err",
        Err(()) => "panic",
    }
}

pub fn real_lex_parse(l: &'static LexFormat, s: &str) -> PR<LNarsese> {
    guard(|| match l.parse(s) {
        Ok(v) => Some(v),
        Err(err) => {
            let _ = format!("{}", err);
            let _ = format!("{:?}", err);
            None
        }
    })
    .ok_or(())
}
pub fn real_lex_parse_term(l: &'static LexFormat, s: &str) -> PR<LTerm> {
    guard(|| match l.parse_term(s) {
        Ok(v) => Some(v),
        Err(err) => {
            let _ = format!("{}", err);
            None
        }
    })
    .ok_or(())
}

// -------------------------------------------------------------------------------------------
// the C02 domain, restated independently
// -------------------------------------------------------------------------------------------
pub struct Dom<'a> {
    pub l: &'a LexFormat,
    pub v: &'a Vocab,
    pub kw: &'a [String],
}

impl<'a> Dom<'a> {
    pub fn name_ok(&self, n: &str) -> bool {
        !n.is_empty() && n.chars().all(|c| (self.l.atom.is_identifier)(c)) && !self.kw.iter().any(|k| n.contains(k.as_str()))
    }
    pub fn number_ok(&self, s: &str) -> bool {
        !s.is_empty() && s.chars().all(|c| c.is_ascii_digit() || c == '.')
    }
    pub fn stamp_ok(&self, s: &str) -> bool {
        if s.is_empty() {
            return true;
        }
        self.v.stamp_brackets.iter().any(|(a, b)| {
            if a.is_empty() {
                s == b
            } else {
                s.len() >= a.len() + b.len()
                    && s.starts_with(a.as_str())
                    && s.ends_with(b.as_str())
                    && s[a.len()..s.len() - b.len()].chars().all(|c| (self.l.sentence.is_stamp_content)(c))
            }
        })
    }
    pub fn term_ok(&self, t: &LTerm) -> bool {
        match t {
            LTerm::Atom { prefix, name } => self.v.prefixes.contains(prefix) && self.name_ok(name),
            LTerm::Compound { connecter, terms } => {
                self.v.connecters.contains(connecter) && !terms.is_empty() && terms.iter().all(|x| self.term_ok(x))
            }
            LTerm::Set { left_bracket, terms, right_bracket } => {
                self.v.set_brackets.contains(&(left_bracket.clone(), right_bracket.clone()))
                    && !terms.is_empty()
                    && terms.iter().all(|x| self.term_ok(x))
            }
            LTerm::Statement { copula, subject, predicate } => {
                self.v.copulas.contains(copula) && self.term_ok(subject) && self.term_ok(predicate)
            }
        }
    }
    pub fn sentence_ok(&self, s: &LSentence) -> bool {
        self.term_ok(&s.term) && self.v.punctuations.contains(&s.punctuation) && self.stamp_ok(&s.stamp) && s.truth.iter().all(|x| self.number_ok(x))
    }
    pub fn vocab_ok(&self, v: &LNarsese) -> bool {
        match v {
            LNarsese::Term(t) => self.term_ok(t),
            LNarsese::Sentence(s) => self.sentence_ok(s),
            LNarsese::Task(k) => self.sentence_ok(&k.sentence) && k.budget.iter().all(|x| self.number_ok(x)),
        }
    }

    /// Known class K5 (inherent, Han only in the shipped tables): the subject of a statement is an atom
    /// and, in the whitespace-free text, a copula of the format already matches at a position INSIDE
    /// the subject's name (the name contains no keyword; its end together with the beginning of what
    /// follows creates one), so that the name scan stops early.
    pub fn k5(&self, t: &LTerm) -> bool {
        let strip = |s: String| -> Vec<char> { s.chars().filter(|c| !c.is_whitespace()).collect() };
        match t {
            LTerm::Atom { .. } => false,
            LTerm::Compound { terms, .. } | LTerm::Set { terms, .. } => terms.iter().any(|x| self.k5(x)),
            LTerm::Statement { copula, subject, predicate } => {
                if self.k5(subject) || self.k5(predicate) {
                    return true;
                }
                if let LTerm::Atom { name, .. } = &**subject {
                    let mut text: Vec<char> = name.chars().collect();
                    let n = text.len();
                    text.extend(copula.chars());
                    text.extend(strip(self.l.format_term(predicate)));
                    text.extend(self.l.statement.brackets.1.chars());
                    for i in 0..n {
                        let rest: String = text[i..].iter().collect();
                        if self.v.copulas.iter().any(|c| !c.is_empty() && rest.starts_with(c.as_str())) {
                            return true;
                        }
                    }
                }
                false
            }
        }
    }
}

fn term_of(v: &LNarsese) -> &LTerm {
    match v {
        LNarsese::Term(t) => t,
        LNarsese::Sentence(s) => &s.term,
        LNarsese::Task(k) => &k.sentence.term,
    }
}

// -------------------------------------------------------------------------------------------
// lexical values built through the PUBLIC VARIANTS / struct literals
// -------------------------------------------------------------------------------------------
// The property quantifies over every lexical value, i.e. over everything the public enum variants and the
// public fields can hold.  The convenience constructors (`Term::new_set`, `Sentence::new`, the `lexical_*!`
// macros) are library code: if one of them ever normalises its arguments (drops repeated components, sorts,
// trims), a generator that builds its values through them can only produce values that are already normal
// and never sees that parse(format(x)) loses information.  Every value of the lexical streams is therefore
// built with the literals below.
pub fn mk_atom(prefix: impl Into<String>, name: impl Into<String>) -> LTerm {
    LTerm::Atom { prefix: prefix.into(), name: name.into() }
}
pub fn mk_compound(connecter: impl Into<String>, terms: Vec<LTerm>) -> LTerm {
    LTerm::Compound { connecter: connecter.into(), terms }
}
pub fn mk_set(left_bracket: impl Into<String>, terms: Vec<LTerm>, right_bracket: impl Into<String>) -> LTerm {
    LTerm::Set { left_bracket: left_bracket.into(), terms, right_bracket: right_bracket.into() }
}
pub fn mk_statement(copula: impl Into<String>, subject: LTerm, predicate: LTerm) -> LTerm {
    LTerm::Statement { copula: copula.into(), subject: Box::new(subject), predicate: Box::new(predicate) }
}
pub fn mk_sentence(term: LTerm, punctuation: impl Into<String>, stamp: impl Into<String>, truth: Vec<String>) -> LSentence {
    LSentence { term, punctuation: punctuation.into(), stamp: stamp.into(), truth }
}

/// which kinds of repetition a term contains (for the histogram): components of one compound / set that are
/// equal and adjacent, equal and not adjacent, a statement whose two operands are equal
pub fn repeats(t: &LTerm, out: &mut [bool; 3]) {
    match t {
        LTerm::Atom { .. } => {}
        LTerm::Compound { terms, .. } | LTerm::Set { terms, .. } => {
            for i in 0..terms.len() {
                for j in i + 1..terms.len() {
                    if terms[i] == terms[j] {
                        out[if j == i + 1 { 0 } else { 1 }] = true;
                    }
                }
                repeats(&terms[i], out);
            }
        }
        LTerm::Statement { subject, predicate, .. } => {
            if subject == predicate {
                out[2] = true;
            }
            repeats(subject, out);
            repeats(predicate, out);
        }
    }
}

// -------------------------------------------------------------------------------------------
// generators of lexical values over the real dictionaries
// -------------------------------------------------------------------------------------------
pub struct LexGen<'a> {
    pub fm: &'a Fm,
    pub v: &'a Vocab,
    pub kw: &'a [String],
    pub max_depth: usize,
    /// names restricted to the C02 domain?
    pub strict_names: bool,
    /// foreign keywords / zero components / garbage allowed?
    pub wild: bool,
    /// alphabet of the names, when not the format's usual one (e.g. non-ASCII names in the ASCII format)
    pub style_override: Option<NameStyle>,
}

const NUMBERS: &[&str] = &["0.5", "1", "0", "1.0", "0.9", "0.75", "0.123456789", "007", ".5", "5.", ".", "1e", "12345678901234567890", "0.4", "0.999"];
const STAMP_CONTENTS: &[&str] = &["", "1", "-1", "+137", "0", "-", "+-", "99999999999999999999", "-0", "42"];

impl<'a> LexGen<'a> {
    fn style(&self) -> NameStyle {
        if let Some(st) = self.style_override {
            return st;
        }
        match self.fm.idx {
            0 => NameStyle::Ascii,
            1 => NameStyle::Mixed,
            _ => NameStyle::Han,
        }
    }
    pub fn name(&self, rng: &mut Rng) -> String {
        let dom = Dom { l: self.fm.l, v: self.v, kw: self.kw };
        for _ in 0..300 {
            let style = if self.strict_names || rng.chance(3, 4) { self.style() } else { NameStyle::Mixed };
            let n = gen_name(rng, style);
            if !self.strict_names || dom.name_ok(&n) {
                return n;
            }
        }
        "n".to_string()
    }
    fn number(&self, rng: &mut Rng) -> String {
        if self.wild && rng.chance(1, 8) {
            return (*rng.pick::<&str>(&["", "x", "1;2", "-1", "1,5", " "])).to_string();
        }
        let s = *rng.pick::<&str>(NUMBERS);
        if self.strict_names && !s.chars().all(|c| c.is_ascii_digit() || c == '.') {
            return "0.5".into();
        }
        s.to_string()
    }
    fn numbers(&self, rng: &mut Rng) -> Vec<String> {
        let k = match rng.below(8) {
            0 | 1 => 0,
            2 => 1,
            3 | 4 => 2,
            5 => 3,
            6 => 4,
            _ => 5,
        };
        if k >= 2 && rng.chance(1, 5) {
            // the same entry k times
            let x = self.number(rng);
            return (0..k).map(|_| x.clone()).collect();
        }
        (0..k).map(|_| self.number(rng)).collect()
    }
    fn stamp(&self, rng: &mut Rng) -> String {
        if rng.chance(1, 3) {
            return String::new();
        }
        if self.wild && rng.chance(1, 8) {
            return (*rng.pick::<&str>(&[":", "::", "t", "x", ":!:x", "过", "t=t=1"])).to_string();
        }
        let (a, b) = rng.pick(&self.v.stamp_brackets).clone();
        if a.is_empty() {
            format!("{}{}", a, b)
        } else {
            format!("{}{}{}", a, rng.pick::<&str>(STAMP_CONTENTS), b)
        }
    }
    fn foreign<'b>(&self, rng: &mut Rng, own: &'b [String]) -> String {
        // a keyword of another format, or garbage
        let others = formats();
        let o = &others[(self.fm.idx + 1 + rng.below(2)) % 3];
        let ov = vocab(o.l);
        match rng.below(4) {
            0 => rng.pick(&ov.connecters).clone(),
            1 => rng.pick(&ov.copulas).clone(),
            2 => String::new(),
            _ => {
                let mut s = rng.pick(own).clone();
                s.push('x');
                s
            }
        }
    }
    pub fn atom(&self, rng: &mut Rng) -> LTerm {
        let prefix = if self.wild && rng.chance(1, 10) { self.foreign(rng, &self.v.prefixes) } else if rng.chance(1, 2) { String::new() } else { rng.pick(&self.v.prefixes).clone() };
        let name = if !self.strict_names && !prefix.is_empty() && rng.chance(1, 6) { String::new() } else { self.name(rng) };
        mk_atom(prefix, name)
    }
    fn comps(&self, rng: &mut Rng, depth: usize) -> Vec<LTerm> {
        let lo = if self.wild && rng.chance(1, 8) { 0 } else { 1 };
        let k = match rng.below(6) {
            0 => lo,
            1 | 2 => 2,
            3 => 3,
            4 => 1,
            _ => rng.range(lo, 5),
        };
        let mut v: Vec<LTerm> = (0..k).map(|_| self.term(rng, depth + 1)).collect();
        // repeated components (the lexical model does not interpret them: no set semantics, no arity rules):
        // a copy directly after its original, a copy somewhere else, or all components equal
        if !v.is_empty() && rng.chance(1, 4) {
            let i = rng.below(v.len());
            let x = v[i].clone();
            match rng.below(4) {
                0 | 1 => v.insert(i + 1, x),
                2 => {
                    if rng.chance(1, 2) {
                        v.push(x)
                    } else {
                        v.insert(0, x)
                    }
                }
                _ => {
                    let k = v.len().max(2);
                    v = (0..k).map(|_| x.clone()).collect();
                }
            }
        }
        v
    }
    pub fn term_kind(&self, rng: &mut Rng, depth: usize, kind: usize) -> LTerm {
        match kind {
            0 => self.atom(rng),
            1 => {
                let c = if self.wild && rng.chance(1, 10) { self.foreign(rng, &self.v.connecters) } else { rng.pick(&self.v.connecters).clone() };
                mk_compound(c, self.comps(rng, depth))
            }
            2 => {
                let (a, b) = if self.wild && rng.chance(1, 10) {
                    (rng.pick(&self.v.set_brackets).0.clone(), rng.pick(&self.v.set_brackets).1.clone())
                } else {
                    rng.pick(&self.v.set_brackets).clone()
                };
                mk_set(a, self.comps(rng, depth), b)
            }
            _ => {
                let c = if self.wild && rng.chance(1, 10) { self.foreign(rng, &self.v.copulas) } else { rng.pick(&self.v.copulas).clone() };
                let subject = self.term(rng, depth + 1);
                // both operands equal, now and then
                let predicate = if rng.chance(1, 6) { subject.clone() } else { self.term(rng, depth + 1) };
                mk_statement(c, subject, predicate)
            }
        }
    }
    pub fn term(&self, rng: &mut Rng, depth: usize) -> LTerm {
        if depth >= self.max_depth || rng.chance(2 + depth, 7 + depth) {
            return self.atom(rng);
        }
        let kind = 1 + rng.below(3);
        self.term_kind(rng, depth, kind)
    }
    pub fn sentence(&self, rng: &mut Rng, term: LTerm) -> LSentence {
        let p = if self.wild && rng.chance(1, 12) { (*rng.pick::<&str>(&["", "x", "..", "%"])).to_string() } else { rng.pick(&self.v.punctuations).clone() };
        mk_sentence(term, p, self.stamp(rng), self.numbers(rng))
    }
    /// kind: 0 term, 1 sentence, 2 task; top: top-level term kind if given
    pub fn narsese(&self, rng: &mut Rng, kind: usize, top: Option<usize>) -> LNarsese {
        let term = match top {
            Some(k) => self.term_kind(rng, 0, k),
            None => self.term(rng, 0),
        };
        match kind {
            0 => LNarsese::Term(term),
            1 => LNarsese::Sentence(self.sentence(rng, term)),
            _ => LNarsese::Task(LTask { budget: self.numbers(rng), sentence: self.sentence(rng, term) }),
        }
    }
}

// -------------------------------------------------------------------------------------------
// case construction
// -------------------------------------------------------------------------------------------
struct Ctx<'a> {
    rep: &'a mut Report,
    cases: Vec<String>,
}
impl<'a> Ctx<'a> {
    fn push(&mut self, case: String, descr: String) {
        self.cases.push(case);
        self.rep.case_descr.push(descr);
        self.rep.evaluations += 1;
    }
    fn parse_case(&mut self, fm: &Fm, s: &str) -> PR<LNarsese> {
        let r = real_lex_parse(fm.l, s);
        self.push(format!("LParseC {} {} {}", fm.idx, cstr(s), clres(&r, clnarsese)), format!("lexical parse[{}] {:?}", fm.name, s));
        self.rep.note_distinct(&format!("p{}|{}", fm.idx, s));
        r
    }
    fn parse_term_case(&mut self, fm: &Fm, s: &str) -> PR<LTerm> {
        let r = real_lex_parse_term(fm.l, s);
        self.push(format!("LParseTermC {} {} {}", fm.idx, cstr(s), clres(&r, clterm)), format!("lexical parse_term[{}] {:?}", fm.name, s));
        self.rep.note_distinct(&format!("t{}|{}", fm.idx, s));
        r
    }
    fn fmt_case(&mut self, fm: &Fm, v: &LNarsese) -> Option<String> {
        let s = guard(|| fm.l.format_narsese(v))?;
        self.push(format!("LFmtC {} {} {}", fm.idx, clnarsese(v), cstr(&s)), format!("lexical format[{}] {:?}", fm.name, v));
        Some(s)
    }
    fn fail(&mut self, stream: &str, what: &str, input: String, expected: String, got: String, known: Option<&str>) {
        self.rep.fail(Failure { stream: stream.into(), what: what.into(), input, expected, got, known: known.map(|s| s.to_string()) });
    }
    /// the dictionaries' real iteration order and the whitespace table: compared with the model
    fn table_cases(&mut self) {
        for fm in formats() {
            let v = vocab(fm.l);
            let single = |xs: &Vec<String>| -> Vec<(String, String)> { xs.iter().map(|s| (s.clone(), String::new())).collect() };
            let dicts: Vec<(usize, Vec<(String, String)>)> = vec![
                (0, single(&v.prefixes)),
                (1, v.set_brackets.clone()),
                (2, single(&v.connecters)),
                (3, single(&v.copulas)),
                (4, single(&v.punctuations)),
                (5, v.stamp_brackets.clone()),
                (6, v.set_brackets_suffix_order.clone()),
            ];
            for (which, d) in dicts {
                self.push(
                    format!("LDictC {} {} {}", fm.idx, which, clist(&d, |(a, b)| format!("({}, {})", cstr(a), cstr(b)))),
                    format!("dictionary iteration order[{}] #{}", fm.name, which),
                );
            }
        }
        self.push("LWhitespaceC".into(), "char::is_whitespace = the model's 25 code points".into());
    }
}

fn finish(o: &Opts, prop: &str, mut rep: Report, cases: Vec<String>) -> Report {
    rep.shards = write_shards(&o.outdir, prop, "Nv.Run.LexRun", "mismatches_lex", "lcase", "N_scope", &cases, o.shards, "").unwrap();
    rep
}

fn shape(v: &LNarsese) -> String {
    let t = match term_of(v) {
        LTerm::Atom { .. } => "atom",
        LTerm::Compound { .. } => "compound",
        LTerm::Set { .. } => "set",
        LTerm::Statement { .. } => "statement",
    };
    let k = match v {
        LNarsese::Term(_) => "term".to_string(),
        LNarsese::Sentence(s) => format!("sentence/truth{}/{}", s.truth.len(), if s.stamp.is_empty() { "nostamp" } else { "stamp" }),
        LNarsese::Task(k) => format!("task/budget{}/truth{}/{}", k.budget.len(), k.sentence.truth.len(), if k.sentence.stamp.is_empty() { "nostamp" } else { "stamp" }),
    };
    format!("{}:{}", k, t)
}

// -------------------------------------------------------------------------------------------
// values with repeated components
// -------------------------------------------------------------------------------------------
/// Every container of the format (each set bracket pair, each connecter, each copula) with REPEATED components:
/// equal neighbours, equal components that are not neighbours, all components equal, both operands of a statement
/// equal; the repeated component an atom, a compound, a set, a statement; nested (the repeated component itself
/// contains repetitions); as bare terms, sentences and tasks (there with repeated truth / budget entries).
/// The lexical model does not interpret any of this: format-then-parse must return the value as it is.
pub fn repeat_corners(fm: &Fm, v: &Vocab, dom: &Dom) -> Vec<LNarsese> {
    let pick_name = |cands: &[&str]| -> String { cands.iter().find(|n| dom.name_ok(n)).map(|n| n.to_string()).unwrap_or_else(|| "n".to_string()) };
    let (na, nb) = if fm.idx == 2 { (pick_name(&["甲", "a"]), pick_name(&["乙", "b"])) } else { (pick_name(&["a", "x"]), pick_name(&["b", "y"])) };
    let a = mk_atom("", na);
    let b = mk_atom("", nb);
    let (sl, sr) = v.set_brackets[0].clone();
    let elems: Vec<LTerm> = vec![
        a.clone(),
        mk_atom(v.prefixes.iter().find(|p| !p.is_empty()).cloned().unwrap_or_default(), "n1"),
        mk_compound(v.connecters[0].clone(), vec![a.clone()]),
        mk_set(sl.clone(), vec![a.clone()], sr.clone()),
        mk_statement(v.copulas[0].clone(), a.clone(), b.clone()),
    ];
    let patterns = |x: &LTerm, y: &LTerm| -> Vec<Vec<LTerm>> {
        let (x, y) = (x.clone(), y.clone());
        vec![
            vec![x.clone(), x.clone()],
            vec![x.clone(), x.clone(), y.clone()],
            vec![y.clone(), x.clone(), x.clone()],
            vec![x.clone(), y.clone(), x.clone()],
            vec![x.clone(), x.clone(), x.clone()],
            vec![x.clone(), y.clone(), x.clone(), y.clone()],
            vec![x.clone(), x.clone(), y.clone(), y.clone()],
        ]
    };
    let mut terms: Vec<LTerm> = vec![];
    for (ei, x) in elems.iter().enumerate() {
        for (l, r) in v.set_brackets.iter() {
            for p in patterns(x, &b) {
                terms.push(mk_set(l.clone(), p, r.clone()));
            }
        }
        for (ci, c) in v.connecters.iter().enumerate() {
            // every connecter with the repeated atom; two connecters with the other repeated components
            if ei == 0 || ci < 2 {
                for p in patterns(x, &b) {
                    terms.push(mk_compound(c.clone(), p));
                }
            }
        }
        for c in v.copulas.iter() {
            terms.push(mk_statement(c.clone(), x.clone(), x.clone()));
        }
    }
    // nested: the repeated component contains repetitions itself; statements between equal containers
    let inner_set = mk_set(sl.clone(), vec![a.clone(), a.clone()], sr.clone());
    let inner_cmp = mk_compound(v.connecters[0].clone(), vec![a.clone(), a.clone(), b.clone()]);
    for inner in [inner_set.clone(), inner_cmp.clone()] {
        for (l, r) in v.set_brackets.iter() {
            terms.push(mk_set(l.clone(), vec![inner.clone(), inner.clone()], r.clone()));
            terms.push(mk_set(l.clone(), vec![mk_set(l.clone(), vec![inner.clone(), inner.clone()], r.clone()), mk_set(l.clone(), vec![inner.clone(), inner.clone()], r.clone())], r.clone()));
        }
        terms.push(mk_compound(v.connecters[1 % v.connecters.len()].clone(), vec![inner.clone(), b.clone(), inner.clone(), inner.clone()]));
        terms.push(mk_statement(v.copulas[0].clone(), inner.clone(), inner.clone()));
        terms.push(mk_statement(v.copulas[0].clone(), mk_statement(v.copulas[0].clone(), inner.clone(), inner.clone()), mk_statement(v.copulas[0].clone(), inner.clone(), inner.clone())));
    }
    let mut out: Vec<LNarsese> = vec![];
    let np = v.punctuations.len();
    for (i, t) in terms.into_iter().enumerate() {
        match i % 5 {
            3 => out.push(LNarsese::Sentence(mk_sentence(t, v.punctuations[i % np].clone(), "", vec!["0.5".to_string(), "0.5".to_string()]))),
            4 => out.push(LNarsese::Task(LTask {
                budget: vec!["0.5".to_string(), "0.5".to_string(), "0.5".to_string()],
                sentence: mk_sentence(t, v.punctuations[i % np].clone(), "", vec!["1".to_string(), "1".to_string()]),
            })),
            _ => out.push(LNarsese::Term(t)),
        }
    }
    out
}

// -------------------------------------------------------------------------------------------
// whitespace
// -------------------------------------------------------------------------------------------
/// The 25 code points with the Unicode White_Space property (= char::is_whitespace, compared with std and with the model's
/// table on every run by `LWhitespaceC`); the first six are the ASCII ones.
pub const WHITE_SPACE: [char; 25] = [
    '\u{9}', '\u{a}', '\u{b}', '\u{c}', '\u{d}', '\u{20}', '\u{85}', '\u{a0}', '\u{1680}', '\u{2000}', '\u{2001}', '\u{2002}', '\u{2003}', '\u{2004}', '\u{2005}', '\u{2006}',
    '\u{2007}', '\u{2008}', '\u{2009}', '\u{200a}', '\u{2028}', '\u{2029}', '\u{202f}', '\u{205f}', '\u{3000}',
];
const N_ASCII_WS: usize = 6;

/// The whitespace characters tried on the i-th text of a class.  A text that is otherwise pure ASCII stays pure ASCII only
/// with one of the six ASCII whitespace characters: it gets ALL of them, plus `extra` of the 19 others in rotation; a text
/// with a non-ASCII character gets `extra + 2` of all 25 in rotation.  (Over 25 texts per class every character occurs.)
pub fn ws_choice(ascii_text: bool, i: usize, extra: usize) -> Vec<char> {
    if ascii_text {
        let mut v: Vec<char> = WHITE_SPACE[..N_ASCII_WS].to_vec();
        let rest = WHITE_SPACE.len() - N_ASCII_WS;
        v.extend((0..extra).map(|j| WHITE_SPACE[N_ASCII_WS + (i * extra + j) % rest]));
        v
    } else {
        let k = extra + 2;
        (0..k).map(|j| WHITE_SPACE[(i * k + j) % WHITE_SPACE.len()]).collect()
    }
}

pub const RESEPARATE_MODES: [&str; 4] = ["in place of every blank", "twice in place of every blank", "before and after the text", "after every blank, and at the end"];
/// formatter output with its blanks rewritten
pub fn reseparate(s: &str, c: char, mode: usize) -> String {
    let mut w = String::new();
    if mode == 2 {
        w.push(c);
    }
    for x in s.chars() {
        match (x, mode) {
            (' ', 0) => w.push(c),
            (' ', 1) => {
                w.push(c);
                w.push(c)
            }
            (' ', 3) => {
                w.push(' ');
                w.push(c)
            }
            _ => w.push(x),
        }
    }
    if mode >= 2 {
        w.push(c);
    }
    w
}

// -------------------------------------------------------------------------------------------
// C02: lexical format then parse
// -------------------------------------------------------------------------------------------
pub fn run_c02(o: &Opts) -> Report {
    let mut rep = Report::new(
        "C02",
        "lexical values over the real dictionaries of each format (1-5 components, nesting, all connecters / set brackets / copulas / prefixes / punctuations, all stamp forms, 0-5 truth and budget entries, names from per-format adversarial alphabets) x 3 formats: \
         real format_narsese vs model byte for byte; real parse of that text vs model parse; on the real code: parse(format(x)) == x field for field for every x of the property's domain (vocab_ok restated independently; known class K5 by a decidable predicate); \
         a second stream of values OUTSIDE the domain (foreign keywords, zero components, empty names, garbage numbers / stamps / punctuation, names with keywords) is compared model vs implementation only; \
         plus the real iteration order of every dictionary (prefix_terms / suffix_terms) and std's char::is_whitespace vs the model; distinct = distinct (format, value); non-trivial = not a bare atom",
    );
    let mut rng = Rng::new(o.seed ^ 0xC02);
    let mut cx = Ctx { rep: &mut rep, cases: vec![] };
    cx.table_cases();
    let per = (o.n / 3).max(20);
    for fm in formats() {
        let v = vocab(fm.l);
        let kw = keywords(fm.l, &v);
        let dom = Dom { l: fm.l, v: &v, kw: &kw };
        let depth = if o.thorough { 5 } else { 4 };
        let strict = LexGen { fm: &fm, v: &v, kw: &kw, max_depth: depth, strict_names: true, wild: false, style_override: None };
        let wild = LexGen { fm: &fm, v: &v, kw: &kw, max_depth: depth, strict_names: false, wild: true, style_override: None };
        let mut values: Vec<(LNarsese, bool)> = vec![];
        for k in 0..12 {
            values.push((strict.narsese(&mut rng, k % 3, Some(k % 4)), true));
        }
        for i in 0..per {
            values.push((strict.narsese(&mut rng, i % 3, None), true));
        }
        for i in 0..(per / 3).max(8) {
            values.push((wild.narsese(&mut rng, i % 3, None), false));
        }
        // names from the other alphabets (non-ASCII names in the ASCII format, ASCII-only names in LaTeX / Han): whether a text
        // is pure ASCII or not must not matter anywhere
        {
            let other = LexGen { fm: &fm, v: &v, kw: &kw, max_depth: 3, strict_names: true, wild: false, style_override: Some(if fm.idx == 0 { NameStyle::Mixed } else { NameStyle::Ascii }) };
            for i in 0..(per / 3).max(12) {
                values.push((other.narsese(&mut rng, i % 3, if i < 12 { Some(1 + i % 3) } else { None }), true));
            }
        }
        // corners of the item layer, for every format: an atom that begins like a budget (prefix = budget bracket,
        // numeric name), every stamp form with empty content, empty budget, bare atoms ending in stamp / truth
        // content characters, every punctuation with every prefix, single-entry and five-entry truths
        {
            let num = |s: &str| mk_atom("", s);
            let bl = fm.l.task.budget_brackets.0.clone();
            for p in v.prefixes.iter() {
                for name in ["1", "0", "12", "a", "x1", "a1"] {
                    if !dom.name_ok(name) {
                        continue;
                    }
                    let a = mk_atom(p.clone(), name);
                    values.push((LNarsese::Term(a.clone()), true));
                    for q in v.punctuations.iter() {
                        values.push((LNarsese::Sentence(mk_sentence(a.clone(), q.clone(), "", vec![])), true));
                        values.push((LNarsese::Sentence(mk_sentence(a.clone(), q.clone(), "", vec!["1".to_string()])), true));
                    }
                }
                if *p == bl {
                    cx.rep.hist.add(format!("{}:corner:prefix-equals-budget-bracket", fm.name));
                }
            }
            for (a, b) in v.stamp_brackets.iter() {
                for content in ["", "1", "-1", "+0"] {
                    if a.is_empty() && !content.is_empty() {
                        continue;
                    }
                    let st = format!("{}{}{}", a, content, b);
                    for tv in [vec![], vec!["0.5".to_string()], vec!["1".to_string(), "0.9".to_string(), ".".to_string(), "7".to_string(), "0".to_string()]] {
                        values.push((LNarsese::Sentence(mk_sentence(num("a"), v.punctuations[0].clone(), st.clone(), tv.clone())), true));
                        values.push((LNarsese::Task(LTask { budget: vec![], sentence: mk_sentence(num("12"), v.punctuations[1].clone(), st.clone(), tv.clone()) }), true));
                        values.push((LNarsese::Task(LTask { budget: vec!["0.1".to_string()], sentence: mk_sentence(mk_set(v.set_brackets[0].0.clone(), vec![num("a")], v.set_brackets[0].1.clone()), v.punctuations[2].clone(), st.clone(), tv) }), true));
                    }
                }
            }
        }
        // the K5 witness of DESIGN.md and its harmless neighbours
        if fm.idx == 2 {
            values.push((LNarsese::Term(mk_statement("得", mk_atom("", "x将"), mk_atom("", "y"))), true));
            values.push((LNarsese::Term(mk_statement("有", mk_atom("", "x具"), mk_atom("", "y"))), true));
            values.push((LNarsese::Term(mk_statement("是", mk_atom("", "x将"), mk_atom("", "y"))), true));
        }
        // one wide value: > 128 non-atomic components in one compound / set (depth counters, recursion guards)
        {
            let atom = |i: usize| mk_atom("", if fm.idx == 2 { format!("甲{}", i) } else { format!("w{}", i) });
            let items: Vec<LTerm> = (0..140).map(|i| if i % 2 == 0 { mk_set(v.set_brackets[0].0.clone(), vec![atom(i)], v.set_brackets[0].1.clone()) } else { mk_statement(v.copulas[0].clone(), atom(i), atom(0)) }).collect();
            values.push((LNarsese::Term(mk_compound(v.connecters[0].clone(), items.clone())), true));
            values.push((LNarsese::Term(mk_set(v.set_brackets[0].0.clone(), items, v.set_brackets[0].1.clone())), true));
        }
        // repeated components, systematically (see `repeat_corners`)
        for x in repeat_corners(&fm, &v, &dom) {
            values.push((x, true));
        }
        // texts for the separator stream below: (value, formatter output), all-ASCII texts and texts with a non-ASCII character apart
        let cap = if o.thorough { 100 } else { 25 };
        let mut resp: [Vec<(LNarsese, String)>; 2] = [vec![], vec![]];
        for (x, intended) in values {
            let Some(s) = cx.fmt_case(&fm, &x) else {
                cx.fail("values", "formatting a lexical value panicked", format!("[{}] {:?}", fm.name, x), "a string".into(), "PANIC".into(), None);
                continue;
            };
            let in_dom = dom.vocab_ok(&x);
            cx.push(format!("LVocabC {} {} {}", fm.idx, clnarsese(&x), cbool(in_dom)), format!("vocab_ok[{}] {:?}", fm.name, x));
            if intended && !in_dom {
                cx.rep.hist.add(format!("{}:generator-left-domain", fm.name));
            }
            cx.rep.hist.add(format!("{}:{}:{}", fm.name, if in_dom { "domain" } else { "outside" }, shape(&x)));
            if !matches!(term_of(&x), LTerm::Atom { .. }) || !matches!(x, LNarsese::Term(_)) {
                cx.rep.note_distinct(&format!("{}|{:?}", fm.idx, x));
            }
            cx.rep.sample(format!("[{}] {}", fm.name, s));
            let r = cx.parse_case(&fm, &s);
            cx.rep.hist.add(format!("{}:parse-of-formatted:{}", fm.name, pr_tag(&r)));
            if r.is_err() {
                cx.fail("values", "lexical parser panicked on formatter output", format!("[{}] {:?}", fm.name, s), "Ok or Err".into(), "PANIC".into(), None);
                continue;
            }
            if in_dom {
                let known = if dom.k5(term_of(&x)) { Some("K5") } else { None };
                // the known class is the failure of the theorems' hypothesis unamb_top (decided by the model)
                cx.push(format!("LUnambC {} {} {}", fm.idx, clnarsese(&x), cbool(known.is_some())), format!("K5 = not unamb_top[{}] {:?}", fm.name, x));
                let good = matches!(&r, Ok(Some(w)) if *w == x);
                if !good {
                    cx.fail(
                        "values",
                        "parse(format(x)) differs from x",
                        format!("[{}] {:?} = format of {:?}", fm.name, s, x),
                        format!("{:?}", x),
                        match &r {
                            Ok(Some(w)) => format!("{:?}", w),
                            Ok(None) => "Err".into(),
                            Err(()) => "PANIC".into(),
                        },
                        known,
                    );
                } else if let Some(k) = known {
                    cx.rep.hist.add(format!("known-class-but-round-trips:{}", k));
                }
                let mut rp = [false; 3];
                repeats(term_of(&x), &mut rp);
                for (k, name) in ["adjacent", "non-adjacent", "statement-with-equal-operands"].iter().enumerate() {
                    if rp[k] {
                        cx.rep.hist.add(format!("{}:repeated-components:{}:{}", fm.name, name, if good { "round-trips" } else { "DIFFERS" }));
                    }
                }
                let class = if s.is_ascii() { 0 } else { 1 };
                if good && known.is_none() && resp[class].len() < cap && s.contains(' ') && s.chars().count() <= 160 {
                    resp[class].push((x.clone(), s.clone()));
                }
            }
        }
        // Separators.  The blanks in the formatter's output are separators the formatter chose; the parser's first step
        // (idealize_env) discards every character of the format's `is_for_parse` class = char::is_whitespace, whatever the
        // rest of the input looks like.  So the same token sequence written with any other White_Space character where the
        // formatter wrote a blank (or with such characters in front, behind, doubled) is, for the parser, the formatter's
        // output.  (This composes C02 with the whitespace clause of C09: model-vs-code correspondence only, see below.)  Every one of the 25
        // White_Space characters is used, on texts that are otherwise pure ASCII and, separately, on texts that contain
        // a non-ASCII character; the model parses every variant as well.
        for class in 0..2 {
            for (i, (x, s)) in resp[class].iter().enumerate() {
                for (j, c) in ws_choice(class == 0, i, 2).into_iter().enumerate() {
                    let mode = (i + j) % 4;
                    let w = reseparate(s, c, mode);
                    let r = cx.parse_case(&fm, &w);
                    cx.rep.hist.add(format!("{}:separators:{}:mode{}:{}", fm.name, if class == 0 { "ascii-text" } else { "non-ascii-text" }, mode, pr_tag(&r)));
                    cx.rep.hist.add(format!("separators:U+{:04X}:{}", c as u32, if class == 0 { "ascii-text" } else { "non-ascii-text" }));
                    // C02 quantifies over parse(format(x)) and the formatter never writes these characters: a difference here
                    // is a matter of C09 (whose own stream evaluates it on the real code), not a failure of C02.  For C02 the
                    // variant is a correspondence case only (cx.parse_case above): if the model no longer mirrors the
                    // parser on it, C02 is no longer SHOWN to hold and says so without claiming a failing input.
                    if !matches!(&r, Ok(Some(w2)) if w2 == x) {
                        cx.rep.hist.add("separators:differs-from-x (C09's business; correspondence case only)");
                    }
                }
            }
        }
    }
    // placeholders: a prefix with an EMPTY name is what the enum formatter prints for `_`; it is outside the theorem's
    // domain (names non-empty) but part of every format's vocabulary, and the library round-trips it: checked on the real code,
    // directly before every copula / separator / bracket
    for fm in formats() {
        let v = vocab(fm.l);
        let ph = fm.e.atom.prefix_placeholder.to_string();
        let a = mk_atom("", if fm.idx == 2 { "甲" } else { "A" });
        let hole = mk_atom(ph.clone(), "");
        let mut xs: Vec<LTerm> = vec![];
        for c in &v.copulas {
            xs.push(mk_statement(c.clone(), hole.clone(), a.clone()));
            xs.push(mk_statement(c.clone(), a.clone(), hole.clone()));
            xs.push(mk_statement(c.clone(), mk_statement(c.clone(), hole.clone(), a.clone()), a.clone()));
        }
        for c in &v.connecters {
            xs.push(mk_compound(c.clone(), vec![a.clone(), hole.clone(), a.clone()]));
            xs.push(mk_compound(c.clone(), vec![hole.clone()]));
        }
        for (l, r) in &v.set_brackets {
            xs.push(mk_set(l.clone(), vec![hole.clone(), a.clone()], r.clone()));
        }
        for t in xs {
            for x in [LNarsese::Term(t.clone()), LNarsese::Sentence(LSentence { term: t.clone(), punctuation: v.punctuations[0].clone(), stamp: String::new(), truth: vec![] })] {
                let Some(s) = cx.fmt_case(&fm, &x) else { continue };
                let r = cx.parse_case(&fm, &s);
                cx.rep.hist.add(format!("{}:placeholder:{}", fm.name, pr_tag(&r)));
                if !matches!(&r, Ok(Some(w)) if *w == x) {
                    cx.fail("placeholders", "parse(format(x)) differs from x (prefix-only atom)", format!("[{}] {:?}", fm.name, s), format!("{:?}", x), format!("{:?}", r.as_ref().ok()), None);
                }
            }
        }
    }
    // State kept across calls (see `lex_state_search`): the property has no "on a fresh thread, with the shared static"
    // proviso, so parse_F(format_F(x)) must be x whatever the thread parsed before and wherever the format value
    // lives.  A finding is a failure of C02 when the text IS format_F(x) for an x of the domain: decided on the cold
    // result w (vocab_ok(w), not K5, format_F(w) = text, so x = w).  Other findings (texts outside the domain,
    // parse_term, fold) are C08's business and only counted here.
    {
        let mut srng = Rng::new(o.seed ^ 0xC02_57A7E);
        let (texts, always, warm) = state_corpus(&mut srng, if o.thorough { 120 } else { 40 });
        let res = lex_state_search(&texts, always, if o.thorough { 200 } else { 60 }, &warm, &[0, 1, 2], &mut srng);
        cx.rep.evaluations += res.observations as u64;
        cx.rep.hist.0.insert("state:texts".into(), texts.len() as u64);
        cx.rep.hist.0.insert("state:histories".into(), res.histories as u64);
        cx.rep.hist.0.insert("state:observations".into(), res.observations as u64);
        let fms = formats();
        for f in res.findings {
            let fm = &fms[f.j];
            let v = vocab(fm.l);
            let kw = keywords(fm.l, &v);
            let dom = Dom { l: fm.l, v: &v, kw: &kw };
            let in_dom = match &f.cold.parse {
                Ok(Some(w)) => dom.vocab_ok(w) && !dom.k5(term_of(w)) && guard(|| fm.l.format_narsese(w)).as_deref() == Some(f.text.as_str()),
                _ => false,
            };
            if in_dom && f.got.parse != f.cold.parse {
                cx.fail(
                    "state",
                    "parse(format(x)) differs from x after an earlier parse on the same thread / with an owned format from create_format_*",
                    format!("[{}] {:?} = format of {:?} -- history: {}", fm.name, f.text, f.cold.parse.as_ref().ok().and_then(|x| x.as_ref()), f.history),
                    format!("{:?}", f.cold.parse),
                    format!("{:?}", f.got.parse),
                    None,
                );
            } else {
                cx.rep.hist.add("state:dependence-outside-the-domain (C08's business)");
            }
        }
    }
    let cases = std::mem::take(&mut cx.cases);
    finish(o, "C02", rep, cases)
}

// -------------------------------------------------------------------------------------------
// C05: totality of the lexical parser (parse and parse_term) on malformed input
// -------------------------------------------------------------------------------------------
const UNICODE_WS: &[char] = &['\t', '\n', '\u{b}', '\u{c}', '\r', ' ', '\u{85}', '\u{a0}', '\u{1680}', '\u{2000}', '\u{2003}', '\u{200a}', '\u{2028}', '\u{2029}', '\u{202f}', '\u{205f}', '\u{3000}', '\u{200b}', '\u{feff}'];

fn lex_keyword_pool(fm: &Fm, v: &Vocab, kw: &[String]) -> Vec<String> {
    let mut pool = keyword_pool(fm.e);
    pool.extend(kw.iter().cloned());
    for (a, b) in &v.stamp_brackets {
        pool.push(format!("{}-1{}", a, b));
    }
    pool.extend(["0", "1", ".", "+", "-", "a", "_", "9"].iter().map(|s| s.to_string()));
    pool
}

fn lex_stress(fm: &Fm, v: &Vocab, rng: &mut Rng, depth: usize) -> Vec<String> {
    let l = fm.l;
    let mut out = stress_inputs(fm.e, rng, depth);
    // the inputs of finding F2 (fixed) and their relatives: truncated multi-character brackets
    let conn = |i: usize| v.connecters[i % v.connecters.len()].clone();
    let mut openers: Vec<String> = vec![
        format!("{}{}{}", l.compound.brackets.0, conn(0), l.compound.separator),
        format!("{}{}", l.compound.brackets.0, conn(3)),
        l.statement.brackets.0.clone(),
        l.compound.brackets.0.clone(),
    ];
    for (a, _) in &v.set_brackets {
        openers.push(a.clone());
    }
    let closers: Vec<String> = {
        let mut c = vec![l.compound.brackets.1.clone(), l.statement.brackets.1.clone()];
        for (_, b) in &v.set_brackets {
            c.push(b.clone());
        }
        c
    };
    for d in [1usize, 2, 3, 5, 8, 16, 32, depth] {
        let mut s = String::new();
        for _ in 0..d {
            s.push_str(rng.pick::<String>(&openers).as_str());
        }
        s.push('a');
        out.push(s.clone());
        for k in 0..d.min(6) {
            // closers, each possibly truncated by one or more characters
            let c: Vec<char> = rng.pick::<String>(&closers).chars().collect();
            let cut = if k == d.min(6) - 1 { rng.below(c.len() + 1) } else { c.len() };
            s.extend(c[..cut].iter());
            out.push(s.clone());
        }
    }
    // statement skeletons with every copula, cut anywhere
    for c in &v.copulas {
        let s = format!("{}a{}b{}", l.statement.brackets.0, c, l.statement.brackets.1);
        let cs: Vec<char> = s.chars().collect();
        out.push(s.clone());
        out.push(cs[..rng.below(cs.len() + 1)].iter().collect());
    }
    // item fragments: budget / truth / stamp / punctuation alone and in wrong places
    let (bl, br) = (&l.task.budget_brackets.0, &l.task.budget_brackets.1);
    let (tl, tr) = (&l.sentence.truth_brackets.0, &l.sentence.truth_brackets.1);
    for body in ["", "0.5", "0.5;0.5", "1,2", "0.5、0.5", "x"] {
        out.push(format!("{}{}{}", bl, body, br));
        out.push(format!("{}{}", bl, body));
        out.push(format!("{}{}{}", tl, body, tr));
        out.push(format!("{}{}", body, tr));
        out.push(format!("{}{}{}{}{}{}", bl, body, br, tl, body, tr));
        out.push(format!("{}{}{}a", tl, body, tr));
        out.push(format!("{}{}{}a{}", bl, body, br, v.punctuations[0]));
        out.push(format!("{}{}{}{}", bl, body, br, v.punctuations[0]));
    }
    for (a, b) in &v.stamp_brackets {
        for body in ["", "1", "-1", "+", "x"] {
            out.push(format!("{}{}{}", a, body, b));
            out.push(format!("a{}{}{}{}", v.punctuations[0], a, body, b));
            out.push(format!("a{}{}{}", a, body, b));
        }
    }
    for p in &v.punctuations {
        out.push(p.clone());
        out.push(format!("a{}{}", p, p));
    }
    // budget bracket overlapping the suffix items
    out.push(format!("{}{}", bl, tr));
    out.push(format!("{}{}{}", bl, br, br));
    out.push(format!("{}", bl));
    // long inputs
    out.push("a".repeat(512));
    out.push(format!("{}{}", l.statement.brackets.0, "a".repeat(300)));
    let unit = format!("{}{}{}a{}", l.compound.brackets.0, conn(4), l.compound.separator, l.compound.brackets.1);
    let mut long = String::new();
    while long.chars().count() + unit.chars().count() < 500 {
        long.push_str(&unit);
    }
    out.push(long);
    // balanced deep nesting (depth), sets inside statements inside compounds
    let mut s = String::new();
    let mut close: Vec<String> = vec![];
    for d in 0..depth {
        match d % 3 {
            0 => {
                s.push_str(&format!("{}{}{}", l.compound.brackets.0, conn(d), l.compound.separator));
                close.push(l.compound.brackets.1.clone());
            }
            1 => {
                let (a, b) = &v.set_brackets[d % v.set_brackets.len()];
                s.push_str(a);
                close.push(b.clone());
            }
            _ => {
                s.push_str(&l.statement.brackets.0);
                close.push(format!("{}b{}", v.copulas[d % v.copulas.len()], l.statement.brackets.1));
            }
        }
    }
    s.push('a');
    for c in close.iter().rev() {
        s.push_str(c);
    }
    out.push(s);
    out
}

/// the malformed stream of one format
fn malformed_lex(rng: &mut Rng, fm: &Fm, v: &Vocab, kw: &[String], n: usize, thorough: bool) -> Vec<String> {
    let pool = lex_keyword_pool(fm, v, kw);
    let mut out = lex_stress(fm, v, rng, 64);
    let depth = if thorough { 5 } else { 4 };
    let strict = LexGen { fm, v, kw, max_depth: depth, strict_names: true, wild: false, style_override: None };
    let wild = LexGen { fm, v, kw, max_depth: depth, strict_names: false, wild: true, style_override: None };
    let eg = term_gen_for(fm, depth, 4);
    let mut texts: Vec<String> = vec![];
    for i in 0..(n / 4 + 6) {
        let x = if i % 4 == 3 { wild.narsese(rng, i % 3, None) } else { strict.narsese(rng, i % 3, None) };
        texts.push(fm.l.format_narsese(&x));
        // realistic texts of the enum formatter with the same-named format
        let ev = gen_narsese(rng, &eg, i % 3, None);
        if let Some(s) = guard(|| fm.e.format_narsese(&ev)) {
            texts.push(s);
        }
    }
    for s in &texts {
        let chars: Vec<char> = s.chars().collect();
        if chars.len() <= [26usize, 90, 26][fm.idx] {
            for k in 0..chars.len() {
                out.push(chars[..k].iter().collect());
            }
        }
        let mut m = s.clone();
        for _ in 0..rng.range(1, 3) {
            m = mutate(&m, rng, &pool);
        }
        out.push(m);
        out.push(mutate(s, rng, &pool));
        if rng.chance(1, 2) {
            // Unicode whitespace sprinkled over a valid text
            let mut w = String::new();
            for c in s.chars() {
                if rng.chance(1, 5) {
                    w.push(*rng.pick::<char>(UNICODE_WS));
                }
                w.push(c);
            }
            out.push(w);
        }
    }
    out
}

/// parser half of C05 (a fold stream can be appended by `run_c05`)
fn c05_parser_stream(o: &Opts, cx: &mut Ctx, rng: &mut Rng) {
    // corpus: the inputs of the fixed finding F2 run first
    let corpus: Vec<(usize, &str)> = vec![
        (1, "\\left(\\times{}\\; \\left(\\times{}\\; a\\right"),
        (1, "\\left<\\left(\\times{}\\; a\\right"),
        (1, "\\left<a\\rightarrow{}b\\righ"),
        (1, "\\left\\{a\\right"),
        (0, "<(*,(*,(*,(*,(*,a"),
        (2, "「（积，（积，（积，a"),
        (0, "$"),
        (0, "?"),
        (0, ""),
    ];
    for (fi, s) in corpus {
        let fm = &formats()[fi];
        let r = cx.parse_case(fm, s);
        let t = cx.parse_term_case(fm, s);
        if r.is_err() || t.is_err() {
            cx.fail("corpus", "lexical parser panicked", format!("[{}] {:?}", fm.name, s), "Ok or Err".into(), "PANIC".into(), None);
        }
    }
    // a custom (non-shipped) format violating the table obligation of the totality theorem (budget brackets :=
    // truth brackets): the model predicts `&env[3..0]` for "%1%" (Props/C05.v C05_table_obligation_needed)
    {
        let mut f = formats()[0].l.clone();
        f.task.budget_brackets = f.sentence.truth_brackets.clone();
        let r = guard(|| f.parse("%1%").is_ok());
        cx.rep.hist.add(format!(
            "custom-format(ascii, budget brackets := truth brackets) \"%1%\": {}",
            match r {
                None => "panic (as the model predicts)",
                Some(_) => "no panic (THE MODEL PREDICTS A PANIC)",
            }
        ));
    }
    // empty truth / budget brackets written out, in every position (no formatter prints them)
    for fm in formats() {
        let v = vocab(fm.l);
        for (s, _, how) in empty_bracket_texts(&fm, &v) {
            let r = cx.parse_case(&fm, &s);
            cx.rep.hist.add(format!("{}:empty-brackets:{}", fm.name, pr_tag(&r)));
            if r.is_err() {
                cx.fail("empty-brackets", "lexical parser panicked", format!("[{}] {:?} ({})", fm.name, s, how), "Ok or Err".into(), "PANIC".into(), None);
            }
        }
    }
    for fm in formats() {
        let v = vocab(fm.l);
        let kw = keywords(fm.l, &v);
        let inputs = malformed_lex(rng, &fm, &v, &kw, o.n / 3, o.thorough);
        let cap = if o.thorough { usize::MAX } else { 600 };
        for (i, s) in inputs.iter().enumerate() {
            let len = s.chars().count();
            let long = len > cap && i % 7 != 0;
            cx.rep.hist.add(format!("{}:len:{}", fm.name, match len { 0 => "0", 1..=8 => "1-8", 9..=32 => "9-32", 33..=128 => "33-128", _ => ">128" }));
            // the model is evaluated on the shorter inputs (and a seventh of the long ones) in the quick tier; the real code on all
            let r = if long { cx.rep.evaluations += 1; real_lex_parse(fm.l, s) } else { cx.parse_case(&fm, s) };
            cx.rep.hist.add(format!("{}:parse:{}", fm.name, pr_tag(&r)));
            if r.is_err() {
                cx.fail("malformed", "lexical parser panicked (parse)", format!("[{}] {:?}", fm.name, s), "Ok or Err".into(), "PANIC".into(), None);
            }
            let t = if long || i % 2 == 1 { cx.rep.evaluations += 1; real_lex_parse_term(fm.l, s) } else { cx.parse_term_case(&fm, s) };
            cx.rep.hist.add(format!("{}:parse_term:{}", fm.name, pr_tag(&t)));
            if t.is_err() {
                cx.fail("malformed", "lexical parser panicked (parse_term)", format!("[{}] {:?}", fm.name, s), "Ok or Err".into(), "PANIC".into(), None);
            }
            if i < 6 {
                cx.rep.sample(format!("[{}] {:?} -> {}", fm.name, s, pr_tag(&r)));
            }
        }
    }
}

pub fn run_c05(o: &Opts) -> Report {
    let mut rep = Report::new(
        "C05",
        "parser half: malformed stream (code-point deletion / duplication / transposition, keyword insertion and replacement, span deletion / duplication, truncation at every prefix for short inputs, multi-character brackets truncated inside, unbalanced and balanced nesting to depth 64, 512-char inputs, Unicode whitespace, item fragments in wrong places) \
         over lexical-formatter and enum-formatter texts x 3 formats x entry points parse / parse_term: real outcome (Ok value | Err | panic) vs model outcome; on the real code: no panic, error Display works; \
         plus dictionary iteration orders and char::is_whitespace vs the model; distinct = distinct (format, entry, input); non-trivial = non-empty input",
    );
    let mut rng = Rng::new(o.seed ^ 0xC05);
    let mut cx = Ctx { rep: &mut rep, cases: vec![] };
    cx.table_cases();
    c05_parser_stream(o, &mut cx, &mut rng);
    // "in bounded time": failing deeply nested inputs under a time budget (see `c05_deep_failing_stream`)
    let mut drng = Rng::new(o.seed ^ 0xC05_DEE9);
    c05_deep_failing_stream(o, &mut cx, &mut drng);
    let cases = std::mem::take(&mut cx.cases);
    finish(o, "C05", rep, cases)
}

// -------------------------------------------------------------------------------------------
// C09, lexical half: every White_Space character, in texts that are pure ASCII and in texts that are not
// -------------------------------------------------------------------------------------------
pub const WS_MODES: [&str; 7] = [
    "at every token boundary, no other blank",
    "twice at every token boundary",
    "before and after the dense text",
    "canonical spacing, once or twice at some token boundaries",
    "in place of every blank of the canonical text",
    "after the canonical text",
    "before the canonical text",
];

/// a token sequence written with the whitespace character `c`
pub fn ws_variant(toks: &crate::enumgen::Toks, c: char, mode: usize, rng: &mut Rng) -> String {
    let n = toks.toks.len();
    let mut w = String::new();
    if mode == 2 || mode == 6 {
        w.push(c);
    }
    // mode 3: at least one boundary gets the character
    let forced = if n > 1 { rng.below(n - 1) } else { 0 };
    for (i, t) in toks.toks.iter().enumerate() {
        w.push_str(t);
        if i + 1 == n {
            break;
        }
        match mode {
            0 => w.push(c),
            1 => {
                w.push(c);
                w.push(c)
            }
            2 => {}
            3 => {
                w.push_str(&toks.gaps[i]);
                if i == forced || rng.chance(1, 3) {
                    for _ in 0..rng.range(1, 2) {
                        w.push(c);
                    }
                }
            }
            4 => w.extend(toks.gaps[i].chars().map(|g| if g == ' ' { c } else { g })),
            _ => w.push_str(&toks.gaps[i]),
        }
    }
    if mode == 2 || mode == 5 {
        w.push(c);
    }
    w
}

/// Lexical half of C09 ("the lexical parser additionally ignores every Unicode whitespace character", for the lexical parser
/// and for lexical-parse-then-fold, all three formats).  The enum-side stream of `enumprops::run_c09` re-spaces with blanks
/// and a handful of exotic characters mixed into one text; what it cannot see is a parser that treats whitespace differently
/// depending on WHICH character it is or on what ELSE the input contains (a fast path for pure-ASCII input, a byte-level
/// predicate, a table that lacks one code point).  Here every one of the 25 White_Space characters is written, alone,
/// into the token sequence of well-formed values -- at every token boundary, doubled, leading, trailing, next to the
/// canonical blanks, in their place -- for texts that are otherwise pure ASCII (all six ASCII whitespace characters each,
/// so that the text stays pure ASCII) and for texts with non-ASCII names or keywords.
/// On the real code: the lexical parse of every variant equals the lexical parse of the dense text (no whitespace at all),
/// and so does parse-then-fold.  Model: every variant is parsed by the lexical parser model as well (Run/LexRun.v; Props/C09d.v
/// proves the invariance for the MODEL, so a deviating implementation shows up as a correspondence mismatch); these cases
/// form a second set of shards appended to the report.
pub fn c09_lexical_ws(o: &Opts, mut rep: Report) -> Report {
    use crate::enumgen::{c01_known, canon_narsese, gen_narsese, narsese_tokens, term_gen_for, Sugar};
    use crate::enumprops::{real_lexfold, risky_names};
    use narsese::api::GetTerm;
    use narsese::enum_narsese::Narsese as ENarsese;
    let canon = |r: &PR<ENarsese>| -> String {
        match r {
            Ok(Some(v)) => canon_narsese(v),
            Ok(None) => "Err".into(),
            Err(()) => "PANIC".into(),
        }
    };
    let show = |r: &PR<LNarsese>| -> String {
        match r {
            Ok(Some(v)) => format!("{:?}", v),
            Ok(None) => "Err".into(),
            Err(()) => "PANIC".into(),
        }
    };
    let mut rng = Rng::new(o.seed ^ 0xC09_1E);
    let offset = rep.case_descr.len();
    let mut cases: Vec<String> = vec!["LWhitespaceC".into()];
    rep.case_descr.push("char::is_whitespace = the model's 25 code points".into());
    // std's own table against the list used here
    {
        let std_ws: Vec<char> = (0..=0x10FFFFu32).filter_map(char::from_u32).filter(|c| c.is_whitespace()).collect();
        if std_ws != WHITE_SPACE.to_vec() {
            rep.hist.add("lexical-whitespace:WHITE_SPACE list differs from char::is_whitespace (harness out of date)");
        }
    }
    let per = (o.n / 15).clamp(20, 150);
    for fm in formats() {
        // [0] texts that are pure ASCII, [1] texts that are not
        let mut count = [0usize; 2];
        let mut tries = 0;
        while ((count[0] < per && fm.idx != 2) || count[1] < per) && tries < per * 40 {
            tries += 1;
            // names: the format's own alphabet and the opposite one (non-ASCII names in the ASCII format, ASCII names in LaTeX / Han)
            let mut g = term_gen_for(&fm, 3, 3);
            let want_ascii = fm.idx != 2 && count[0] <= count[1];
            g.style = if want_ascii {
                NameStyle::Ascii
            } else if fm.idx == 2 {
                if tries % 2 == 0 {
                    NameStyle::Han
                } else {
                    NameStyle::Ascii
                }
            } else {
                NameStyle::Mixed
            };
            let v = gen_narsese(&mut rng, &g, tries % 3, if tries % 4 == 0 { None } else { Some(7 + tries % 23) });
            let text = fm.e.format_narsese(&v);
            if c01_known(fm.e, &v, &text).is_some() || risky_names(fm.e, v.get_term()) {
                rep.hist.add(format!("{}:lexical-whitespace:skipped-known-class-or-risky-name", fm.name));
                continue;
            }
            let toks = narsese_tokens(fm.e, &v, Sugar::None, &mut rng);
            if toks.canonical() != text || toks.toks.len() < 2 || text.chars().count() > 140 {
                continue;
            }
            let class = if text.is_ascii() { 0 } else { 1 };
            if count[class] >= per {
                continue;
            }
            let i = count[class];
            count[class] += 1;
            let dense = toks.join(0, &mut rng, "");
            let base = real_lex_parse(fm.l, &dense);
            let base_fold = real_lexfold(&fm, &dense);
            rep.evaluations += 2;
            cases.push(format!("LParseC {} {} {}", fm.idx, cstr(&dense), clres(&base, clnarsese)));
            rep.case_descr.push(format!("lexical parse[{}] {:?}", fm.name, dense));
            rep.hist.add(format!(
                "{}:lexical-whitespace:dense:{}:fold {}",
                fm.name,
                pr_tag(&base),
                if canon(&base_fold) == canon_narsese(&v) { "= the value" } else { "differs from the value (K3-like, not judged here)" }
            ));
            if !matches!(base, Ok(Some(_))) {
                continue;
            }
            let cname = if class == 0 { "ascii-text" } else { "non-ascii-text" };
            let mut variants: Vec<(String, String)> = vec![];
            for (j, c) in ws_choice(class == 0, i, 2).into_iter().enumerate() {
                for mode in [0, 1 + (i + j) % 6] {
                    variants.push((ws_variant(&toks, c, mode, &mut rng), format!("U+{:04X} {}", c as u32, WS_MODES[mode])));
                    rep.hist.add(format!("lexical-whitespace:U+{:04X}:{}", c as u32, cname));
                    rep.hist.add(format!("{}:lexical-whitespace:{}:mode{}", fm.name, cname, mode));
                }
            }
            // all characters mixed: 0-2 random White_Space characters at every token boundary, and around the text
            {
                let mut w = String::new();
                for t in std::iter::once(&String::new()).chain(toks.toks.iter()) {
                    w.push_str(t);
                    for _ in 0..rng.below(3) {
                        w.push(*rng.pick::<char>(&WHITE_SPACE));
                    }
                }
                variants.push((w, "random White_Space characters at every token boundary".into()));
            }
            for (w, how) in variants {
                let r = real_lex_parse(fm.l, &w);
                let f = real_lexfold(&fm, &w);
                rep.evaluations += 2;
                rep.note_distinct(&format!("lw{}|{}", fm.idx, w));
                cases.push(format!("LParseC {} {} {}", fm.idx, cstr(&w), clres(&r, clnarsese)));
                rep.case_descr.push(format!("lexical parse[{}] {:?}", fm.name, w));
                if r != base {
                    rep.fail(Failure {
                        stream: "lexical-whitespace".into(),
                        what: "whitespace between tokens changes the lexical parse".into(),
                        input: format!("[{}] {:?} ({}; without whitespace: {:?})", fm.name, w, how, dense),
                        expected: show(&base),
                        got: show(&r),
                        known: None,
                    });
                }
                if canon(&f) != canon(&base_fold) {
                    rep.fail(Failure {
                        stream: "lexical-whitespace".into(),
                        what: "whitespace between tokens changes the result of lexical parse + fold".into(),
                        input: format!("[{}] {:?} ({}; without whitespace: {:?})", fm.name, w, how, dense),
                        expected: canon(&base_fold),
                        got: canon(&f),
                        known: None,
                    });
                }
            }
        }
        rep.hist.add(format!("{}:lexical-whitespace:values:ascii-text={},non-ascii-text={}", fm.name, count[0], count[1]));
    }
    rep.rule.push_str(
        " || lexical half: each of the 25 White_Space characters alone (at every token boundary / doubled / leading / trailing / beside and in place of the canonical blanks) and all mixed, \
         in the token sequence of well-formed values whose text is pure ASCII (all six ASCII whitespace characters each) and of values whose text is not, x 3 formats: \
         real lexical parse vs lexical parser model on every variant (second shard set, Run/LexRun.v); on the real code: lexical parse and lexical parse + fold of every variant = those of the text without any whitespace",
    );
    let shards = write_shards(&o.outdir, &format!("{}L", rep.prop), "Nv.Run.LexRun", "mismatches_lex", "lcase", "N_scope", &cases, o.shards, "").unwrap();
    rep.shards.extend(shards.into_iter().map(|(p, lo, hi)| (p, lo + offset, hi + offset)));
    rep
}

// -------------------------------------------------------------------------------------------
// State kept by the lexical parser ACROSS calls (thread-locals, caches keyed by the address of the format or
// by the text): used by C02, C08 and C11.
// The reference of every observation is a COLD parse: a fresh thread that does nothing but this one parse with
// the shared static instance.  Histories, each on a fresh thread of its own:
//  (a) order of formats: every ordered pair / triple of formats parses first, then the text under test;
//  (b) OWNED formats from the public `create_format_ascii/latex/han`: a slot overwritten in place, a local of one
//      stack frame dropped and re-created, a Box overwritten in place, a Box dropped and re-allocated, a clone whose
//      original is dropped -- results must equal those of the shared statics;
//  (c) the SAME text parsed back to back under two different formats.
// Observed per text: lexical parse, lexical parse_term, lexical parse + fold.
// -------------------------------------------------------------------------------------------
use narsese::conversion::string::impl_lexical::format_instances::{create_format_ascii, create_format_han, create_format_latex};

#[derive(Clone, PartialEq, Debug)]
pub struct LexOut {
    pub parse: PR<LNarsese>,
    pub term: PR<LTerm>,
    /// lexical parse + fold into the same-named enum format, canonical text
    pub fold: String,
}

fn lex_out(l: &LexFormat, e: &'static crate::enumgen::EFmt, s: &str) -> LexOut {
    use narsese::conversion::inter_type::lexical_fold::TryFoldInto;
    let parse: PR<LNarsese> = guard(|| l.parse(s).ok()).ok_or(());
    let fold = match &parse {
        Ok(Some(v)) => {
            let v = v.clone();
            match guard(move || v.try_fold_into(e).ok()) {
                Some(Some(w)) => format!("Ok({})", crate::enumgen::canon_narsese(&w)),
                Some(None) => "Err".into(),
                None => "PANIC".into(),
            }
        }
        Ok(None) => "Err".into(),
        Err(()) => "PANIC".into(),
    };
    let term: PR<LTerm> = guard(|| l.parse_term(s).ok()).ok_or(());
    LexOut { parse, term, fold }
}

fn create_lex(k: usize) -> LexFormat {
    match k {
        0 => create_format_ascii(),
        1 => create_format_latex(),
        _ => create_format_han(),
    }
}

#[derive(Clone, Copy, Debug, PartialEq)]
pub enum FmtSrc {
    Static,
    SlotInPlace,
    FrameLocal,
    BoxInPlace,
    BoxRealloc,
    CloneOfDropped,
}
pub const FMT_SRCS: [FmtSrc; 6] = [FmtSrc::Static, FmtSrc::SlotInPlace, FmtSrc::FrameLocal, FmtSrc::BoxInPlace, FmtSrc::BoxRealloc, FmtSrc::CloneOfDropped];

enum Holder {
    Empty,
    Slot(LexFormat),
    Boxed(Box<LexFormat>),
}

/// the same stack frame for every call: a local format created, used, dropped
#[inline(never)]
fn with_frame_local(k: usize, f: &mut dyn FnMut(&LexFormat)) {
    let fmt = create_lex(k);
    f(std::hint::black_box(&fmt));
}

impl Holder {
    /// make format `k` the current one, the way `src` says, and run `f` with it
    fn with(&mut self, src: FmtSrc, k: usize, f: &mut dyn FnMut(&LexFormat)) {
        match src {
            FmtSrc::Static => f(formats()[k].l),
            FmtSrc::FrameLocal => with_frame_local(k, f),
            FmtSrc::SlotInPlace => {
                if let Holder::Slot(slot) = self {
                    *slot = create_lex(k);
                } else {
                    *self = Holder::Slot(create_lex(k));
                }
                if let Holder::Slot(slot) = self {
                    f(slot)
                }
            }
            FmtSrc::BoxInPlace => {
                if let Holder::Boxed(b) = self {
                    **b = create_lex(k);
                } else {
                    *self = Holder::Boxed(Box::new(create_lex(k)));
                }
                if let Holder::Boxed(b) = self {
                    f(b)
                }
            }
            FmtSrc::BoxRealloc => {
                *self = Holder::Empty; // dropped first: the allocator is free to hand the block out again
                *self = Holder::Boxed(Box::new(create_lex(k)));
                if let Holder::Boxed(b) = self {
                    f(b)
                }
            }
            FmtSrc::CloneOfDropped => {
                *self = Holder::Empty;
                let original = Box::new(create_lex(k));
                let copy = Box::new((*original).clone());
                drop(original);
                *self = Holder::Boxed(copy);
                if let Holder::Boxed(b) = self {
                    f(b)
                }
            }
        }
    }
}

pub struct StateFinding {
    /// format of the parse under test
    pub j: usize,
    pub text: String,
    pub history: String,
    pub cold: LexOut,
    pub got: LexOut,
}

fn on_fresh_thread<T: Send + 'static>(f: impl FnOnce() -> T + Send + 'static) -> Option<T> {
    std::thread::Builder::new().stack_size(64 << 20).spawn(f).ok()?.join().ok()
}

pub struct StateSearch {
    pub findings: Vec<StateFinding>,
    /// cold result per (text index, format)
    pub cold: Vec<[LexOut; 3]>,
    pub histories: usize,
    pub observations: usize,
}

/// `texts`: the texts under test (the first `always` of them are used in every history, of the others a random sample of `sample`);
/// `warm[k]`: texts of format k parsed by the earlier steps of a history; `targets`: formats of the parse under test.
pub fn lex_state_search(texts: &[String], always: usize, sample: usize, warm: &[Vec<String>; 3], targets: &[usize], rng: &mut Rng) -> StateSearch {
    let fms = formats();
    let es: [&'static crate::enumgen::EFmt; 3] = [fms[0].e, fms[1].e, fms[2].e];
    let names = ["ascii", "latex", "han"];
    // cold references: one fresh thread per (format, text)
    let mut cold: Vec<[LexOut; 3]> = vec![];
    let panic_out = LexOut { parse: Err(()), term: Err(()), fold: "THREAD-DIED".into() };
    for t in texts {
        let mut row: Vec<LexOut> = vec![];
        for j in 0..3 {
            if !targets.contains(&j) {
                row.push(panic_out.clone());
                continue;
            }
            let t2 = t.clone();
            let e = es[j];
            row.push(on_fresh_thread(move || lex_out(formats()[j].l, e, &t2)).unwrap_or(panic_out.clone()));
        }
        cold.push([row[0].clone(), row[1].clone(), row[2].clone()]);
    }
    let mut out = StateSearch { findings: vec![], cold, histories: 0, observations: 0 };
    let pick_texts = |rng: &mut Rng| -> Vec<usize> {
        let mut idx: Vec<usize> = (0..always.min(texts.len())).collect();
        if texts.len() > always {
            let mut rest: Vec<usize> = (always..texts.len()).collect();
            rng.shuffle(&mut rest);
            idx.extend(rest.into_iter().take(sample));
        }
        idx
    };
    for &j in targets {
        let others: Vec<usize> = (0..3).filter(|k| *k != j).collect();
        let (a, b) = (others[0], others[1]);
        // (a) + (b): what parses BEFORE the format under test
        let seqs: Vec<Vec<usize>> = vec![vec![a], vec![b], vec![a, b], vec![b, a], vec![j, a], vec![j, b], vec![a, j, b]];
        for seq in &seqs {
            for src in FMT_SRCS {
                let idx = pick_texts(rng);
                let my_texts: Vec<String> = idx.iter().map(|i| texts[*i].clone()).collect();
                let (seq2, warm2) = (seq.clone(), warm.clone());
                let got = on_fresh_thread(move || {
                    let mut h = Holder::Empty;
                    for &k in &seq2 {
                        h.with(src, k, &mut |l| {
                            for w in &warm2[k] {
                                let _ = lex_out(l, es[k], w);
                            }
                        });
                    }
                    let mut res: Vec<LexOut> = vec![];
                    h.with(src, j, &mut |l| {
                        for t in &my_texts {
                            res.push(lex_out(l, es[j], t));
                        }
                    });
                    res
                });
                out.histories += 1;
                let Some(got) = got else { continue };
                for (n, i) in idx.iter().enumerate() {
                    out.observations += 1;
                    if got[n] != out.cold[*i][j] {
                        let history = format!(
                            "fresh thread; formats from {:?}; first parse with [{}] the texts {:?}, then [{}] parses {:?}",
                            src,
                            seq.iter().map(|k| names[*k]).collect::<Vec<_>>().join(", then "),
                            seq.iter().map(|k| warm[*k].clone()).collect::<Vec<_>>(),
                            names[j],
                            texts[*i]
                        );
                        out.findings.push(StateFinding { j, text: texts[*i].clone(), history, cold: out.cold[*i][j].clone(), got: got[n].clone() });
                    }
                }
            }
        }
        // (c) the same text under another format directly before
        for &i0 in &others {
            for src in [FmtSrc::Static, FmtSrc::SlotInPlace, FmtSrc::BoxRealloc] {
                let idx = pick_texts(rng);
                let my_texts: Vec<String> = idx.iter().map(|i| texts[*i].clone()).collect();
                let got = on_fresh_thread(move || {
                    let mut h = Holder::Empty;
                    let mut res: Vec<LexOut> = vec![];
                    for t in &my_texts {
                        h.with(src, i0, &mut |l| {
                            let _ = lex_out(l, es[i0], t);
                        });
                        h.with(src, j, &mut |l| res.push(lex_out(l, es[j], t)));
                    }
                    res
                });
                out.histories += 1;
                let Some(got) = got else { continue };
                for (n, i) in idx.iter().enumerate() {
                    out.observations += 1;
                    if got[n] != out.cold[*i][j] {
                        let history = format!("fresh thread; formats from {:?}; ... [{}] parses {:?}, directly afterwards [{}] parses the same text {:?}", src, names[i0], texts[*i], names[j], texts[*i]);
                        out.findings.push(StateFinding { j, text: texts[*i].clone(), history, cold: out.cold[*i][j].clone(), got: got[n].clone() });
                    }
                }
            }
        }
    }
    out
}

/// texts for the state search: per format, the formatter's output for a systematic tour of the vocabulary (every copula /
/// connecter / set bracket with atom operands of every prefix, sentences and tasks with every stamp form) and random
/// domain values; plus texts that are valid in SEVERAL formats with different structures: bare words, every format's
/// prefixes / punctuations glued to a name (`_x`, `任一x`, `_1?`, `#a.`).
/// Returns (texts, number of systematic ones at the front, warm-up texts per format).
pub fn state_corpus(rng: &mut Rng, n_random: usize) -> (Vec<String>, usize, [Vec<String>; 3]) {
    let mut systematic: Vec<String> = vec![];
    let mut random: Vec<String> = vec![];
    let mut warm: [Vec<String>; 3] = [vec![], vec![], vec![]];
    let mut shared: Vec<String> = vec![];
    let all = formats();
    for fm in &all {
        let v = vocab(fm.l);
        let kw = keywords(fm.l, &v);
        let (a, b) = if fm.idx == 2 { ("知更鸟", "鸟") } else { ("robin", "bird") };
        let st = |c: &str, p: &str| mk_statement(c, mk_atom(p, a), mk_atom("", b));
        let fmt = |x: &LNarsese| guard(|| fm.l.format_narsese(x));
        for (ci, c) in v.copulas.iter().enumerate() {
            for p in std::iter::once(String::new()).chain(v.prefixes.iter().cloned()).take(if ci < 2 { 99 } else { 2 }) {
                systematic.extend(fmt(&LNarsese::Term(st(c, &p))));
            }
            systematic.extend(fmt(&LNarsese::Sentence(mk_sentence(st(c, ""), v.punctuations[ci % v.punctuations.len()].clone(), "", vec!["1".into(), "0.9".into()]))));
            systematic.extend(fmt(&LNarsese::Term(mk_statement(c.clone(), st(c, ""), st(c, "")))));
        }
        for c in &v.connecters {
            systematic.extend(fmt(&LNarsese::Term(mk_compound(c.clone(), vec![mk_atom("", a), st(&v.copulas[0], ""), mk_atom("", b)]))));
        }
        for (l, r) in &v.set_brackets {
            systematic.extend(fmt(&LNarsese::Term(mk_set(l.clone(), vec![mk_atom("", a), st(&v.copulas[0], "")], r.clone()))));
        }
        for (sa, sb) in &v.stamp_brackets {
            let stamp = if sa.is_empty() { format!("{}{}", sa, sb) } else { format!("{}1{}", sa, sb) };
            systematic.extend(fmt(&LNarsese::Task(LTask { budget: vec!["0.5".into()], sentence: mk_sentence(st(&v.copulas[0], ""), v.punctuations[0].clone(), stamp, vec!["1".into()]) })));
        }
        // what the earlier steps of a history parse: an atom next to a copula, a compound, a sentence
        warm[fm.idx].extend(fmt(&LNarsese::Sentence(mk_sentence(st(&v.copulas[0], ""), v.punctuations[0].clone(), "", vec!["1".into(), "0.9".into()]))));
        warm[fm.idx].extend(fmt(&LNarsese::Term(mk_compound(v.connecters[0].clone(), vec![mk_atom(v.prefixes[0].clone(), a), mk_atom("", b)]))));
        warm[fm.idx].extend(fmt(&LNarsese::Term(mk_atom("", a))));
        let g = LexGen { fm, v: &v, kw: &kw, max_depth: 3, strict_names: true, wild: false, style_override: None };
        for i in 0..n_random {
            random.extend(fmt(&g.narsese(rng, i % 3, if i < 8 { Some(i % 4) } else { None })).filter(|s| s.chars().count() <= 120));
        }
        // several formats, different structures
        for name in ["x", "1", "a1", "甲"] {
            shared.push(name.to_string());
            for p in &v.prefixes {
                shared.push(format!("{}{}", p, name));
                for q in v.punctuations.iter().take(2) {
                    shared.push(format!("{}{}{}", p, name, q));
                }
            }
            for q in &v.punctuations {
                shared.push(format!("{}{}", name, q));
            }
        }
    }
    shared.sort();
    shared.dedup();
    systematic.extend(shared);
    let always = systematic.len();
    systematic.extend(random);
    (systematic, always, warm)
}

/// C08's lexical half: the result of a lexical parse (and parse_term, and parse + fold) depends only on format and text
pub fn c08_lexical_state(o: &Opts, rep: &mut Report) {
    let mut rng = Rng::new(o.seed ^ 0xC08_57A7E);
    let (texts, always, warm) = state_corpus(&mut rng, if o.thorough { 120 } else { 40 });
    let res = lex_state_search(&texts, always, if o.thorough { 200 } else { 60 }, &warm, &[0, 1, 2], &mut rng);
    rep.evaluations += res.observations as u64;
    rep.hist.0.insert("lexical-state:texts".into(), texts.len() as u64);
    rep.hist.0.insert("lexical-state:histories".into(), res.histories as u64);
    rep.hist.0.insert("lexical-state:observations".into(), res.observations as u64);
    for f in res.findings {
        rep.fail(Failure {
            stream: "lexical-state".into(),
            what: "lexical parser: the result depends on what the thread parsed before / on where the format value lives, not only on format and text".into(),
            input: format!("[{}] {:?} -- history: {}", ["ascii", "latex", "han"][f.j], f.text, f.history),
            expected: format!("{:?} (the same parse alone on a fresh thread with the shared static)", f.cold),
            got: format!("{:?}", f.got),
            known: None,
        });
    }
}

// -------------------------------------------------------------------------------------------
// C05, "in bounded time": FAILING deeply nested inputs under a time budget.
// For every format, depth in {8,16,24,32,40,64} and shape (left- / right-nested statements, compounds, sets, and the
// three alternating) the token sequence of a valid nested term is truncated at every token position near the innermost
// level, and written in full with one wrong token near the innermost level (a closing bracket of another kind, a copula,
// a punctuation, a doubled token, a missing token).  Only texts of at most 512 characters are used (the property's bound).
// parse and parse_term run on a helper thread; the harness waits `DEEP_BUDGET` per input.  A helper that does not answer is
// abandoned (it cannot be stopped; the process ends when main returns) and a new helper takes the remaining inputs; the
// stream stops after `DEEP_MAX_TIMEOUTS` timeouts so that abandoned helpers cannot pile up.
// -------------------------------------------------------------------------------------------
const DEEP_BUDGET: std::time::Duration = std::time::Duration::from_secs(5);
const DEEP_MAX_TIMEOUTS: usize = 2;

/// tokens of a nested term; `shape`: 0 statement, 1 compound, 2 set, 3 alternating; `left`: the nested operand comes first
fn deep_tokens(l: &LexFormat, v: &Vocab, depth: usize, shape: usize, left: bool, copula: &str, connecter: &str, out: &mut Vec<String>, inner: &mut usize) {
    if depth == 0 {
        *inner = out.len();
        out.push("A".into());
        return;
    }
    let kind = if shape == 3 { depth % 3 } else { shape };
    let (open, close, head, sep): (String, String, Option<String>, String) = match kind {
        0 => (l.statement.brackets.0.clone(), l.statement.brackets.1.clone(), None, copula.to_string()),
        1 => (l.compound.brackets.0.clone(), l.compound.brackets.1.clone(), Some(connecter.to_string()), l.compound.separator.clone()),
        _ => (v.set_brackets[depth % v.set_brackets.len()].0.clone(), v.set_brackets[depth % v.set_brackets.len()].1.clone(), None, l.compound.separator.clone()),
    };
    out.push(open);
    if let Some(h) = head {
        out.push(h);
        out.push(sep.clone());
    }
    if left {
        deep_tokens(l, v, depth - 1, shape, left, copula, connecter, out, inner);
        out.push(sep);
        out.push("B".into());
    } else {
        out.push("B".into());
        out.push(sep);
        deep_tokens(l, v, depth - 1, shape, left, copula, connecter, out, inner);
    }
    out.push(close);
}

fn deep_failing_inputs(fm: &Fm, v: &Vocab, rng: &mut Rng, thorough: bool) -> Vec<(String, String)> {
    let l = fm.l;
    let mut res: Vec<(String, String)> = vec![];
    let shortest = |xs: &Vec<String>| xs.iter().filter(|s| !s.is_empty()).min_by_key(|s| s.chars().count()).cloned().unwrap_or_default();
    for depth in [8usize, 16, 24, 32, 40, 64] {
        for shape in 0..4 {
            for left in [true, false] {
                // the shortest keywords (the 512-character bound), and randomly chosen ones
                for pick in 0..(if thorough { 2 } else { 1 }) {
                    let copula = if pick == 0 { shortest(&v.copulas) } else { rng.pick(&v.copulas).clone() };
                    let connecter = if pick == 0 { shortest(&v.connecters) } else { rng.pick(&v.connecters).clone() };
                    let mut toks: Vec<String> = vec![];
                    let mut inner = 0usize;
                    deep_tokens(l, v, depth, shape, left, &copula, &connecter, &mut toks, &mut inner);
                    let what = format!("depth {} {} {}", depth, ["statements", "compounds", "sets", "statement/compound/set alternating"][shape], if left { "nested on the left" } else { "nested on the right" });
                    let mut add = |ts: &[String], how: String| {
                        let s: String = ts.concat();
                        if s.chars().count() <= 512 {
                            res.push((s, format!("{}, {}", what, how)));
                        }
                    };
                    // truncated after k tokens, k around the innermost atom (and, in the thorough tier, everywhere)
                    let lo = inner.saturating_sub(4);
                    let hi = (inner + 8).min(toks.len());
                    for k in 0..=toks.len() {
                        if (k >= lo && k <= hi) || (thorough && k % 5 == 0) || k + 1 == toks.len() {
                            add(&toks[..k], format!("truncated after {} of {} tokens", k, toks.len()));
                        }
                    }
                    // one wrong token near the innermost level, the rest of the text complete
                    let wrong: Vec<String> = vec![
                        l.statement.brackets.1.clone(),
                        l.compound.brackets.1.clone(),
                        v.set_brackets[0].1.clone(),
                        rng.pick(&v.copulas).clone(),
                        rng.pick(&v.punctuations).clone(),
                        l.compound.separator.clone(),
                        String::new(),
                    ];
                    for k in inner.saturating_sub(2)..(inner + 5).min(toks.len()) {
                        for (wi, w) in wrong.iter().enumerate() {
                            if (wi + k + pick) % 2 == 0 || *w == toks[k] {
                                continue;
                            }
                            let mut ts = toks.clone();
                            ts[k] = w.clone();
                            add(&ts, format!("token {} ({:?}) replaced by {:?}", k, toks[k], w));
                        }
                        let mut ts = toks.clone();
                        ts.insert(k, toks[k].clone());
                        add(&ts, format!("token {} ({:?}) doubled", k, toks[k]));
                    }
                }
            }
        }
    }
    res
}

fn c05_deep_failing_stream(o: &Opts, cx: &mut Ctx, rng: &mut Rng) {
    use std::sync::mpsc;
    let mut timeouts = 0usize;
    'formats: for fm in formats() {
        let v = vocab(fm.l);
        let inputs = deep_failing_inputs(&fm, &v, rng, o.thorough);
        cx.rep.hist.0.insert(format!("{}:deep-failing:inputs", fm.name), inputs.len() as u64);
        let mut next = 0usize;
        while next < inputs.len() {
            // a helper thread for inputs[next..]
            let (tx, rx) = mpsc::channel::<(usize, PR<LNarsese>, PR<LTerm>, u128)>();
            let batch: Vec<String> = inputs[next..].iter().map(|x| x.0.clone()).collect();
            let l = fm.l;
            let base = next;
            let spawned = std::thread::Builder::new().stack_size(256 << 20).spawn(move || {
                for (i, s) in batch.iter().enumerate() {
                    let t0 = std::time::Instant::now();
                    let r = real_lex_parse(l, s);
                    let t = real_lex_parse_term(l, s);
                    if tx.send((base + i, r, t, t0.elapsed().as_micros())).is_err() {
                        return;
                    }
                }
            });
            if spawned.is_err() {
                cx.rep.hist.add("deep-failing:could-not-spawn-helper");
                break 'formats;
            }
            loop {
                if next >= inputs.len() {
                    break;
                }
                match rx.recv_timeout(DEEP_BUDGET) {
                    Ok((i, r, t, micros)) => {
                        let (s, how) = &inputs[i];
                        cx.rep.evaluations += 2;
                        cx.rep.note_distinct(&format!("deep{}|{}", fm.idx, s));
                        cx.rep.hist.add(format!("{}:deep-failing:parse:{}", fm.name, pr_tag(&r)));
                        cx.rep.hist.add(format!("{}:deep-failing:time:{}", fm.name, match micros { 0..=999 => "<1ms", 1000..=99_999 => "<100ms", 100_000..=999_999 => "<1s", _ => ">=1s" }));
                        if r.is_err() || t.is_err() {
                            cx.fail("deep-failing", "lexical parser panicked", format!("[{}] {:?} ({})", fm.name, s, how), "Ok or Err".into(), "PANIC".into(), None);
                        }
                        // the model on a part of them (a quarter of the shallower ones, one in forty of the others)
                        if (s.chars().count() <= 100 && i % 4 == 0) || i % 40 == 0 {
                            cx.push(format!("LParseC {} {} {}", fm.idx, cstr(s), clres(&r, clnarsese)), format!("lexical parse[{}] {:?} ({})", fm.name, s, how));
                            cx.rep.evaluations -= 1;
                            if i % 2 == 0 {
                                cx.push(format!("LParseTermC {} {} {}", fm.idx, cstr(s), clres(&t, clterm)), format!("lexical parse_term[{}] {:?} ({})", fm.name, s, how));
                                cx.rep.evaluations -= 1;
                            }
                        }
                        next = i + 1;
                    }
                    Err(mpsc::RecvTimeoutError::Disconnected) => {
                        // the helper died (a panic that `guard` did not catch): reported as such, new helper for the rest
                        let (s, how) = &inputs[next];
                        cx.fail("deep-failing", "the helper thread died while parsing", format!("[{}] {:?} ({})", fm.name, s, how), "Ok or Err".into(), "thread died".into(), None);
                        next += 1;
                        break;
                    }
                    Err(mpsc::RecvTimeoutError::Timeout) => {
                        // the helper is still busy with inputs[next]: abandon it
                        let (s, how) = &inputs[next];
                        cx.rep.evaluations += 1;
                        cx.fail(
                            "deep-failing",
                            "lexical parse / parse_term of a text within the property's bounds (at most 512 characters, nesting at most 64) did not return within 5 s",
                            format!("[{}] {:?} ({}; {} characters)", fm.name, s, how, s.chars().count()),
                            "Ok or Err in bounded time (the unchanged library: well under 100 ms)".into(),
                            "no answer after 5 s".into(),
                            None,
                        );
                        timeouts += 1;
                        next += 1;
                        if timeouts >= DEEP_MAX_TIMEOUTS {
                            cx.rep.hist.add("deep-failing:stopped-after-timeouts");
                            break 'formats;
                        }
                        break; // new helper for the rest
                    }
                }
            }
        }
    }
}

// -------------------------------------------------------------------------------------------
// EMPTY bracket pairs (truth, budget) written out, in every position and format.  Neither formatter prints an empty
// truth (and the lexical one prints no empty budget), so no format -> parse stream meets these texts; the parsers accept
// them (`A. %%`, `$$ A. %%`, `\langle{}\rangle{}`, `真值`, `预算`).
// Returns (text, kind the items present demand when the text is a canonical item sequence, description).
// -------------------------------------------------------------------------------------------
pub fn empty_bracket_texts(fm: &Fm, v: &Vocab) -> Vec<(String, Option<usize>, String)> {
    let l = fm.l;
    let sp = l.space.format_items.clone();
    let (a, b) = if fm.idx == 2 { ("甲", "乙") } else { ("A", "B") };
    let terms: Vec<LTerm> = vec![
        mk_atom("", a),
        mk_atom(v.prefixes[0].clone(), a),
        mk_statement(v.copulas[0].clone(), mk_atom("", a), mk_atom("", b)),
        mk_compound(v.connecters[0].clone(), vec![mk_atom("", a), mk_atom("", b)]),
        mk_set(v.set_brackets[0].0.clone(), vec![mk_atom("", a)], v.set_brackets[0].1.clone()),
    ];
    let tb = l.sentence.truth_brackets.clone();
    let bb = l.task.budget_brackets.clone();
    let empty_truth = format!("{}{}", tb.0, tb.1);
    let empty_budget = format!("{}{}", bb.0, bb.1);
    let truths: Vec<(Option<String>, &str)> = vec![(None, "no truth"), (Some(empty_truth.clone()), "EMPTY truth"), (Some(format!("{}1{}0.9{}", tb.0, l.sentence.truth_separator, tb.1)), "truth")];
    let budgets: Vec<(Option<String>, &str)> = vec![(None, "no budget"), (Some(empty_budget.clone()), "EMPTY budget"), (Some(format!("{}0.5{}", bb.0, bb.1)), "budget")];
    let mut stamps: Vec<Option<String>> = vec![None];
    for (sa, sb) in v.stamp_brackets.iter() {
        stamps.push(Some(if sa.is_empty() { format!("{}{}", sa, sb) } else { format!("{}1{}", sa, sb) }));
    }
    let mut puncts: Vec<Option<String>> = vec![None];
    puncts.extend(v.punctuations.iter().cloned().map(Some));
    let mut out: Vec<(String, Option<usize>, String)> = vec![];
    for (ti, t) in terms.iter().enumerate() {
        let Some(ts) = guard(|| l.format_term(t)) else { continue };
        for (bi, (bud, bname)) in budgets.iter().enumerate() {
            for (pi, p) in puncts.iter().enumerate() {
                for (si, st) in stamps.iter().enumerate() {
                    for (ui, (tr, tname)) in truths.iter().enumerate() {
                        // every combination with an empty pair for the first term; a rotating part for the others
                        let has_empty = bi == 1 || ui == 1;
                        if !has_empty || (ti != 0 && (ti + bi + pi + si + ui) % 3 != 0) {
                            continue;
                        }
                        let mut items: Vec<String> = vec![];
                        items.extend(bud.clone());
                        items.push(format!("{}{}", ts, p.clone().unwrap_or_default()));
                        items.extend(st.clone());
                        items.extend(tr.clone());
                        let want = match (bud, p) {
                            (Some(_), Some(_)) => 2,
                            (None, Some(_)) => 1,
                            _ => 0,
                        };
                        let descr = format!("{}, term, {}, {}, {}", bname, if p.is_some() { "punctuation" } else { "no punctuation" }, if st.is_some() { "stamp" } else { "no stamp" }, tname);
                        out.push((items.join(&sp), Some(want), descr.clone()));
                        if (bi + pi + si + ui) % 2 == 0 {
                            out.push((items.concat(), Some(want), format!("{} (no blanks)", descr)));
                        }
                    }
                }
            }
        }
        // empty pairs where they do not belong (no classification demanded: model vs implementation, and both parsers alike)
        let p0 = v.punctuations[0].clone();
        for e in [&empty_truth, &empty_budget] {
            out.push((format!("{}{}{}{}", e, sp, ts, p0), None, "empty pair before the term".into()));
            out.push((format!("{}{}{}{}", ts, sp, e, p0), None, "empty pair between term and punctuation".into()));
            out.push((format!("{}{}{}{}{}", ts, p0, sp, e, e), None, "empty pair twice at the end".into()));
            out.push((format!("{}{}{}", ts, sp, e), None, "term and empty pair".into()));
            out.push((e.to_string(), None, "the empty pair alone".into()));
            out.push((format!("{}{}", e, p0), None, "the empty pair and a punctuation".into()));
        }
        out.push((format!("{}{}{}{}{}{}", empty_budget, sp, empty_budget, sp, ts, p0), None, "empty budget twice".into()));
        out.push((format!("{}{}{}{}{}{}", ts, p0, sp, empty_truth, sp, empty_budget), None, "empty budget after the empty truth".into()));
    }
    out
}

/// C15: the classification by the items present, in both parsers, on texts with empty bracket pairs written out; the
/// lexical results are compared with the lexical model (cases appended to `lcases`)
pub fn c15_empty_brackets(rep: &mut Report, lcases: &mut Vec<String>, ldescr: &mut Vec<String>) {
    let kinds = ["term", "sentence", "task"];
    for fm in formats() {
        let v = vocab(fm.l);
        for (s, want, descr) in empty_bracket_texts(&fm, &v) {
            let lr = real_lex_parse(fm.l, &s);
            let er = crate::enumprops::real_parse(fm.e, &s);
            rep.evaluations += 2;
            lcases.push(format!("LParseC {} {} {}", fm.idx, cstr(&s), clres(&lr, clnarsese)));
            ldescr.push(format!("lexical parse[{}] {:?} ({})", fm.name, s, descr));
            let lk = match &lr {
                Ok(Some(x)) => Some(match x {
                    LNarsese::Term(_) => 0,
                    LNarsese::Sentence(_) => 1,
                    LNarsese::Task(_) => 2,
                }),
                _ => None,
            };
            let ek = match &er {
                Ok(Some(x)) => Some(crate::enumgen::kind_of(x)),
                _ => None,
            };
            rep.hist.add(format!("{}:empty-brackets:{}:lexical={}:enum={}", fm.name, if want.is_some() { "canonical" } else { "misplaced" }, lk.map(|k| kinds[k]).unwrap_or(pr_tag(&lr)), ek.map(|k| kinds[k]).unwrap_or(pr_tag(&er))));
            let mut fail = |what: &str, expected: String, got: String| {
                rep.fail(Failure { stream: "empty-brackets".into(), what: what.into(), input: format!("[{}] {:?} ({})", fm.name, s, descr), expected, got, known: None });
            };
            if lr.is_err() || er.is_err() {
                fail("a parser panicked", "Ok or Err".into(), "PANIC".into());
                continue;
            }
            if let Some(w) = want {
                // a canonical item sequence: the kind is decided by the items present, in both parsers
                if let Some(k) = lk {
                    if k != w {
                        fail("lexical parser: wrong kind for the items present (an empty truth / budget is still a truth / budget)", kinds[w].into(), kinds[k].into());
                    }
                }
                if let Some(k) = ek {
                    if k != w {
                        fail("enum parser: wrong kind for the items present (an empty truth / budget is still a truth / budget)", kinds[w].into(), kinds[k].into());
                    }
                }
            }
            // "identically in both parsers" is demanded of canonical item sequences only (the property quantifies over what the
            // formatters print: budget, term + punctuation, stamp, truth in this order).  On the MISPLACED texts the two parsers
            // differ by design on the unchanged library -- the enum parser collects items in any order (`A@ %% $$` is a task,
            // `A $$@` is a task), the lexical parser takes the budget from the front and truth / stamp / punctuation from the
            // back (term resp. sentence) -- so these are correspondence cases (lexical model) and histogram entries only.
            if let (Some(k1), Some(k2), Some(_)) = (lk, ek, want) {
                if k1 != k2 {
                    fail("enum and lexical parser classify the same text differently", format!("enum: {}", kinds[k2]), format!("lexical: {}", kinds[k1]));
                }
            }
        }
    }
}
