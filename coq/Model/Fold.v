(* Model/Fold.v -- lexical folding into enum Narsese
   (src/conversion/inter_type/lexical_fold/impl_enum.rs: TryFoldInto for Term / Truth / Budget /
   Sentence / Task / Narsese with fold_atom, fold_compound, fold_set, fold_statement, fold_terms,
   try_fold_float_vec; src/enum_narsese/term/impls.rs: to_terms_with_image,
   to_image_*_with_placeholder, new_image_* with test_term_vec_for_image; truth.rs / budget.rs:
   try_from_floats, new_single / new_double / new_triple with validate_01).
   The ordered arm tables (which keyword field of the ENUM format an arm compares with, what it
   builds) are REGENERATED into Gen/FoldArms.v; the control flow below is written by hand, statement
   by statement, and tied to the code by the correspondence check (Run/FoldRun.v).
   Results: FOk v | FErr | FPanic; every Rust operation that can panic where it stands
   (validate_01 inside the new_* constructors, test_term_vec_for_image) has an explicit FPanic branch.
   Definitions only. *)
From Nv Require Export Model.EnumParser Gen.FoldArms.

Inductive fres (A : Type) : Type := FOk (a : A) | FErr | FPanic.
Arguments FOk {A} a.
Arguments FErr {A}.
Arguments FPanic {A}.

Definition fbind {A B} (r : fres A) (f : A -> fres B) : fres B :=
  match r with FOk a => f a | FErr => FErr | FPanic => FPanic end.

(* `first! { (x.eq) => (_); kw1 => v1, kw2 => v2, ... }`: the first arm whose keyword EQUALS x *)
Fixpoint first_eq {A} (E : efmt) (x : str) (arms : list ((efmt -> str) * A)) : option A :=
  match arms with
  | [] => None
  | (g, a) :: rest => if str_eqb x (g E) then Some a else first_eq E x rest
  end.

(* the same for `((l, r).eq)` against `&folder.compound.brackets_xxx` (tuple equality) *)
Fixpoint first_eq2 {A} (E : efmt) (l r : str) (arms : list ((efmt -> str) * (efmt -> str) * A)) : option A :=
  match arms with
  | [] => None
  | (gl, gr, a) :: rest => if str_eqb l (gl E) && str_eqb r (gr E) then Some a else first_eq2 E l r rest
  end.

(* test_term_vec_for_image: panics when  index <op> len  (op regenerated: Gen/TermGen.v) *)
Definition cmp_holds (op : cmp_op) (a b : N) : bool :=
  match op with
  | OpGt => b <? a
  | OpGe => b <=? a
  | OpLt => a <? b
  | OpLe => a <=? b
  | OpEq => a =? b
  | OpNe => negb (a =? b)
  end.

(* Term::new_image_extension / new_image_intension *)
Definition new_image (c : img_ctor) (i : N) (l : list term) : fres term :=
  if cmp_holds image_index_panic_op i (nlen l) then FPanic else FOk (TImg c i l).

Definition is_placeholder (t : term) : bool :=
  match t with TUnit c => unit_ctor_eqb c Placeholder | _ => false end.

(* Term::to_terms_with_image: the FIRST placeholder (pattern `Term::Placeholder`) gives the index and
   is dropped; later placeholders stay in the list.  [i] is the running enumerate() counter. *)
Fixpoint to_terms_with_image (i : N) (l : list term) : option N * list term :=
  match l with
  | [] => (None, [])
  | x :: l' =>
      if is_placeholder x then (Some i, l')
      else let '(o, r) := to_terms_with_image (i + 1) l' in (o, x :: r)
  end.

(* Term::to_image_*_with_placeholder: None (no placeholder) | Some (new_image ..) which may panic *)
Definition to_image_with_placeholder (c : img_ctor) (ts : list term) : fres term :=
  match to_terms_with_image 0 ts with
  | (Some idx, rest) => new_image c idx rest
  | (None, _) => FErr
  end.

Section Fold.
  Variable F : Type.
  Variable fread : str -> option F.   (* str::parse::<f64>() on an arbitrary string *)
  Variable in01 : F -> bool.          (* ZeroOneFloat::is_in_01 *)
  Variable E : efmt.                  (* the folder: an ENUM format *)

  (* ---- terms ---- *)
  Definition fold_atom (prefix name : str) : fres term :=
    let rejected_empty :=
      match fold_atom_empty_name_exempt with
      | Some g => match name with [] => negb (str_eqb prefix (g E)) | _ => false end
      | None => false
      end in
    if rejected_empty then FErr
    else
      match first_eq E prefix fold_atom_arms with
      | Some (AFName c) => FOk (TName c name)
      | Some (AFUnit c) => FOk (TUnit c)
      | Some (AFParseUInt c) =>
          match read_usize name with
          | Some v => FOk (TNum c v)
          | None => FErr
          end
      | None => FErr
      end.

  Definition fold_compound (connecter : str) (ts : list term) : fres term :=
    match first_eq E connecter fold_compound_arms with
    | Some (CFSet c) => FOk (TSet c (mk_set ts))
    | Some (CFVec c) => FOk (TVec c ts)
    | Some (CFImage c) => to_image_with_placeholder c ts
    | Some (CFFirst c) => match ts with x :: _ => FOk (TBox1 c x) | [] => FErr end
    | Some (CFFirstTwo c) => match ts with x :: y :: _ => FOk (TBox2 c x y) | _ => FErr end
    | None => FErr
    end.

  Definition fold_set (l r : str) (ts : list term) : fres term :=
    match first_eq2 E l r fold_set_arms with
    | Some c => FOk (TSet c (mk_set ts))
    | None => FErr
    end.

  Definition fold_statement (subject : term) (copula : str) (predicate : term) : fres term :=
    match first_eq E copula fold_statement_arms with
    | Some b => FOk (build_statement b subject predicate)
    | None => FErr
    end.

  (* TryFoldInto for Term; fold_terms stops at the first component that fails (the iterator is lazy) *)
  Fixpoint fold_term (x : lterm) : fres term :=
    let fix fold_terms (l : list lterm) : fres (list term) :=
      match l with
      | [] => FOk []
      | y :: l' => fbind (fold_term y) (fun t => fbind (fold_terms l') (fun ts => FOk (t :: ts)))
      end in
    match x with
    | LAtom p n => fold_atom p n
    | LCompound c ts => fbind (fold_terms ts) (fun ts' => fold_compound c ts')
    | LSet l ts r => fbind (fold_terms ts) (fun ts' => fold_set l r ts')
    | LStatement c s p =>
        fbind (fold_term s) (fun s' => fbind (fold_term p) (fun p' => fold_statement s' c p'))
    end.

  Fixpoint fold_terms (l : list lterm) : fres (list term) :=
    match l with
    | [] => FOk []
    | y :: l' => fbind (fold_term y) (fun t => fbind (fold_terms l') (fun ts => FOk (t :: ts)))
    end.

  (* ---- numbers ---- *)
  (* try_fold_float_vec: every entry is parsed, the first failure is the error *)
  Fixpoint try_fold_float_vec (l : list str) : fres (list F) :=
    match l with
    | [] => FOk []
    | s :: l' =>
        match fread s with
        | Some v => fbind (try_fold_float_vec l') (fun vs => FOk (v :: vs))
        | None => FErr
        end
    end.

  Definition try_validate (v : F) : fres F := if in01 v then FOk v else FErr.   (* try_validate_01 *)
  Definition validate (v : F) : fres F := if in01 v then FOk v else FPanic.     (* validate_01: unwrap *)

  Definition truth_new_single (f : F) : fres (truthv F) := fbind (validate f) (fun f => FOk (TruthSingle f)).
  Definition truth_new_double (f c : F) : fres (truthv F) :=
    fbind (validate f) (fun f => fbind (validate c) (fun c => FOk (TruthDouble f c))).
  (* Truth::try_from_floats: at most two items are pulled from the iterator *)
  Definition truth_try_from_floats (l : list F) : fres (truthv F) :=
    match l with
    | [] => FOk TruthEmpty
    | v :: l1 =>
        fbind (try_validate v) (fun f =>
        match l1 with
        | [] => truth_new_single f
        | v2 :: _ => fbind (try_validate v2) (fun c => truth_new_double f c)
        end)
    end.

  Definition budget_new_single (p : F) : fres (budgetv F) := fbind (validate p) (fun p => FOk (BudgetSingle p)).
  Definition budget_new_double (p d : F) : fres (budgetv F) :=
    fbind (validate p) (fun p => fbind (validate d) (fun d => FOk (BudgetDouble p d))).
  Definition budget_new_triple (p d q : F) : fres (budgetv F) :=
    fbind (validate p) (fun p => fbind (validate d) (fun d => fbind (validate q) (fun q => FOk (BudgetTriple p d q)))).
  Definition budget_try_from_floats (l : list F) : fres (budgetv F) :=
    match l with
    | [] => FOk BudgetEmpty
    | v :: l1 =>
        fbind (try_validate v) (fun p =>
        match l1 with
        | [] => budget_new_single p
        | v2 :: l2 =>
            fbind (try_validate v2) (fun d =>
            match l2 with
            | [] => budget_new_double p d
            | v3 :: _ => fbind (try_validate v3) (fun q => budget_new_triple p d q)
            end)
        end)
    end.

  Definition fold_truth (l : list str) : fres (truthv F) := fbind (try_fold_float_vec l) truth_try_from_floats.
  Definition fold_budget (l : list str) : fres (budgetv F) := fbind (try_fold_float_vec l) budget_try_from_floats.

  (* ---- the enum parser's side doors (folder.parse::<Stamp>(..), folder.parse::<Punctuation>(..)) ---- *)
  Definition of_door {A} (r : pres F A) : fres A :=
    match r with POk a _ => FOk a | PErr _ => FErr | PPanic => FPanic | PFuel => FPanic end.

  (* ---- sentences, tasks, values ---- *)
  Definition fold_sentence (s : lsentence) : fres (sentence F) :=
    fbind (fold_term (ls_term s)) (fun t =>
    fbind (fold_truth (ls_truth s)) (fun tr =>
    fbind (of_door (door_stamp F E (ls_stamp s))) (fun st =>
    fbind (of_door (door_punctuation F E (ls_punct s))) (fun p =>
    FOk (from_punctuation t p st tr))))).

  Definition fold_task (k : ltask) : fres (task F) :=
    fbind (fold_budget (lt_budget k)) (fun b =>
    fbind (fold_sentence (lt_sentence k)) (fun s => FOk (s, b))).

  Definition fold_narsese (v : lnarsese) : fres (narsese F) :=
    match v with
    | NTerm t => fbind (fold_term t) (fun t' => FOk (NTerm t'))
    | NSentence s => fbind (fold_sentence s) (fun s' => FOk (NSentence s'))
    | NTask k => fbind (fold_task k) (fun k' => FOk (NTask k'))
    end.
End Fold.
