(* Model/SstSent.v -- surface syntax of whole enum Narsese inputs (term / sentence / task): the
   SPECIFICATION side of the sentence-level parser-correctness theorem (C01, C09, C15).
   A surface input [snarsese] records which items are written, the TEXT of every number and the
   number of space keywords at every boundary (inside number lists and stamps, between items and at
   both ends).  [render_narsese] prints it; [odesugar_narsese] is its documented meaning:
   task iff budget and punctuation are written, sentence iff a punctuation but no budget, term
   otherwise (a budget / stamp / truth written without a punctuation must still be readable and is
   then dropped -- exactly what `transform_mid_result` does: the slots stay in the parser state).
   Items are written in the order the formatter prints them: budget term punctuation stamp truth.
   Definitions only; proofs in Proofs/EnumSentP.v. *)
From Nv Require Export Model.Sst.

(* ---- the term-level statement this file builds on (proved elsewhere) ----
   "t written with ANY number of space keywords at every token boundary, followed by ANY
   continuation k that does not extend its last atom: p_term returns exactly the documented meaning
   and stops exactly at the end of the text of t".
   The third hypothesis is the cursor invariant [wf F L st] of Proofs/EnumTotalP.v, written out
   (convertible with it), so that this Model file does not depend on a Proofs file. *)
Definition TermParses (F : Type) (is_alnum : N -> bool) (E : efmt) (unamb : sterm -> str -> bool) : Prop :=
  forall (t : sterm) (v : term) (k : str) (L : nat) (st : pstate F) (fuel : nat),
    odesugar t = Some v -> unamb t k = true ->
    (s_len F st = L /\ length (s_rest F st) = (L - s_head F st)%nat) ->
    s_rest F st = render E t ++ k -> (sdepth t < fuel)%nat ->
    p_term F is_alnum E fuel st = POk v (step F (length (render E t)) st).

(* ---- surface items ---- *)
(* a bracketed number list:  lb sp^sp0 text0 (sp^a sep sp^b text1) ... sp^sp1 rb,  (a,b) = gaps i *)
Record snums := { nl_sp0 : nat; nl_gaps : nat -> nat * nat; nl_texts : list str; nl_sp1 : nat }.

(* a stamp:  lb sp^sp0 marker [sp^sp1 integer] sp^sp2 rb   (the bracketed part only for the fixed arm);
   arm: index into stamp_arms *)
Record sstamp := { ss_arm : nat; ss_sp0 : nat; ss_sp1 : nat; ss_int : str; ss_sp2 : nat }.

(* sp^lead [budget sp^g] term [sp^g punctuation] [sp^g stamp] [sp^g truth] sp^trail *)
Record snarsese := {
  sn_lead : nat;
  sn_budget : option (snums * nat);     (* the budget and the number of spaces AFTER it *)
  sn_term : sterm;
  sn_punct : option (nat * nat);        (* spaces BEFORE it, arm index into punct_arms *)
  sn_stamp : option (nat * sstamp);     (* spaces BEFORE it, the stamp *)
  sn_truth : option (nat * snums);      (* spaces BEFORE it, the truth *)
  sn_trail : nat
}.

Definition first_not (p : N -> bool) (s : str) : bool := match s with [] => true | c :: _ => negb (p c) end.

(* two keywords differ at a position both have: then neither can be mistaken for the other, whatever follows *)
Fixpoint diverge (a b : str) : bool :=
  match a, b with
  | x :: a', y :: b' => if x =? y then diverge a' b' else true
  | _, _ => false
  end.

(* kw occurs nowhere in text *)
Definition no_occ (kw text : str) : bool :=
  forallb (fun n => negb (starts kw (drop n text))) (seq 0 (S (length text))).

Section RenderSent.
  Variable E : efmt.

  Definition ngap (sep : str) (g : nat * nat) : str := sp E (fst g) ++ sep ++ sp E (snd g).

  Fixpoint render_nums_from (sep : str) (gaps : nat -> nat * nat) (lead : bool) (i : nat) (l : list str) : str :=
    match l with
    | [] => []
    | x :: l' => (if lead then ngap sep (gaps i) else []) ++ x ++ render_nums_from sep gaps true (S i) l'
    end.

  Definition render_nums (lb sep rb : str) (n : snums) : str :=
    lb ++ sp E (nl_sp0 n) ++ render_nums_from sep (nl_gaps n) false 0 (nl_texts n) ++ sp E (nl_sp1 n) ++ rb.

  Definition render_budget : snums -> str :=
    render_nums (task_budget_brackets_0 E) (task_budget_separator E) (task_budget_brackets_1 E).
  Definition render_truth : snums -> str :=
    render_nums (sentence_truth_brackets_0 E) (sentence_truth_separator E) (sentence_truth_brackets_1 E).

  Definition punct_kw (arm : nat) : str := match nth_error punct_arms arm with Some (g, _, _) => g E | None => [] end.
  Definition stamp_marker (arm : nat) : str := match nth_error stamp_arms arm with Some (g, _, _) => g E | None => [] end.
  Definition stamp_kind (arm : nat) : option stamp_arm := match nth_error stamp_arms arm with Some (_, _, k) => Some k | None => None end.

  Definition render_stamp (x : sstamp) : str :=
    sentence_stamp_brackets_0 E ++ sp E (ss_sp0 x) ++ stamp_marker (ss_arm x) ++
    (match stamp_kind (ss_arm x) with Some SAFixed => sp E (ss_sp1 x) ++ ss_int x | _ => [] end) ++
    sp E (ss_sp2 x) ++ sentence_stamp_brackets_1 E.

  (* an optional item with the spaces before it, followed by k *)
  Definition ropt {A} (o : option (nat * A)) (r : A -> str) (k : str) : str :=
    match o with Some (g, x) => sp E g ++ r x ++ k | None => k end.

  (* what follows the truth / the stamp / the punctuation / the term *)
  Definition tail3 (s : snarsese) : str := sp E (sn_trail s).
  Definition tail2 (s : snarsese) : str := ropt (sn_truth s) render_truth (tail3 s).
  Definition tail1 (s : snarsese) : str := ropt (sn_stamp s) render_stamp (tail2 s).
  Definition tail0 (s : snarsese) : str := ropt (sn_punct s) punct_kw (tail1 s).
  (* the text from the term on *)
  Definition from_term (s : snarsese) : str := render E (sn_term s) ++ tail0 s.

  Definition render_narsese (s : snarsese) : str :=
    sp E (sn_lead s) ++
    match sn_budget s with
    | Some (b, g) => render_budget b ++ sp E g ++ from_term s
    | None => from_term s
    end.

  (* the first keyword of a stamp's text: its left bracket, or (empty left bracket: LaTeX, Han) its marker *)
  Definition stamp_first (arm : nat) : str :=
    match sentence_stamp_brackets_0 E with [] => stamp_marker arm | b => b end.

  (* ---- format-level side condition of the sentence-level theorem ----
     finite checks on the keyword tables, discharged by vm_compute for the shipped formats *)
  Definition all_arms {A} (arms : list A) (f : nat -> bool) : bool := forallb f (seq 0 (length arms)).

  (* earlier arms of a `first!` ladder cannot match the text of a later arm *)
  Fixpoint arms_sep {A} (arms : list ((efmt -> str) * A)) : bool :=
    match arms with
    | [] => true
    | (g, _) :: rest => forallb (fun x => diverge (g E) (fst x E)) rest && arms_sep rest
    end.

  (* a number list  lb ... sep ... rb  is scanned as written *)
  Definition numlist_ok (sep rb : str) : bool :=
    nonempty rb && first_not is_float_char sep && first_not is_float_char rb
    && diverge (space_parse E) sep && diverge (space_parse E) rb && diverge sep rb.

  (* the stamp branch of consume_one does not take a text that starts with kw *)
  Definition stamp_clear (kw : str) : bool :=
    match sentence_stamp_brackets_0 E with
    | [] => all_arms stamp_arms (fun i => diverge (stamp_marker i) kw)
    | b => diverge b kw
    end.

  Definition sent_ok : bool :=
    total_ok E && state_facts_ok && stamp_fixed_skip_spaces
    && first_not is_float_char (space_parse E) && first_not is_int_char (space_parse E)
    && numlist_ok (task_budget_separator E) (task_budget_brackets_1 E)
    && numlist_ok (sentence_truth_separator E) (sentence_truth_brackets_1 E)
    (* ladders: guard keyword = skipped keyword, earlier arms do not shadow later ones *)
    && forallb (fun x => str_eqb (fst (fst x) E) (snd (fst x) E)) punct_arms
    && forallb (fun x => str_eqb (fst (fst x) E) (snd (fst x) E)) stamp_arms
    && arms_sep (map (fun x => (fst (fst x), (snd (fst x), snd x))) punct_arms)
    && arms_sep (map (fun x => (fst (fst x), (snd (fst x), snd x))) stamp_arms)
    (* no item starts with the space keyword *)
    && diverge (space_parse E) (task_budget_brackets_0 E)
    && diverge (space_parse E) (sentence_truth_brackets_0 E)
    && all_arms punct_arms (fun i => diverge (space_parse E) (punct_kw i))
    && all_arms stamp_arms (fun i => diverge (space_parse E) (stamp_first i))
    && all_arms stamp_arms (fun i => diverge (space_parse E) (stamp_marker i))
    (* the budget branch does not take a punctuation, a stamp or a truth *)
    && all_arms punct_arms (fun i => diverge (task_budget_brackets_0 E) (punct_kw i))
    && all_arms stamp_arms (fun i => diverge (task_budget_brackets_0 E) (stamp_first i))
    && diverge (task_budget_brackets_0 E) (sentence_truth_brackets_0 E)
    (* the punctuation branch fails on a stamp or a truth *)
    && all_arms punct_arms (fun i => all_arms stamp_arms (fun j => diverge (punct_kw i) (stamp_first j)))
    && all_arms punct_arms (fun i => diverge (punct_kw i) (sentence_truth_brackets_0 E))
    (* the stamp branch is not taken, or fails, on a truth *)
    && stamp_clear (sentence_truth_brackets_0 E)
    (* inside a stamp: the right bracket (when there is one) is seen after spaces; the integer scan stops *)
    && match sentence_stamp_brackets_1 E with
       | [] => first_not is_int_char (sentence_truth_brackets_0 E)
       | b => diverge (space_parse E) b && first_not is_int_char b
       end.
End RenderSent.

(* ---- the documented meaning ---- *)
Section Meaning.
  Variable F : Type.
  Variable fread : str -> option F.   (* f64::from_str *)
  Variable fzero : F.
  Variable in01 : F -> bool.
  Variable E : efmt.

  (* a number text: digits and dots only, readable, in [0,1] *)
  Definition read_num (t : str) : option F :=
    if forallb is_float_char t
    then match fread t with Some v => if in01 v then Some v else None | None => None end
    else None.
  Definition read_nums (max : nat) (n : snums) : option (list F) :=
    if Nat.leb (length (nl_texts n)) max then omap read_num (nl_texts n) else None.
  Definition obudget (n : snums) : option (budgetv F) :=
    match read_nums 3 n with Some l => mk_budget F in01 l | None => None end.
  Definition otruth (n : snums) : option (truthv F) :=
    match read_nums 2 n with Some l => mk_truth F in01 l | None => None end.
  Definition ostamp (x : sstamp) : option stamp :=
    match stamp_kind (ss_arm x) with
    | Some SAPast => Some Past
    | Some SAPresent => Some Present
    | Some SAFuture => Some Future
    | Some SAFixed =>
        if nonempty (ss_int x) && forallb is_int_char (ss_int x)
        then option_map Fixed (read_isize (ss_int x)) else None
    | None => None
    end.
  Definition opunct (a : nat) : option punct :=
    match nth_error punct_arms a with Some (_, _, p) => Some p | None => None end.

  (* Some None: not written; Some (Some b): written and readable; None: written and unreadable *)
  Definition opt_read {A B} (o : option A) (f : A -> option B) : option (option B) :=
    match o with
    | None => Some None
    | Some a => match f a with Some b => Some (Some b) | None => None end
    end.

  Definition classify (t : term) (ob : option (budgetv F)) (op : option punct) (os : option stamp)
             (ot : option (truthv F)) : narsese F :=
    match op with
    | Some p =>
        let sen := from_punctuation t p (unwrap_stamp os) (unwrap_truth F ot) in
        match ob with Some b => NTask (sen, b) | None => NSentence sen end
    | None => NTerm t
    end.

  Definition odesugar_narsese (s : snarsese) : option (narsese F) :=
    match odesugar (sn_term s),
          opt_read (sn_budget s) (fun x => obudget (fst x)),
          opt_read (sn_punct s) (fun x => opunct (snd x)),
          opt_read (sn_stamp s) (fun x => ostamp (snd x)),
          opt_read (sn_truth s) (fun x => otruth (snd x)) with
    | Some t, Some ob, Some op, Some os, Some ot => Some (classify t ob op os ot)
    | _, _, _, _, _ => None
    end.

  (* ---- what the back-off chain of consume_one needs, on the concrete text ----
     [unamb]: the term-level condition (names / continuation) of TermParses. *)
  Variable unamb : sterm -> str -> bool.

  (* the parser state at the start of the term when no budget is written (nothing consumed but spaces) *)
  Definition probe_state (whole rest : str) : pstate F :=
    {| s_len := length whole; s_head := (length whole - length rest)%nat; s_rest := rest; s_mid := mid_empty F |}.
  (* "the budget attempt on this text fails": the model itself is run on the text.  In ASCII `$` is both
     the budget bracket and the independent-variable prefix; a failed attempt (`$x`, `$1` without a
     closing `$`: budget_requires_close) falls through to the term branch with the cursor restored. *)
  Definition budget_attempt_fails (whole rest : str) : bool :=
    match consume_budget F fread fzero in01 E (probe_state whole rest) with PErr _ => true | _ => false end.

  Definition sent_unamb (s : snarsese) : bool :=
    unamb (sn_term s) (tail0 E s)
    (* the term's text does not start with the space keyword *)
    && negb (starts (space_parse E) (from_term E s))
    (* without a written budget, the term's text is not taken for one: it does not start with the
       budget's left bracket, or the attempt fails.  (Han: 预 and 算 are name characters, the word
       预算 IS taken for an empty budget: known class K2, see sent_unamb_han_K2 in Proofs/EnumSentP.v) *)
    && match sn_budget s with
       | Some _ => true
       | None => negb (starts (task_budget_brackets_0 E) (from_term E s))
                 || budget_attempt_fails (render_narsese E s) (from_term E s)
       end
    (* normal form: with an empty left stamp bracket, the spaces "after it" belong to the gap before *)
    && match sn_stamp s with
       | Some (_, x) => nonempty (sentence_stamp_brackets_0 E) || Nat.eqb (ss_sp0 x) 0
       | None => true
       end.
End Meaning.

(* ---- spacing erasure: two surface inputs differ only in their spacing annotations iff their
   erasures are equal; the erasure itself is the input written without any space (C09) ---- *)
Fixpoint erase_t (t : sterm) : sterm :=
  match t with
  | SAtom a n => SAtom a n
  | SSet e _ _ items _ => SSet e 0 (fun _ => (O, O)) (map erase_t items) 0
  | SComp a _ _ items _ => SComp a 0 (fun _ => (O, O)) (map erase_t items) 0
  | SStmt a _ _ _ _ s p => SStmt a 0 0 0 0 (erase_t s) (erase_t p)
  end.
Definition erase_nums (n : snums) : snums :=
  {| nl_sp0 := 0; nl_gaps := fun _ => (O, O); nl_texts := nl_texts n; nl_sp1 := 0 |}.
Definition erase_stamp (x : sstamp) : sstamp :=
  {| ss_arm := ss_arm x; ss_sp0 := 0; ss_sp1 := 0; ss_int := ss_int x; ss_sp2 := 0 |}.
Definition erase (s : snarsese) : snarsese :=
  {| sn_lead := 0;
     sn_budget := option_map (fun x => (erase_nums (fst x), O)) (sn_budget s);
     sn_term := erase_t (sn_term s);
     sn_punct := option_map (fun x => (O, snd x)) (sn_punct s);
     sn_stamp := option_map (fun x => (O, erase_stamp (snd x))) (sn_stamp s);
     sn_truth := option_map (fun x => (O, erase_nums (snd x))) (sn_truth s);
     sn_trail := 0 |}.

(* ---- canonical surface inputs: what the formatter prints ---- *)
Definition spunct_eqb (a b : punct) : bool :=
  match a, b with
  | Judgement, Judgement | Goal, Goal | Question, Question | Quest, Quest => true
  | _, _ => false
  end.
Definition sarm_eqb (a b : stamp_arm) : bool :=
  match a, b with
  | SAFixed, SAFixed | SAPast, SAPast | SAPresent, SAPresent | SAFuture, SAFuture => true
  | _, _ => false
  end.
Definition punct_index (p : punct) : nat :=
  match find_index (fun x => spunct_eqb (snd x) p) punct_arms 0 with Some i => i | None => 0 end.
Definition stamp_index (k : stamp_arm) : nat :=
  match find_index (fun x => sarm_eqb (snd x) k) stamp_arms 0 with Some i => i | None => 0 end.

(* the numbers of a value are what C01 calls well-formed: every truth / budget number in [0,1]
   (in01 is false of NaN, negatives, infinities), a fixed stamp within isize *)
Definition stamp_ok (x : stamp) : bool :=
  match x with Fixed z => ((isize_min <=? z) && (z <=? isize_max))%Z | _ => true end.
Definition nv_term {F} (v : narsese F) : term :=
  match v with NTerm t => t | NSentence s => s_term s | NTask k => s_term (fst k) end.
Section ValsOk.
  Variable F : Type.
  Variable in01 : F -> bool.
  Definition sent_vals_ok (s : sentence F) : bool :=
    stamp_ok (s_stamp s) && match s_truth s with Some t => forallb in01 (truth_list t) | None => true end.
  Definition vals_ok (v : narsese F) : bool :=
    match v with
    | NTerm _ => true
    | NSentence s => sent_vals_ok s
    | NTask (s, b) => sent_vals_ok s && forallb in01 (budget_list b)
    end.
End ValsOk.

Section Canon.
  Variable F : Type.
  Variable fshow : F -> str.          (* f64::to_string *)
  Variable E : efmt.
  Variables kt ki : nat.              (* space.format_terms = sp^kt, space.format_items = sp^ki *)

  Definition canon_nums (l : list F) : snums :=
    {| nl_sp0 := 0; nl_gaps := fun _ => (O, O); nl_texts := map fshow l; nl_sp1 := 0 |}.

  Definition canon_stamp (x : stamp) : option (nat * sstamp) :=
    let mk k z := Some (kt, {| ss_arm := stamp_index k; ss_sp0 := 0; ss_sp1 := 0; ss_int := z; ss_sp2 := 0 |}) in
    match x with
    | Eternal => None
    | Past => mk SAPast []
    | Present => mk SAPresent []
    | Future => mk SAFuture []
    | Fixed z => mk SAFixed (show_Z z)
    end.

  Definition canon_truth (o : option (truthv F)) : option (nat * snums) :=
    match o with
    | None | Some TruthEmpty => None
    | Some t => Some (kt, canon_nums (truth_list t))
    end.

  Definition canon_sentence (budget : option (snums * nat)) (st : sterm) (s : sentence F) : snarsese :=
    {| sn_lead := 0; sn_budget := budget; sn_term := st;
       sn_punct := Some (O, punct_index (s_punct s));
       sn_stamp := canon_stamp (s_stamp s);
       sn_truth := canon_truth (s_truth s);
       sn_trail := 0 |}.

  (* st: the canonical surface tree of the term inside (term-level: fmt_term E t = render E st) *)
  Definition canon_narsese (st : sterm) (v : narsese F) : snarsese :=
    match v with
    | NTerm _ => {| sn_lead := 0; sn_budget := None; sn_term := st; sn_punct := None; sn_stamp := None;
                    sn_truth := None; sn_trail := 0 |}
    | NSentence s => canon_sentence None st s
    | NTask (s, b) => canon_sentence (Some (canon_nums (budget_list b), ki)) st s
    end.

  (* the keyword fmt_stamp (Model/EnumFormatter.v) prints for each kind *)
  Definition stamp_fmt_kw (k : stamp_arm) : str :=
    match k with
    | SAPast => sentence_stamp_past E
    | SAPresent => sentence_stamp_present E
    | SAFuture => sentence_stamp_future E
    | SAFixed => sentence_stamp_fixed E
    end.

  (* the formatter's keywords are the parser's: a finite check on the regenerated tables *)
  Definition fmt_tables_ok : bool :=
    str_eqb (space_format_terms E) (sp E kt) && str_eqb (space_format_items E) (sp E ki)
    && forallb (fun p => str_eqb (punct_kw E (punct_index p)) (fmt_punct E p) && nonempty (fmt_punct E p)
                         && match opunct (punct_index p) with Some q => spunct_eqb q p | None => false end)
               [Judgement; Goal; Question; Quest]
    && forallb (fun k => match stamp_kind (stamp_index k) with Some k' => sarm_eqb k' k | None => false end
                         && str_eqb (stamp_marker E (stamp_index k)) (stamp_fmt_kw k) && nonempty (stamp_fmt_kw k))
               [SAPast; SAPresent; SAFuture; SAFixed]
    && nonempty (sentence_truth_brackets_0 E).
End Canon.
