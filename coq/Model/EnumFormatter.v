(* Model/EnumFormatter.v -- the enum formatter (src/conversion/string/impl_enum/formatter.rs with
   common_narsese_templates.rs, nar_dev_utils join_lest_multiple_separators /
   add_space_if_necessary_and_flush_buffer).  Which keyword a constructor prints is read from
   the REGENERATED table fmt_arm_* (Gen/EnumArms.v); layout functions are recognised verbatim by
   the translator and written here by hand.  f64::to_string is the Section function fshow. *)
From Nv Require Export Model.Sentence Model.EnumFormat Gen.EnumArms Base.Dec.

(* ImageIterator over already formatted components *)
Fixpoint img_iter_gen {A} (ph : A) (now idx : N) (l : list A) : list A :=
  match l with
  | [] => if now =? idx then [ph] else []
  | x :: l' =>
      if now =? idx then ph :: x :: img_iter_gen ph (now + 2) idx l'
      else x :: img_iter_gen ph (now + 1) idx l'
  end.

Definition template_components (sep space : str) (items : list str) : str :=
  match items with
  | [] => []
  | x :: rest => x ++ concat (map (fun y => sep ++ space ++ y) rest)
  end.

Definition template_compound (l conn sep space r : str) (items : list str) : str :=
  l ++ conn ++ sep ++ space ++ template_components sep space items ++ r.

Definition template_compound_set (l sep space r : str) (items : list str) : str :=
  l ++ template_components sep space items ++ r.

Definition template_statement (l subj space cop pred r : str) : str :=
  l ++ subj ++ space ++ cop ++ space ++ pred ++ r.

(* join_lest_multiple_separators: the first element is pushed as it is; later empty ones are skipped *)
Definition join_lest (items : list str) (sep : str) : str :=
  match items with
  | [] => []
  | x :: rest => x ++ concat (map (fun y => match y with [] => [] | _ => sep ++ y end) rest)
  end.

Fixpoint join_with (sep : str) (items : list str) : str :=
  match items with
  | [] => []
  | [x] => x
  | x :: rest => x ++ sep ++ join_with sep rest
  end.

Section Fmt.
  Variable F : Type.
  Variable fshow : F -> str.
  Variable E : efmt.

  Definition arm_atom (a : fmt_arm) (name : str) : str :=
    match a with FmtAtom p => p E ++ name | _ => [] end.

  Definition arm_list (a : fmt_arm) (items : list str) : str :=
    match a with
    | FmtSet l r => template_compound_set (l E) (compound_separator E) (space_format_terms E) (r E) items
    | FmtCompound kw | FmtImage kw =>
        template_compound (compound_brackets_0 E) (kw E) (compound_separator E) (space_format_terms E)
                          (compound_brackets_1 E) items
    | _ => []
    end.

  Definition placeholder_str : str := arm_atom (fmt_arm_unit Placeholder) [].

  Definition arm_img (a : fmt_arm) (i : N) (items : list str) : str :=
    match a with
    | FmtImage _ => arm_list a (img_iter_gen placeholder_str 0 i items)
    | _ => arm_list a items
    end.

  Definition arm_box2 (a : fmt_arm) (x y : str) : str :=
    match a with
    | FmtStatement kw =>
        template_statement (statement_brackets_0 E) x (space_format_terms E) (kw E) y (statement_brackets_1 E)
    | _ => arm_list a [x; y]
    end.

  Fixpoint fmt_term (t : term) : str :=
    match t with
    | TName c n => arm_atom (fmt_arm_name c) n
    | TUnit c => arm_atom (fmt_arm_unit c) []
    | TNum c i => arm_atom (fmt_arm_num c) (show_N i)
    | TSet c l => arm_list (fmt_arm_set c) (map fmt_term l)
    | TVec c l => arm_list (fmt_arm_vec c) (map fmt_term l)
    | TImg c i l => arm_img (fmt_arm_img c) i (map fmt_term l)
    | TBox1 c a => arm_list (fmt_arm_box1 c) [fmt_term a]
    | TBox2 c a b => arm_box2 (fmt_arm_box2 c) (fmt_term a) (fmt_term b)
    end.

  Definition fmt_floats (l sep r : str) (fs : list F) : str := l ++ join_with sep (map fshow fs) ++ r.

  Definition fmt_truth (t : truthv F) : str :=
    match t with
    | TruthEmpty => []
    | _ => fmt_floats (sentence_truth_brackets_0 E) (sentence_truth_separator E) (sentence_truth_brackets_1 E) (truth_list t)
    end.

  Definition fmt_budget (b : budgetv F) : str :=
    fmt_floats (task_budget_brackets_0 E) (task_budget_separator E) (task_budget_brackets_1 E) (budget_list b).

  Definition fmt_stamp (s : stamp) : str :=
    match s with
    | Eternal => []
    | Past => sentence_stamp_brackets_0 E ++ sentence_stamp_past E ++ sentence_stamp_brackets_1 E
    | Present => sentence_stamp_brackets_0 E ++ sentence_stamp_present E ++ sentence_stamp_brackets_1 E
    | Future => sentence_stamp_brackets_0 E ++ sentence_stamp_future E ++ sentence_stamp_brackets_1 E
    | Fixed t => sentence_stamp_brackets_0 E ++ sentence_stamp_fixed E ++ show_Z t ++ sentence_stamp_brackets_1 E
    end.

  Definition fmt_punct (p : punct) : str :=
    match p with
    | Judgement => sentence_punctuation_judgement E
    | Goal => sentence_punctuation_goal E
    | Question => sentence_punctuation_question E
    | Quest => sentence_punctuation_quest E
    end.

  Definition fmt_sentence (s : sentence F) : str :=
    fmt_term (s_term s) ++
    join_lest [fmt_punct (s_punct s); fmt_stamp (s_stamp s);
               fmt_truth (match s_truth s with Some t => t | None => TruthEmpty end)]
              (space_format_terms E).

  (* add_space_if_necessary_and_flush_buffer *)
  Definition fmt_task (k : task F) : str :=
    let b := fmt_budget (snd k) in
    match fmt_sentence (fst k) with
    | [] => b
    | s => b ++ space_format_items E ++ s
    end.

  Definition fmt_narsese (v : narsese F) : str :=
    match v with
    | NTerm t => fmt_term t
    | NSentence s => fmt_sentence s
    | NTask k => fmt_task k
    end.
End Fmt.
