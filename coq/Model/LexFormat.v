(* Model/LexFormat.v -- the lexical format record (src/conversion/string/impl_lexical/format.rs)
   and the dictionaries of nar_dev_utils it is built from
   (str_processing/x_fix_match/{x_fix_dict,prefix_match,suffix_match,bi_fix_dict,impl_tuple}.rs).
   The three shipped instances are REGENERATED into Gen/LexFormats.v (translator table T2): raw
   keyword lists in SOURCE order; the order in which a dictionary tries its keywords is computed
   here the way the dependency does it (sorted insertion, iteration in descending code-point
   lexicographic order -- NOT longest first).  Definitions only. *)
From Nv Require Export Base.Str Model.EnumFormat.

(* `matches!(c, '0'..='9' | '+' | '-')` : inclusive ranges and single characters *)
Record char_class := { cc_ranges : list (N * N); cc_chars : list N }.

Fixpoint in_ranges_cc (ranges : list (N * N)) (c : N) : bool :=
  match ranges with
  | [] => false
  | (lo, hi) :: rest => ((lo <=? c) && (c <=? hi)) || in_ranges_cc rest c
  end.

Definition in_class (k : char_class) (c : N) : bool := in_ranges_cc (cc_ranges k) c || memb c (cc_chars k).

(* `space.is_for_parse`: the only shape the translator accepts is `char::is_whitespace` *)
Inductive space_pred := SpaceIsWhitespace.

Record lfmt := {
  l_space_is_for_parse : space_pred;
  l_remove_spaces_before_parse : bool;
  l_format_terms : str;
  l_format_items : str;
  l_prefixes_raw : list str;                 (* x_fix_match_dict!, source order *)
  l_is_identifier : name_char_spec;          (* fn is_identifier *)
  l_set_brackets_raw : list (str * str);     (* bi_fix_match_dict_pair!, source order *)
  l_compound_brackets : str * str;
  l_separator : str;
  l_connecters_raw : list str;
  l_statement_brackets : str * str;
  l_copulas_raw : list str;
  l_punctuations_raw : list str;
  l_truth_brackets : str * str;
  l_truth_separator : str;
  l_is_truth_content : char_class;
  l_stamp_brackets_raw : list (str * str);   (* suffix_match_dict_pair!, source order *)
  l_is_stamp_content : char_class;
  l_budget_brackets : str * str;
  l_budget_separator : str;
  l_is_budget_content : char_class
}.

(* char::is_whitespace = the 25 code points with the Unicode White_Space property
   (checked exhaustively against std by the harness: Gen/Unicode.v whitespace_ranges) *)
Definition white_space_points : list N :=
  [9; 10; 11; 12; 13; 32; 133; 160; 5760;
   8192; 8193; 8194; 8195; 8196; 8197; 8198; 8199; 8200; 8201; 8202;
   8232; 8233; 8239; 8287; 12288].
Definition is_whitespace (c : N) : bool := memb c white_space_points.

Definition space_for_parse (F : lfmt) (c : N) : bool :=
  match l_space_is_for_parse F with SpaceIsWhitespace => is_whitespace c end.

(* ---- XFixMatchDict: `insert` keeps `x_fixes` sorted ascending (String::cmp) and free of
   duplicates (`search` finds the position; the linear variant below is the crate's own
   non-`vec_tools` search and returns what its binary search returns on a sorted vector);
   `iter_x_fixes` = `x_fixes.iter().rev()`. ---- *)
Fixpoint xfix_insert (x : str) (d : list str) : list str :=
  match d with
  | [] => [x]
  | y :: d' =>
      match str_cmp x y with
      | Eq => d
      | Lt => x :: d
      | Gt => y :: xfix_insert x d'
      end
  end.

Definition xfix_build (raw : list str) : list str := fold_left (fun d x => xfix_insert x d) raw [].
(* the order in which match_prefix_char_slice / match_suffix_char_slice try the keywords *)
Definition xfix_iter (raw : list str) : list str := rev (xfix_build raw).

(* ---- PrefixMatchDictPair / SuffixMatchDictPair: kept sorted DESCENDING by the key
   (`search_by` with `cmp_prefix(existed, prefix)` = existed.cmp(target)), iterated forwards;
   an entry whose key is already present is dropped. ---- *)
Fixpoint pair_insert_desc (key : str * str -> str) (t : str * str) (d : list (str * str)) : list (str * str) :=
  match d with
  | [] => [t]
  | y :: d' =>
      match str_cmp (key y) (key t) with
      | Eq => d
      | Gt => y :: pair_insert_desc key t d'
      | Lt => t :: d
      end
  end.

(* SuffixMatchDictPair<String> (stamp brackets): key = the suffix = second component *)
Definition suffix_pair_build (raw : list (str * str)) : list (str * str) :=
  fold_left (fun d t => pair_insert_desc snd t d) raw [].
Definition suffix_pair_iter (raw : list (str * str)) : list (str * str) := suffix_pair_build raw.

(* BiFixMatchDictPair (set brackets): an entry is inserted only when its SUFFIX is new
   (search_suffix) and then only when its PREFIX is new (prefix_dict.insert); the parser only
   iterates the prefix dictionary (descending by prefix). *)
Definition bifix_insert (t : str * str) (d : list (str * str)) : list (str * str) :=
  if existsb (fun y => str_eqb (snd y) (snd t)) d then d else pair_insert_desc fst t d.
Definition bifix_build (raw : list (str * str)) : list (str * str) :=
  fold_left (fun d t => bifix_insert t d) raw [].
Definition bifix_prefix_iter (raw : list (str * str)) : list (str * str) := bifix_build raw.
(* suffix_terms of the same dictionary: the entries in descending order of the suffix *)
Definition bifix_suffix_iter (raw : list (str * str)) : list (str * str) :=
  fold_left (fun d t => pair_insert_desc snd t d) (bifix_build raw) [].

(* ---- the "compiled" format: what the lazy_static instance holds ---- *)
Record lcfmt := {
  c_fmt : lfmt;
  c_prefixes : list str;              (* iteration order *)
  c_set_brackets : list (str * str);  (* prefix iteration order *)
  c_connecters : list str;
  c_copulas : list str;
  c_punctuations : list str;
  c_stamp_brackets : list (str * str) (* suffix iteration order *)
}.

Definition compile (F : lfmt) : lcfmt := {|
  c_fmt := F;
  c_prefixes := xfix_iter (l_prefixes_raw F);
  c_set_brackets := bifix_prefix_iter (l_set_brackets_raw F);
  c_connecters := xfix_iter (l_connecters_raw F);
  c_copulas := xfix_iter (l_copulas_raw F);
  c_punctuations := xfix_iter (l_punctuations_raw F);
  c_stamp_brackets := suffix_pair_iter (l_stamp_brackets_raw F)
|}.

Definition is_identifier (F : lfmt) (is_alnum : N -> bool) (c : N) : bool :=
  (nc_alnum (l_is_identifier F) && is_alnum c) || memb c (nc_extra (l_is_identifier F)) ||
  match nc_above (l_is_identifier F) with Some t => t <? c | None => false end.
