(* Model/Number.v -- truth / budget values and the float evidence-number API
   (src/enum_narsese/sentence/truth.rs, task/budget.rs, api/data_structure/evidence_value.rs,
   nar_dev_utils::floats::ZeroOneFloat).  f64 is Flocq binary64; a stored number is its raw
   IEEE-754 bit pattern (Z in [0, 2^64)), so "returned unchanged" is equality of bit patterns
   and model and implementation are compared on raw bits. *)
From Coq Require Import ZArith List Bool.
From Flocq Require Import IEEE754.Binary IEEE754.Bits.
Import ListNotations.
From Nv Require Import Model.Access.

Definition f64 := binary64.
Definition of_bits (z : Z) : f64 := b64_of_bits z.

Definition f64_zero : f64 := of_bits 0%Z.
Definition f64_one : f64 := of_bits 0x3FF0000000000000%Z.

(* PartialOrd::le on f64 *)
Definition fle (a b : f64) : bool :=
  match Bcompare 53 1024 a b with
  | Some Lt | Some Eq => true
  | _ => false
  end.

(* (0.0..=1.0).contains(&x)  ==  0.0 <= x && x <= 1.0 *)
Definition is_in_01 (x : f64) : bool := fle f64_zero x && fle x f64_one.
Definition in01 (bits : Z) : bool := is_in_01 (of_bits bits).

(* ZeroOneFloat::try_validate_01 / validate_01 *)
Definition try_validate_01 (bits : Z) : res Z := if in01 bits then ROk bits else RErr.
Definition validate_01 (bits : Z) : res Z := if in01 bits then ROk bits else RPanic.

Definition rbind {A B} (r : res A) (f : A -> res B) : res B :=
  match r with ROk a => f a | RErr => RErr | RPanic => RPanic end.

(* ---- Truth ---- *)
Inductive truth := TrEmpty | TrSingle (f : Z) | TrDouble (f c : Z).

Definition truth_new_empty : res truth := ROk TrEmpty.
Definition truth_new_single (f : Z) : res truth := rbind (validate_01 f) (fun f => ROk (TrSingle f)).
Definition truth_new_double (f c : Z) : res truth :=
  rbind (validate_01 f) (fun f => rbind (validate_01 c) (fun c => ROk (TrDouble f c))).

(* try_from_floats consumes at most two items of the iterator *)
Definition truth_try_from_floats (l : list Z) : res truth :=
  match l with
  | [] => truth_new_empty
  | v :: l1 =>
      rbind (try_validate_01 v) (fun f =>
      match l1 with
      | [] => truth_new_single f
      | v2 :: _ => rbind (try_validate_01 v2) (fun c => truth_new_double f c)
      end)
  end.

Definition truth_f (t : truth) : res Z :=
  match t with TrSingle f | TrDouble f _ => ROk f | TrEmpty => RPanic end.
Definition truth_c (t : truth) : res Z :=
  match t with TrDouble _ c => ROk c | _ => RPanic end.

Definition truth_arity (t : truth) : nat :=
  match t with TrEmpty => 0 | TrSingle _ => 1 | TrDouble _ _ => 2 end.
Definition truth_values (t : truth) : list Z :=
  match t with TrEmpty => [] | TrSingle f => [f] | TrDouble f c => [f; c] end.

(* ---- Budget ---- *)
Inductive budget := BuEmpty | BuSingle (p : Z) | BuDouble (p d : Z) | BuTriple (p d q : Z).

Definition budget_new_empty : res budget := ROk BuEmpty.
Definition budget_new_single (p : Z) : res budget := rbind (validate_01 p) (fun p => ROk (BuSingle p)).
Definition budget_new_double (p d : Z) : res budget :=
  rbind (validate_01 p) (fun p => rbind (validate_01 d) (fun d => ROk (BuDouble p d))).
Definition budget_new_triple (p d q : Z) : res budget :=
  rbind (validate_01 p) (fun p => rbind (validate_01 d) (fun d => rbind (validate_01 q) (fun q => ROk (BuTriple p d q)))).

Definition budget_try_from_floats (l : list Z) : res budget :=
  match l with
  | [] => budget_new_empty
  | v :: l1 =>
      rbind (try_validate_01 v) (fun p =>
      match l1 with
      | [] => budget_new_single p
      | v2 :: l2 =>
          rbind (try_validate_01 v2) (fun d =>
          match l2 with
          | [] => budget_new_double p d
          | v3 :: _ => rbind (try_validate_01 v3) (fun q => budget_new_triple p d q)
          end)
      end)
  end.

Definition budget_is_empty (b : budget) : bool := match b with BuEmpty => true | _ => false end.
Definition budget_p (b : budget) : res Z :=
  match b with BuSingle p | BuDouble p _ | BuTriple p _ _ => ROk p | BuEmpty => RPanic end.
Definition budget_d (b : budget) : res Z :=
  match b with BuDouble _ d | BuTriple _ d _ => ROk d | _ => RPanic end.
Definition budget_q (b : budget) : res Z :=
  match b with BuTriple _ _ q => ROk q | _ => RPanic end.

Definition budget_arity (b : budget) : nat :=
  match b with BuEmpty => 0 | BuSingle _ => 1 | BuDouble _ _ => 2 | BuTriple _ _ _ => 3 end.
Definition budget_values (b : budget) : list Z :=
  match b with BuEmpty => [] | BuSingle p => [p] | BuDouble p d => [p; d] | BuTriple p d q => [p; d; q] end.

(* ---- EvidentNumber for f64 (blanket impl for ZeroOneFloat) ---- *)
Definition en_is_valid (bits : Z) : bool := in01 bits.
Definition en_try_validate (bits : Z) : res Z := try_validate_01 bits.
Definition en_validate (bits : Z) : res Z := validate_01 bits.
Definition en_zero : Z := 0%Z.
Definition en_one : Z := 0x3FF0000000000000%Z.

(* root(self, n) = self.powf(1.0 / (n as f64)).  powf is libm: a Section function of the bit
   patterns, with the contract that it maps [0,1] x [0,+inf] into [0,1] (assumed; sampled on
   the real code by the harness).  [recip n] is the bit pattern of 1.0 / (n as f64). *)
Section Root.
  Variable powf : Z -> Z -> Z.
  Variable recip : N -> Z.
  Definition en_root (x : Z) (n : N) : Z := powf x (recip n).
End Root.
