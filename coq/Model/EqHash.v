(* Model/EqHash.v -- `impl PartialEq for Term` and `impl Hash for Term`
   (src/enum_narsese/term/impls.rs), driven by the regenerated eqk_* / hashk_* tables.
   std::collections::HashSet itself is trusted to be a correct set for lawful Hash/Eq:
   `HashSet == HashSet` is "same length and every element of the left is contained in the right",
   `insert` keeps the first of two equal elements.  That Term's Hash/Eq ARE lawful is C06/C07. *)
From Nv Require Export Model.Term.

Definition eq1 (k : eq_kind) (payload_eq : bool) : bool :=
  match k with EqAlways => true | EqPayload => payload_eq | _ => false end.

Definition list_eqb {A} (f : A -> A -> bool) : list A -> list A -> bool :=
  fix go (l l' : list A) : bool :=
  match l, l' with
  | [], [] => true
  | x :: l1, y :: l1' => f x y && go l1 l1'
  | _, _ => false
  end.

Fixpoint term_eqb (a b : term) {struct a} : bool :=
  match a, b with
  | TName c n, TName c' n' => name_ctor_eqb c c' && eq1 (eqk_name c) (str_eqb n n')
  | TUnit c, TUnit c' => unit_ctor_eqb c c' && eq1 (eqk_unit c) true
  | TNum c i, TNum c' i' => num_ctor_eqb c c' && eq1 (eqk_num c) (N.eqb i i')
  | TSet c l, TSet c' l' =>
      set_ctor_eqb c c' &&
      eq1 (eqk_set c) (Nat.eqb (length l) (length l') && forallb (fun k => existsb (fun e => term_eqb k e) l') l)
  | TVec c l, TVec c' l' => vec_ctor_eqb c c' && eq1 (eqk_vec c) (list_eqb (fun x y => term_eqb x y) l l')
  | TImg c i l, TImg c' i' l' =>
      img_ctor_eqb c c' &&
      match eqk_img c with
      | EqAlways => true
      | EqPayload => N.eqb i i' && list_eqb (fun x y => term_eqb x y) l l'
      | EqIndexOnly => N.eqb i i'
      | EqVecOnly => list_eqb (fun x y => term_eqb x y) l l'
      | _ => false
      end
  | TBox1 c x, TBox1 c' x' => box1_ctor_eqb c c' && eq1 (eqk_box1 c) (term_eqb x x')
  | TBox2 c x y, TBox2 c' x' y' =>
      box2_ctor_eqb c c' &&
      match eqk_box2 c with
      | EqAlways => true
      | EqPayload => term_eqb x x' && term_eqb y y'
      | EqSymmetric => (term_eqb x x' && term_eqb y y') || (term_eqb x y' && term_eqb y x')
      | _ => false
      end
  | _, _ => false
  end.

(* membership / set construction up to term_eqb: HashSet::contains, HashSet::insert *)
Definition set_mem (x : term) (l : list term) : bool := existsb (fun e => term_eqb x e) l.
Definition set_insert (l : list term) (x : term) : list term := if set_mem x l then l else l ++ [x].
Definition mk_set (l : list term) : list term := fold_left set_insert l [].
Definition set_extend (l news : list term) : list term := fold_left set_insert news l.

(* duplicate-freeness up to term_eqb, at every level: the representation invariant of set payloads *)
Fixpoint nodup_eqb (l : list term) : bool :=
  match l with
  | [] => true
  | x :: l' => negb (set_mem x l') && nodup_eqb l'
  end.

Fixpoint set_ok (t : term) : bool :=
  match t with
  | TName _ _ | TUnit _ | TNum _ _ => true
  | TSet _ l => forallb set_ok l && nodup_eqb l
  | TVec _ l | TImg _ _ l => forallb set_ok l
  | TBox1 _ a => set_ok a
  | TBox2 _ a b => set_ok a && set_ok b
  end.

(* ---- Hash ----
   The hasher is abstract.  [term_feed t] is the sequence of writes `t.hash(state)` performs.
   An order-independent arm hashes every element with a FIXED hasher ([fixed_hash], = DefaultHasher::new()
   applied to the element's feed), adds the 64-bit results with wrapping addition and writes the sum. *)
Inductive hitem := HStr (s : str) | HNum (n : N) | HSum (n : N).

Definition two64 : N := 18446744073709551616.
Definition wsum (l : list N) : N := fold_right (fun x acc => (x + acc) mod two64) 0 l.

Section Hash.
  Variable fixed_hash : list hitem -> N.

  Definition feed_unordered (feeds : list (list hitem)) : list hitem :=
    [HSum (wsum (map fixed_hash feeds))].

  Fixpoint term_feed (t : term) : list hitem :=
    match t with
    | TName c n => match hashk_name c with HashPayload => [HStr n] | HashConst => [HStr [95]] | _ => [] end
    | TUnit c => match hashk_unit c with HashConst => [HStr [95]] | _ => [] end
    | TNum c i => match hashk_num c with HashPayload => [HNum i] | HashConst => [HStr [95]] | _ => [] end
    | TSet c l =>
        match hashk_set c with
        | HashUnordered => feed_unordered (map term_feed l)
        | HashOrdered | HashPayload => concat (map term_feed l)
        | HashConst => [HStr [95]]
        | _ => []
        end
    | TVec c l =>
        match hashk_vec c with
        | HashUnordered => feed_unordered (map term_feed l)
        | HashOrdered | HashPayload => concat (map term_feed l)
        | HashConst => [HStr [95]]
        | _ => []
        end
    | TImg c i l =>
        match hashk_img c with
        | HashIndexThenOrdered => HNum i :: concat (map term_feed l)
        | HashOrderedNoIndex | HashOrdered => concat (map term_feed l)
        | HashUnordered => feed_unordered (map term_feed l)
        | HashConst => [HStr [95]]
        | HashPayload => [HNum i]
        end
    | TBox1 c a => match hashk_box1 c with HashPayload | HashOrdered => term_feed a | HashConst => [HStr [95]] | _ => [] end
    | TBox2 c a b =>
        match hashk_box2 c with
        | HashOrdered | HashPayload => term_feed a ++ term_feed b
        | HashUnordered => feed_unordered [term_feed a; term_feed b]
        | HashConst => [HStr [95]]
        | _ => []
        end
    end.
End Hash.
