(* Model/Readme.v -- the PEG grammar published in README.md ("Standard ASCII Lexicon", a pest grammar)
   and an executable PEG interpreter with pest's semantics (property C11).  Definitions only.

   1. PEG AST (the subset of pest the README uses; the translator table T7 fails closed on the rest)
   2. `expected_grammar`: the reference grammar, written out by hand from README.md and pinned
      (Proofs/ReadmeP.v `readme_pinned : readme_grammar = expected_grammar`, the left side being
      regenerated from the README on every run)
   3. `run` / `rep` / `skipw`: the interpreter on fuel, returning parse TREES (rule name, matched
      text, children) -- generic in the grammar, so it interprets the regenerated value itself
   4. conversion of a parse tree of the README grammar into the lexical model values
      `lterm / lsentence / ltask / lnarsese` (Model/Access.v, Model/Sentence.v), `readme_parse`
   5. the concrete Unicode classes (range tables of Gen/ReadmeUnicode.v, Gen/Unicode.v)
   6. `name_ok_readme` (the decidable exclusion of the known class K4), well-formedness of lexical
      values for C11, a model of the lexical formatter, the enum -> lexical tree map `lex_of_term`
   7. the OpenNARS ASCII lexicon, written out independently.

   pest semantics implemented (pest 2.x, generator + ParserState):
   * `a ~ b` = sequence(a, skip, b); `e*` = optional(e, repeat(sequence(skip, e))); `e+` is unrolled
     to `e ~ e*` (pest's optimizer), so it skips -- and keeps the skipped text -- after the first `e`
     even when nothing follows; `e?` = optional; `|` ordered choice, no backtracking into a
     repetition or into an earlier successful alternative; `!e` / `&e` look-ahead (no input consumed,
     no tokens produced);
   * skip = repeat(WHITESPACE) when the atomicity is NonAtomic and the grammar defines WHITESPACE,
     nothing otherwise (a COMMENT rule is rejected by the translator); WHITESPACE itself runs atomically;
   * rule modifiers: `@` runs its body with atomicity Atomic, `$` CompoundAtomic, `!` NonAtomic, a normal
     or silent rule inherits the caller's atomicity; the previous atomicity is restored on exit;
   * a rule produces a tree node unless it is silent or -- for normal and `@` rules -- the CALLER is
     atomic (ParserState::rule tests the atomicity before an `@` rule switches it); `$` and `!` rules
     switch first and therefore always produce a node; built-in rules produce no node;
   * a failing alternative / sequence restores the position and drops the nodes produced inside it;
   * whole-input match: the entry is evaluated as `SOI ~ entry ~ EOI` in a non-atomic context
     (pest's `parse(Rule::entry, s)` alone would accept a prefix).
   A repetition whose operand can succeed without consuming input loops in pest (pest_meta rejects
   such grammars); here it runs out of fuel (`PFuel`). *)
From Coq Require Import String Ascii.
From Nv Require Export Model.EnumFormatter.
From Nv Require Import Gen.ReadmeUnicode Gen.Unicode Gen.ReadmeLexAscii Gen.EnumFormats.
Open Scope N_scope.

(* ASCII string literal -> str (code points) *)
Fixpoint ss (s : string) : str :=
  match s with
  | EmptyString => []
  | String a r => N_of_ascii a :: ss r
  end.

(* ------------------------------------------------------------------------------------------ *)
(* 1. PEG abstract syntax                                                                      *)
(* ------------------------------------------------------------------------------------------ *)
Inductive modifier := MNormal | MSilent | MAtomic | MCompound | MNonAtomic.
(* built-in character classes: ASCII_DIGIT, and the Unicode general categories / property
   LETTER (L), NUMBER (N), PUNCTUATION (P), SYMBOL (S), WHITE_SPACE *)
Inductive uclass := UAsciiDigit | ULetter | UNumber | UPunctuation | USymbol | UWhiteSpace.

Inductive pexpr :=
| PStr (lit : str)               (* "..."  (the empty literal always matches) *)
| PRange (lo hi : N)             (* 'a'..'z' *)
| PAny                           (* ANY *)
| PSoi                           (* SOI *)
| PEoi                           (* EOI *)
| PClass (c : uclass)            (* built-in class *)
| PRef (rule : str)              (* reference to a rule of the grammar *)
| PSeq (a b : pexpr)             (* a ~ b *)
| PChoice (a b : pexpr)          (* a | b *)
| PStar (e : pexpr)              (* e* *)
| PPlus (e : pexpr)              (* e+ *)
| POpt (e : pexpr)               (* e? *)
| PNot (e : pexpr)               (* !e *)
| PAnd (e : pexpr).              (* &e *)

Record prule := { pr_name : str; pr_mod : modifier; pr_body : pexpr }.
Definition grammar := list prule.

(* ------------------------------------------------------------------------------------------ *)
(* 2. the reference grammar (README.md, section "Standard ASCII Lexicon"), written out by hand  *)
(* ------------------------------------------------------------------------------------------ *)
Declare Scope peg_scope.
Delimit Scope peg_scope with peg.
Notation "a ~~ b" := (PSeq a b) (at level 45, right associativity) : peg_scope.
Notation "a |/ b" := (PChoice a b) (at level 56, right associativity) : peg_scope.

Definition lit (s : string) : pexpr := PStr (ss s).
Definition ref (s : string) : pexpr := PRef (ss s).
Definition rule (name : string) (m : modifier) (body : pexpr) : prule :=
  {| pr_name := ss name; pr_mod := m; pr_body := body |}.

Definition LETTER := PClass ULetter.
Definition NUMBER := PClass UNumber.
Definition PUNCTUATION := PClass UPunctuation.
Definition SYMBOL := PClass USymbol.
Definition WHITE_SPACE := PClass UWhiteSpace.
Definition ASCII_DIGIT := PClass UAsciiDigit.

(* truth_budget_term ~ (";" ~ truth_budget_term)* ~ ";"*   (shared by budget_content and truth) *)
Definition number_list : pexpr :=
  (ref "truth_budget_term" ~~ PStar (lit ";" ~~ ref "truth_budget_term") ~~ PStar (lit ";"))%peg.
(* ("," ~ term)* *)
Definition more_terms : pexpr := PStar (lit "," ~~ ref "term")%peg.

Definition expected_grammar : grammar := [
  (* WHITESPACE = _{ WHITE_SPACE } *)
  rule "WHITESPACE" MSilent WHITE_SPACE;
  (* narsese = { task | sentence | term } *)
  rule "narsese" MNormal (ref "task" |/ ref "sentence" |/ ref "term")%peg;
  (* task = { budget ~ sentence } *)
  rule "task" MNormal (ref "budget" ~~ ref "sentence")%peg;
  (* budget = { "$" ~ budget_content ~ "$" } *)
  rule "budget" MNormal (lit "$" ~~ ref "budget_content" ~~ lit "$")%peg;
  (* budget_content = { (truth_budget_term ~ (";" ~ truth_budget_term)* ~ ";"* ) | "" } *)
  rule "budget_content" MNormal (number_list |/ lit "")%peg;
  (* truth_budget_term = @{ (ASCII_DIGIT | ".")+ } *)
  rule "truth_budget_term" MAtomic (PPlus (ASCII_DIGIT |/ lit "."))%peg;
  (* sentence = { term ~ punctuation ~ stamp? ~ truth? } *)
  rule "sentence" MNormal (ref "term" ~~ ref "punctuation" ~~ POpt (ref "stamp") ~~ POpt (ref "truth"))%peg;
  (* term = { statement | compound | atom } *)
  rule "term" MNormal (ref "statement" |/ ref "compound" |/ ref "atom")%peg;
  (* statement = { "<" ~ term ~ copula ~ term ~ ">" } *)
  rule "statement" MNormal (lit "<" ~~ ref "term" ~~ ref "copula" ~~ ref "term" ~~ lit ">")%peg;
  (* copula = @{ (punct_sym ~ "-" ~ punct_sym) | (punct_sym ~ "=" ~ punct_sym) | ("=" ~ punct_sym ~ ">") | ("<" ~ punct_sym ~ ">") } *)
  rule "copula" MAtomic
    ((ref "punct_sym" ~~ lit "-" ~~ ref "punct_sym")
     |/ (ref "punct_sym" ~~ lit "=" ~~ ref "punct_sym")
     |/ (lit "=" ~~ ref "punct_sym" ~~ lit ">")
     |/ (lit "<" ~~ ref "punct_sym" ~~ lit ">"))%peg;
  (* punct_sym = { (PUNCTUATION | SYMBOL) } *)
  rule "punct_sym" MNormal (PUNCTUATION |/ SYMBOL)%peg;
  (* compound = { ("(" ~ connecter ~ "," ~ term ~ ("," ~ term)* ~ ")") | ("{" ~ term ~ ("," ~ term)* ~ "}") | ("[" ~ term ~ ("," ~ term)* ~ "]") } *)
  rule "compound" MNormal
    ((lit "(" ~~ ref "connecter" ~~ lit "," ~~ ref "term" ~~ more_terms ~~ lit ")")
     |/ (lit "{" ~~ ref "term" ~~ more_terms ~~ lit "}")
     |/ (lit "[" ~~ ref "term" ~~ more_terms ~~ lit "]"))%peg;
  (* connecter = @{ punct_sym ~ (!"," ~ punct_sym)* } *)
  rule "connecter" MAtomic (ref "punct_sym" ~~ PStar (PNot (lit ",") ~~ ref "punct_sym"))%peg;
  (* atom = { "_"+ | (atom_prefix ~ atom_content) | atom_content } *)
  rule "atom" MNormal (PPlus (lit "_") |/ (ref "atom_prefix" ~~ ref "atom_content") |/ ref "atom_content")%peg;
  (* atom_prefix = @{ punct_sym+ } *)
  rule "atom_prefix" MAtomic (PPlus (ref "punct_sym"));
  (* atom_content = @{ atom_char ~ (!copula ~ atom_char)* } *)
  rule "atom_content" MAtomic (ref "atom_char" ~~ PStar (PNot (ref "copula") ~~ ref "atom_char"))%peg;
  (* atom_char = { LETTER | NUMBER | "_" | "-" } *)
  rule "atom_char" MNormal (LETTER |/ NUMBER |/ lit "_" |/ lit "-")%peg;
  (* punctuation = { (PUNCTUATION | SYMBOL) } *)
  rule "punctuation" MNormal (PUNCTUATION |/ SYMBOL)%peg;
  (* stamp = { ":" ~ (!":" ~ ANY)+ ~ ":" } *)
  rule "stamp" MNormal (lit ":" ~~ PPlus (PNot (lit ":") ~~ PAny) ~~ lit ":")%peg;
  (* truth = { "%" ~ (truth_budget_term ~ (";" ~ truth_budget_term)* ~ ";"* ) ~ "%" } *)
  rule "truth" MNormal (lit "%" ~~ number_list ~~ lit "%")%peg
].

(* ------------------------------------------------------------------------------------------ *)
(* 3. the interpreter                                                                          *)
(* ------------------------------------------------------------------------------------------ *)
Inductive atomicity := NonAtomic | Atomic | CompoundAtomic.

(* a node: the rule, the text it matched (start to end position, whitespace included), the nodes
   produced inside it *)
Inductive tree := Node (rule : str) (text : str) (kids : list tree).

(* PFail: no match; PFuel: out of fuel; PStuck: reference to an undefined rule;
   POk rest kids: match, `rest` is the input that remains *)
Inductive pres := PFail | PFuel | PStuck | POk (rest : str) (kids : list tree).

Fixpoint find_rule (g : grammar) (name : str) : option prule :=
  match g with
  | [] => None
  | r :: g' => if str_eqb (pr_name r) name then Some r else find_rule g' name
  end.

Definition ws_name : str := ss "WHITESPACE".

(* the atomicity the body of a rule runs with *)
Definition enter (m : modifier) (name : str) (a : atomicity) : atomicity :=
  if str_eqb name ws_name then Atomic
  else match m with
       | MAtomic => Atomic
       | MCompound => CompoundAtomic
       | MNonAtomic => NonAtomic
       | MNormal | MSilent => a
       end.

(* does a successful call of the rule produce a node? (a = atomicity of the caller) *)
Definition emits (m : modifier) (a : atomicity) : bool :=
  match m with
  | MSilent => false
  | MNormal | MAtomic => match a with Atomic => false | _ => true end
  | MCompound | MNonAtomic => true
  end.

(* the text between two positions, the second given as the remaining input *)
Definition consumed (s s' : str) : str := take (length s - length s') s.

Section Peg.
  Variable ucls : uclass -> N -> bool.
  Variable G : grammar.
  Variable n0 : nat.                       (* length of the whole input (for SOI) *)

  Definition has_ws : bool := match find_rule G ws_name with Some _ => true | None => false end.

  Fixpoint run (fuel : nat) (e : pexpr) (a : atomicity) (s : str) {struct fuel} : pres :=
    match fuel with
    | O => PFuel
    | S f =>
      match e with
      | PStr l => if starts l s then POk (drop (length l) s) [] else PFail
      | PRange lo hi =>
          match s with
          | c :: r => if (lo <=? c) && (c <=? hi) then POk r [] else PFail
          | [] => PFail
          end
      | PAny => match s with _ :: r => POk r [] | [] => PFail end
      | PSoi => if Nat.eqb (length s) n0 then POk s [] else PFail
      | PEoi => match s with [] => POk s [] | _ :: _ => PFail end
      | PClass c =>
          match s with
          | x :: r => if ucls c x then POk r [] else PFail
          | [] => PFail
          end
      | PRef name =>
          match find_rule G name with
          | None => PStuck
          | Some r =>
              match run f (pr_body r) (enter (pr_mod r) name a) s with
              | POk s' kids =>
                  if emits (pr_mod r) a then POk s' [Node name (consumed s s') kids] else POk s' kids
              | other => other
              end
          end
      | PSeq x y =>
          match run f x a s with
          | POk s1 k1 =>
              match skipw f a s1 with
              | POk s2 kw =>
                  match run f y a s2 with
                  | POk s3 k2 => POk s3 (k1 ++ kw ++ k2)
                  | other => other
                  end
              | other => other
              end
          | other => other
          end
      | PChoice x y =>
          match run f x a s with
          | PFail => run f y a s
          | other => other
          end
      | PStar x =>
          match run f x a s with
          | PFail => POk s []
          | POk s1 k1 =>
              match rep f x a s1 with
              | POk s2 k2 => POk s2 (k1 ++ k2)
              | other => other
              end
          | other => other
          end
      | PPlus x => run f (PSeq x (PStar x)) a s
      | POpt x =>
          match run f x a s with
          | PFail => POk s []
          | other => other
          end
      | PNot x =>
          match run f x a s with
          | PFail => POk s []
          | POk _ _ => PFail
          | other => other
          end
      | PAnd x =>
          match run f x a s with
          | POk _ _ => POk s []
          | other => other
          end
      end
    end
  (* repeat(sequence(skip, x)): the tail of `x*` after its first match *)
  with rep (fuel : nat) (x : pexpr) (a : atomicity) (s : str) {struct fuel} : pres :=
    match fuel with
    | O => PFuel
    | S f =>
      match skipw f a s with
      | POk s1 kw =>
          match run f x a s1 with
          | PFail => POk s []
          | POk s2 k =>
              match rep f x a s2 with
              | POk s3 k' => POk s3 (kw ++ k ++ k')
              | other => other
              end
          | other => other
          end
      | other => other
      end
    end
  (* the implicit skip between the operands of `~` and the iterations of a repetition *)
  with skipw (fuel : nat) (a : atomicity) (s : str) {struct fuel} : pres :=
    match fuel with
    | O => PFuel
    | S f =>
      match a with
      | NonAtomic =>
          if has_ws then
            match run f (PRef ws_name) NonAtomic s with
            | PFail => POk s []
            | POk s1 k =>
                match skipw f a s1 with
                | POk s2 k' => POk s2 (k ++ k')
                | other => other
                end
            | other => other
            end
          else POk s []
      | Atomic | CompoundAtomic => POk s []
      end
    end.
End Peg.

(* whole-input match of rule `entry` *)
Definition parse_with (ucls : uclass -> N -> bool) (G : grammar) (fuel : nat) (entry : str) (input : str) : pres :=
  run ucls G (length input) fuel (PSeq PSoi (PSeq (PRef entry) PEoi)) NonAtomic input.

(* all references defined, rule names pairwise distinct *)
Fixpoint refs_of (e : pexpr) : list str :=
  match e with
  | PRef r => [r]
  | PSeq a b | PChoice a b => refs_of a ++ refs_of b
  | PStar x | PPlus x | POpt x | PNot x | PAnd x => refs_of x
  | _ => []
  end.
Fixpoint literals_of (e : pexpr) : list str :=
  match e with
  | PStr l => [l]
  | PSeq a b | PChoice a b => literals_of a ++ literals_of b
  | PStar x | PPlus x | POpt x | PNot x | PAnd x => literals_of x
  | _ => []
  end.
Definition str_mem (x : str) (l : list str) : bool := existsb (str_eqb x) l.
Fixpoint str_nodup (l : list str) : bool :=
  match l with [] => true | x :: l' => negb (str_mem x l') && str_nodup l' end.
Definition grammar_closed (g : grammar) : bool :=
  str_nodup (map pr_name g) &&
  forallb (fun r => forallb (fun n => str_mem n (map pr_name g)) (refs_of (pr_body r))) g.
Definition grammar_literals (g : grammar) : list str := flat_map (fun r => literals_of (pr_body r)) g.

(* ------------------------------------------------------------------------------------------ *)
(* 4. parse tree of the README grammar -> lexical values                                       *)
(* ------------------------------------------------------------------------------------------ *)
Definition tree_rule (t : tree) : str := match t with Node r _ _ => r end.
Definition tree_text (t : tree) : str := match t with Node _ x _ => x end.
Definition tree_kids (t : tree) : list tree := match t with Node _ _ k => k end.
Definition is_rule (t : tree) (name : string) : bool := str_eqb (tree_rule t) (ss name).

(* all-or-nothing map *)
Definition map_opt {A B} (f : A -> option B) : list A -> option (list B) :=
  fix go (l : list A) : option (list B) :=
    match l with
    | [] => Some []
    | k :: l' => match f k, go l' with
                 | Some x, Some xs => Some (x :: xs)
                 | _, _ => None
                 end
    end.

Section Convert.
  Variable ucls : uclass -> N -> bool.

  (* what the library's lexical parser sees: every whitespace character removed *)
  Definition strip_ws (s : str) : str := filter (fun c => negb (ucls UWhiteSpace c)) s.

  Fixpoint lterm_of_tree (t : tree) : option lterm :=
    match t with
    | Node r txt kids =>
      if str_eqb r (ss "term") then
        match kids with [k] => lterm_of_tree k | _ => None end
      else if str_eqb r (ss "atom") then
        match kids with
        | [] =>  (* "_"+ : the placeholder; further underscores are what the library takes as its name *)
            match strip_ws txt with
            | c :: rest => if (c =? 95) && forallb (N.eqb 95) rest then Some (LAtom [95] rest) else None
            | [] => None
            end
        | [Node rc c []] => if str_eqb rc (ss "atom_content") then Some (LAtom [] c) else None
        | [Node rp p []; Node rc c []] =>
            if str_eqb rp (ss "atom_prefix") && str_eqb rc (ss "atom_content") then Some (LAtom p c) else None
        | _ => None
        end
      else if str_eqb r (ss "statement") then
        match kids with
        | [x; Node rc c []; y] =>
            if str_eqb rc (ss "copula") then
              match lterm_of_tree x, lterm_of_tree y with
              | Some lx, Some ly => Some (LStatement c lx ly)
              | _, _ => None
              end
            else None
        | _ => None
        end
      else if str_eqb r (ss "compound") then
        let go := map_opt lterm_of_tree in
        match txt with
        | 40 :: _ =>   (* "(" connecter "," term ... ")" *)
            match kids with
            | Node rc c [] :: ts =>
                if str_eqb rc (ss "connecter") then
                  match go ts with Some xs => Some (LCompound c xs) | None => None end
                else None
            | _ => None
            end
        | 123 :: _ => match go kids with Some xs => Some (LSet [123] xs [125]) | None => None end
        | 91 :: _ => match go kids with Some xs => Some (LSet [91] xs [93]) | None => None end
        | _ => None
        end
      else None
    end.

  (* the numbers of a `truth` node / of the `budget_content` node: its truth_budget_term children *)
  Definition numbers_of (kids : list tree) : option (list str) :=
    if forallb (fun k => is_rule k "truth_budget_term") kids then Some (map tree_text kids) else None.

  Definition lsentence_of_tree (t : tree) : option lsentence :=
    match t with
    | Node r _ (tm :: Node rp p [] :: rest) =>
        if str_eqb r (ss "sentence") && str_eqb rp (ss "punctuation") then
          match lterm_of_tree tm with
          | None => None
          | Some x =>
              let mk (st : str) (tr : list str) :=
                Some {| ls_term := x; ls_punct := p; ls_stamp := st; ls_truth := tr |} in
              match rest with
              | [] => mk [] []
              | [Node r1 t1 k1] =>
                  if str_eqb r1 (ss "stamp") then match k1 with [] => mk (strip_ws t1) [] | _ => None end
                  else if str_eqb r1 (ss "truth") then
                    match numbers_of k1 with Some tr => mk [] tr | None => None end
                  else None
              | [Node r1 t1 []; Node r2 _ k2] =>
                  if str_eqb r1 (ss "stamp") && str_eqb r2 (ss "truth") then
                    match numbers_of k2 with Some tr => mk (strip_ws t1) tr | None => None end
                  else None
              | _ => None
              end
          end
        else None
    | _ => None
    end.

  Definition ltask_of_tree (t : tree) : option ltask :=
    match t with
    | Node r _ [Node rb _ [Node rc _ nums]; s] =>
        if str_eqb r (ss "task") && str_eqb rb (ss "budget") && str_eqb rc (ss "budget_content") then
          match numbers_of nums, lsentence_of_tree s with
          | Some b, Some x => Some {| lt_budget := b; lt_sentence := x |}
          | _, _ => None
          end
        else None
    | _ => None
    end.

  (* the child of the `narsese` node decides the kind *)
  Definition lnarsese_of_tree (t : tree) : option lnarsese :=
    if is_rule t "task" then option_map NTask (ltask_of_tree t)
    else if is_rule t "sentence" then option_map NSentence (lsentence_of_tree t)
    else if is_rule t "term" then option_map NTerm (lterm_of_tree t)
    else None.

  Inductive rres :=
  | RValue (v : lnarsese)     (* a sentence of the grammar; kind and tree *)
  | RReject                   (* not a sentence of the grammar *)
  | RNoFuel
  | RStuck
  | RBadTree.                 (* accepted, but the tree is not of the expected shape (never for the README grammar) *)

  Definition fuel_for (input : str) : nat := 100 + 20 * length input.

  Definition readme_parse_with (G : grammar) (fuel : nat) (input : str) : rres :=
    match parse_with ucls G fuel (ss "narsese") input with
    | POk [] [Node r _ [k]] =>
        if str_eqb r (ss "narsese") then
          match lnarsese_of_tree k with Some v => RValue v | None => RBadTree end
        else RBadTree
    | POk _ _ => RBadTree
    | PFail => RReject
    | PFuel => RNoFuel
    | PStuck => RStuck
    end.

  (* -------------------------------------------------------------------------------------- *)
  (* 6a. names: the characters of the grammar and the exclusion of the known class K4        *)
  (* -------------------------------------------------------------------------------------- *)
  Definition atom_charb (c : N) : bool := ucls ULetter c || ucls UNumber c || (c =? 95) || (c =? 45).
  Definition punct_symb (c : N) : bool := ucls UPunctuation c || ucls USymbol c.
  Definition us_dash (c : N) : bool := (c =? 95) || (c =? 45).

  (* K4: a `-` whose two neighbours are `-` or `_`: the generic `copula` rule matches there *)
  Fixpoint k4_free (s : str) : bool :=
    match s with
    | x :: ((y :: z :: _) as r) => negb (us_dash x && (y =? 45) && us_dash z) && k4_free r
    | _ => true
    end.

  Fixpoint last_is_dash (s : str) : bool :=
    match s with
    | [] => false
    | [c] => c =? 45
    | _ :: r => last_is_dash r
    end.

  (* names for which C11 is claimed: non-empty, characters that are atom_chars of the grammar
     (they are library identifiers too), not starting with `_` or `-`, not ending with `-`
     (the library's own well-formedness), and free of the K4 pattern *)
  Definition name_ok_readme (n : str) : bool :=
    match n with
    | [] => false
    | c :: _ => negb (us_dash c)
    end && forallb atom_charb n && negb (last_is_dash n) && k4_free n.
End Convert.

(* ------------------------------------------------------------------------------------------ *)
(* 5. the concrete Unicode classes                                                              *)
(* ------------------------------------------------------------------------------------------ *)
Fixpoint rng_mem (ranges : list (N * N)) (c : N) : bool :=
  match ranges with
  | [] => false
  | (lo, hi) :: rest => ((lo <=? c) && (c <=? hi)) || rng_mem rest c
  end.

(* L / N / P / S from Gen/ReadmeUnicode.v (Python unicodedata), White_Space from Gen/Unicode.v
   (Rust std char::is_whitespace); ASCII fast path first *)
Definition ucls_tab (k : uclass) (c : N) : bool :=
  match k with
  | UAsciiDigit => (48 <=? c) && (c <=? 57)
  | ULetter => rng_mem letter_ranges c
  | UNumber => rng_mem number_ranges c
  | UPunctuation => rng_mem punctuation_ranges c
  | USymbol => rng_mem symbol_ranges c
  | UWhiteSpace => rng_mem whitespace_ranges c
  end.

Definition readme_parse_g (G : grammar) (input : str) : rres :=
  readme_parse_with ucls_tab G (fuel_for input) input.
Definition readme_parse (input : str) : rres := readme_parse_g expected_grammar input.

(* ------------------------------------------------------------------------------------------ *)
(* 6b. lexical values: well-formedness for C11, the lexical formatter, enum -> lexical          *)
(* ------------------------------------------------------------------------------------------ *)
(* layout strings of the lexical formatter (src/conversion/string/impl_lexical/formatter.rs reads
   them from the lexical format; connecters, copulas, set brackets, prefixes, punctuation and
   stamp come from the VALUE) *)
Record llayout := {
  ll_cb0 : str; ll_cb1 : str; ll_sep : str; ll_sp_terms : str; ll_sp_items : str;
  ll_sb0 : str; ll_sb1 : str; ll_tb0 : str; ll_tb1 : str; ll_tsep : str;
  ll_bb0 : str; ll_bb1 : str; ll_bsep : str
}.

Definition lex_ascii_layout : llayout := {|
  ll_cb0 := fst lex_ascii_brackets; ll_cb1 := snd lex_ascii_brackets; ll_sep := lex_ascii_separator;
  ll_sp_terms := lex_ascii_space_format_terms; ll_sp_items := lex_ascii_space_format_items;
  ll_sb0 := fst lex_ascii_statement_brackets; ll_sb1 := snd lex_ascii_statement_brackets;
  ll_tb0 := fst lex_ascii_truth_brackets; ll_tb1 := snd lex_ascii_truth_brackets; ll_tsep := lex_ascii_truth_separator;
  ll_bb0 := fst lex_ascii_budget_brackets; ll_bb1 := snd lex_ascii_budget_brackets; ll_bsep := lex_ascii_budget_separator
|}.

Definition layout_of_efmt (E : efmt) : llayout := {|
  ll_cb0 := compound_brackets_0 E; ll_cb1 := compound_brackets_1 E; ll_sep := compound_separator E;
  ll_sp_terms := space_format_terms E; ll_sp_items := space_format_items E;
  ll_sb0 := statement_brackets_0 E; ll_sb1 := statement_brackets_1 E;
  ll_tb0 := sentence_truth_brackets_0 E; ll_tb1 := sentence_truth_brackets_1 E; ll_tsep := sentence_truth_separator E;
  ll_bb0 := task_budget_brackets_0 E; ll_bb1 := task_budget_brackets_1 E; ll_bsep := task_budget_separator E
|}.

Section LexFmt.
  Variable L : llayout.

  (* NarseseFormat::_format_term with the templates of common_narsese_templates.rs *)
  Fixpoint lfmt_term (x : lterm) : str :=
    match x with
    | LAtom p n => p ++ n
    | LCompound c ts =>
        template_compound (ll_cb0 L) c (ll_sep L) (ll_sp_terms L) (ll_cb1 L) (map lfmt_term ts)
    | LSet l ts r => template_compound_set l (ll_sep L) (ll_sp_terms L) r (map lfmt_term ts)
    | LStatement c s p => template_statement (ll_sb0 L) (lfmt_term s) (ll_sp_terms L) c (lfmt_term p) (ll_sb1 L)
    end.

  (* _format_truth: nothing for the empty truth; _format_budget: brackets always *)
  Definition lfmt_truth (t : list str) : str :=
    match t with [] => [] | _ => ll_tb0 L ++ join_with (ll_tsep L) t ++ ll_tb1 L end.
  Definition lfmt_budget (b : list str) : str := ll_bb0 L ++ join_with (ll_bsep L) b ++ ll_bb1 L.
  (* template_sentence: term, then punctuation / stamp / truth joined lest multiple separators *)
  Definition lfmt_sentence (s : lsentence) : str :=
    lfmt_term (ls_term s) ++ join_lest [ls_punct s; ls_stamp s; lfmt_truth (ls_truth s)] (ll_sp_items L).
  (* _format_task: add_space_if_necessary_and_flush_buffer *)
  Definition lfmt_task (k : ltask) : str :=
    match lfmt_sentence (lt_sentence k) with
    | [] => lfmt_budget (lt_budget k)
    | s => lfmt_budget (lt_budget k) ++ ll_sp_items L ++ s
    end.
  Definition lfmt_narsese (v : lnarsese) : str :=
    match v with
    | NTerm t => lfmt_term t
    | NSentence s => lfmt_sentence s
    | NTask k => lfmt_task k
    end.
End LexFmt.

(* the lexical tree of an enum value: what the lexical parser is expected to return for the text
   the enum formatter prints (mirrors EnumFormatter.fmt_term arm by arm) *)
Section LexOfEnum.
  Variable F : Type.
  Variable fshow : F -> str.
  Variable E : efmt.

  Definition lex_atom (a : fmt_arm) (name : str) : lterm :=
    match a with FmtAtom p => LAtom (p E) name | _ => LAtom [] name end.
  Definition lex_list (a : fmt_arm) (items : list lterm) : lterm :=
    match a with
    | FmtSet l r => LSet (l E) items (r E)
    | FmtCompound kw | FmtImage kw => LCompound (kw E) items
    | _ => LCompound [] items
    end.
  Definition lex_placeholder : lterm := lex_atom (fmt_arm_unit Placeholder) [].
  Definition lex_img (a : fmt_arm) (i : N) (items : list lterm) : lterm :=
    match a with
    | FmtImage _ => lex_list a (img_iter_gen lex_placeholder 0 i items)
    | _ => lex_list a items
    end.
  Definition lex_box2 (a : fmt_arm) (x y : lterm) : lterm :=
    match a with
    | FmtStatement kw => LStatement (kw E) x y
    | _ => lex_list a [x; y]
    end.

  Fixpoint lex_of_term (t : term) : lterm :=
    match t with
    | TName c n => lex_atom (fmt_arm_name c) n
    | TUnit c => lex_atom (fmt_arm_unit c) []
    | TNum c i => lex_atom (fmt_arm_num c) (show_N i)
    | TSet c l => lex_list (fmt_arm_set c) (map lex_of_term l)
    | TVec c l => lex_list (fmt_arm_vec c) (map lex_of_term l)
    | TImg c i l => lex_img (fmt_arm_img c) i (map lex_of_term l)
    | TBox1 c a => lex_list (fmt_arm_box1 c) [lex_of_term a]
    | TBox2 c a b => lex_box2 (fmt_arm_box2 c) (lex_of_term a) (lex_of_term b)
    end.

  Definition lex_of_sentence (s : sentence F) : lsentence :=
    {| ls_term := lex_of_term (s_term s);
       ls_punct := fmt_punct E (s_punct s);
       ls_stamp := fmt_stamp E (s_stamp s);
       ls_truth := match s_truth s with Some t => map fshow (truth_list t) | None => [] end |}.
  Definition lex_of_task (k : task F) : ltask :=
    {| lt_budget := map fshow (budget_list (snd k)); lt_sentence := lex_of_sentence (fst k) |}.
  Definition lex_of_narsese (v : narsese F) : lnarsese :=
    match v with
    | NTerm t => NTerm (lex_of_term t)
    | NSentence s => NSentence (lex_of_sentence s)
    | NTask k => NTask (lex_of_task k)
    end.
End LexOfEnum.

(* ------------------------------------------------------------------------------------------ *)
(* 7. the OpenNARS ASCII lexicon, written out independently of the library's tables             *)
(*    (opennars wiki "Narsese Grammar (Input/Output Format)")                                    *)
(* ------------------------------------------------------------------------------------------ *)
Record lexicon := {
  lx_copulas : list str;                (* 13 *)
  lx_connecters : list str;             (* 12 *)
  lx_set_brackets : list (str * str);   (* extension, intension *)
  lx_compound_brackets : str * str;
  lx_statement_brackets : str * str;
  lx_separator : str;
  lx_prefixes : list str;               (* variables (3), interval, operator; the word prefix is empty *)
  lx_placeholder : str;
  lx_punctuations : list str;           (* 4 *)
  lx_tenses : list str;                 (* past, present, future as printed, brackets included *)
  lx_fixed : str * str;                 (* fixed stamp ":!" N ":" *)
  lx_truth : str * str * str;           (* left, separator, right *)
  lx_budget : str * str * str
}.

Definition opennars_lexicon : lexicon := {|
  lx_copulas := map ss ["-->"; "<->"; "==>"; "<=>"; "{--"; "--]"; "{-]"; "=/>"; "=|>"; "=\>"; "</>"; "<|>"; "<\>"]%string;
  lx_connecters := map ss ["&&"; "||"; "--"; "&/"; "&|"; "&"; "|"; "-"; "~"; "*"; "/"; "\"]%string;
  lx_set_brackets := [(ss "{", ss "}"); (ss "[", ss "]")];
  lx_compound_brackets := (ss "(", ss ")");
  lx_statement_brackets := (ss "<", ss ">");
  lx_separator := ss ",";
  lx_prefixes := map ss ["$"; "#"; "?"; "+"; "^"]%string;
  lx_placeholder := ss "_";
  lx_punctuations := map ss ["."; "!"; "?"; "@"]%string;
  lx_tenses := map ss [":/:"; ":|:"; ":\:"]%string;
  lx_fixed := (ss ":!", ss ":");
  lx_truth := (ss "%", ss ";", ss "%");
  lx_budget := (ss "$", ss ";", ss "$")
|}.

(* the lexicon of the enum format record *)
Definition lexicon_of_efmt (E : efmt) : lexicon := {|
  lx_copulas := gen_copulas E;
  lx_connecters := [compound_connecter_conjunction E; compound_connecter_disjunction E; compound_connecter_negation E;
                    compound_connecter_conjunction_sequential E; compound_connecter_conjunction_parallel E;
                    compound_connecter_intersection_extension E; compound_connecter_intersection_intension E;
                    compound_connecter_difference_extension E; compound_connecter_difference_intension E;
                    compound_connecter_product E; compound_connecter_image_extension E; compound_connecter_image_intension E];
  lx_set_brackets := [(compound_brackets_set_extension_0 E, compound_brackets_set_extension_1 E);
                      (compound_brackets_set_intension_0 E, compound_brackets_set_intension_1 E)];
  lx_compound_brackets := (compound_brackets_0 E, compound_brackets_1 E);
  lx_statement_brackets := (statement_brackets_0 E, statement_brackets_1 E);
  lx_separator := compound_separator E;
  lx_prefixes := [atom_prefix_variable_independent E; atom_prefix_variable_dependent E; atom_prefix_variable_query E;
                  atom_prefix_interval E; atom_prefix_operator E];
  lx_placeholder := atom_prefix_placeholder E;
  lx_punctuations := [sentence_punctuation_judgement E; sentence_punctuation_goal E;
                      sentence_punctuation_question E; sentence_punctuation_quest E];
  lx_tenses := map (fun kw => sentence_stamp_brackets_0 E ++ kw ++ sentence_stamp_brackets_1 E)
                   [sentence_stamp_future E; sentence_stamp_present E; sentence_stamp_past E];
  lx_fixed := (sentence_stamp_brackets_0 E ++ sentence_stamp_fixed E, sentence_stamp_brackets_1 E);
  lx_truth := (sentence_truth_brackets_0 E, sentence_truth_separator E, sentence_truth_brackets_1 E);
  lx_budget := (task_budget_brackets_0 E, task_budget_separator E, task_budget_brackets_1 E)
|}.

(* the lexicon of the lexical ASCII format (Gen/ReadmeLexAscii.v): the dictionaries are unordered
   there; empty-prefix stamp pairs are the tenses, the other pair is the fixed stamp *)
Definition lex_ascii_lexicon : lexicon := {|
  lx_copulas := lex_ascii_copulas;
  lx_connecters := lex_ascii_connecters;
  lx_set_brackets := lex_ascii_set_brackets;
  lx_compound_brackets := lex_ascii_brackets;
  lx_statement_brackets := lex_ascii_statement_brackets;
  lx_separator := lex_ascii_separator;
  lx_prefixes := filter (fun p => negb (str_eqb p []) && negb (str_eqb p (ss "_"))) lex_ascii_prefixes;
  lx_placeholder := match filter (fun p => str_eqb p (ss "_")) lex_ascii_prefixes with [p] => p | _ => [] end;
  lx_punctuations := lex_ascii_punctuations;
  lx_tenses := map snd (filter (fun p => str_eqb (fst p) []) lex_ascii_stamp_brackets);
  lx_fixed := match filter (fun p => negb (str_eqb (fst p) [])) lex_ascii_stamp_brackets with [p] => p | _ => ([], []) end;
  lx_truth := (fst lex_ascii_truth_brackets, lex_ascii_truth_separator, snd lex_ascii_truth_brackets);
  lx_budget := (fst lex_ascii_budget_brackets, lex_ascii_budget_separator, snd lex_ascii_budget_brackets)
|}.

(* equality of lexicons: keyword classes as sets (without duplicates), the rest literally *)
Definition set_eqb {A} (eqb : A -> A -> bool) (a b : list A) : bool :=
  Nat.eqb (length a) (length b) &&
  forallb (fun x => existsb (eqb x) b) a && forallb (fun y => existsb (eqb y) a) b.
Definition pair_eqb (a b : str * str) : bool := str_eqb (fst a) (fst b) && str_eqb (snd a) (snd b).
Definition triple_eqb (a b : str * str * str) : bool :=
  pair_eqb (fst a) (fst b) && str_eqb (snd a) (snd b).
Definition lexicon_eqb (a b : lexicon) : bool :=
  set_eqb str_eqb (lx_copulas a) (lx_copulas b) && str_nodup (lx_copulas a) &&
  set_eqb str_eqb (lx_connecters a) (lx_connecters b) && str_nodup (lx_connecters a) &&
  set_eqb pair_eqb (lx_set_brackets a) (lx_set_brackets b) &&
  pair_eqb (lx_compound_brackets a) (lx_compound_brackets b) &&
  pair_eqb (lx_statement_brackets a) (lx_statement_brackets b) &&
  str_eqb (lx_separator a) (lx_separator b) &&
  set_eqb str_eqb (lx_prefixes a) (lx_prefixes b) && str_nodup (lx_prefixes a) &&
  str_eqb (lx_placeholder a) (lx_placeholder b) &&
  set_eqb str_eqb (lx_punctuations a) (lx_punctuations b) && str_nodup (lx_punctuations a) &&
  set_eqb str_eqb (lx_tenses a) (lx_tenses b) && str_nodup (lx_tenses a) &&
  pair_eqb (lx_fixed a) (lx_fixed b) &&
  triple_eqb (lx_truth a) (lx_truth b) && triple_eqb (lx_budget a) (lx_budget b).

(* every keyword of a lexicon (bracket halves and separators included) *)
Definition lexicon_keywords (x : lexicon) : list str :=
  lx_copulas x ++ lx_connecters x ++ flat_map (fun p => [fst p; snd p]) (lx_set_brackets x) ++
  [fst (lx_compound_brackets x); snd (lx_compound_brackets x);
   fst (lx_statement_brackets x); snd (lx_statement_brackets x); lx_separator x] ++
  lx_prefixes x ++ [lx_placeholder x] ++ lx_punctuations x ++ lx_tenses x ++
  [fst (lx_fixed x); snd (lx_fixed x);
   fst (fst (lx_truth x)); snd (fst (lx_truth x)); snd (lx_truth x);
   fst (fst (lx_budget x)); snd (fst (lx_budget x)); snd (lx_budget x)].

(* every non-empty literal of the grammar is a keyword of the lexicon, or one character of a copula
   (the generic copula rule spells out `-` and `=`) *)
Fixpoint is_infix (p s : str) : bool :=
  starts p s || match s with [] => false | _ :: s' => is_infix p s' end.
Definition literal_in_lexicon (x : lexicon) (l : str) : bool :=
  match l with
  | [] => true
  | _ => str_mem l (lexicon_keywords x) || (Nat.eqb (length l) 1 && existsb (is_infix l) (lx_copulas x))
  end.

(* the rule of the grammar that must accept a keyword of each class, whole *)
Definition accepts_whole (G : grammar) (rule_name : string) (kw : str) : bool :=
  match parse_with ucls_tab G (fuel_for kw) (ss rule_name) kw with
  | POk [] _ => true
  | _ => false
  end.
(* atoms `p ++ "a"` for a prefix p; terms built with each bracket pair *)
Definition lexicon_in_grammar (G : grammar) (x : lexicon) : bool :=
  forallb (accepts_whole G "copula") (lx_copulas x) &&
  forallb (accepts_whole G "connecter") (lx_connecters x) &&
  forallb (accepts_whole G "atom_prefix") (lx_prefixes x) &&
  accepts_whole G "atom" (lx_placeholder x) &&
  forallb (accepts_whole G "punctuation") (lx_punctuations x) &&
  forallb (accepts_whole G "stamp") (lx_tenses x) &&
  accepts_whole G "stamp" (fst (lx_fixed x) ++ ss "-1" ++ snd (lx_fixed x)) &&
  forallb (fun p => accepts_whole G "compound" (fst p ++ ss "a" ++ lx_separator x ++ ss "b" ++ snd p)) (lx_set_brackets x) &&
  forallb (fun c => accepts_whole G "compound"
                      (fst (lx_compound_brackets x) ++ c ++ lx_separator x ++ ss "a" ++ lx_separator x ++ ss "b" ++ snd (lx_compound_brackets x)))
          (lx_connecters x) &&
  forallb (fun c => accepts_whole G "statement"
                      (fst (lx_statement_brackets x) ++ ss "a " ++ c ++ ss " b" ++ snd (lx_statement_brackets x)))
          (lx_copulas x) &&
  accepts_whole G "truth" (fst (fst (lx_truth x)) ++ ss "1.0" ++ snd (fst (lx_truth x)) ++ ss "0.9" ++ snd (lx_truth x)) &&
  accepts_whole G "budget" (fst (fst (lx_budget x)) ++ ss "0.5" ++ snd (fst (lx_budget x)) ++ ss "0.5" ++ snd (fst (lx_budget x)) ++ ss "0.5" ++ snd (lx_budget x)).

(* ------------------------------------------------------------------------------------------ *)
(* 6c. well-formed lexical values over the ASCII lexicon (domain of the conformance theorems)  *)
(* ------------------------------------------------------------------------------------------ *)
Section LexWf.
  Variable ucls : uclass -> N -> bool.
  Variable X : lexicon.

  Fixpoint lterm_wf (x : lterm) : bool :=
    match x with
    | LAtom p n =>
        (str_eqb p (lx_placeholder X) && str_eqb n []) ||
        ((str_eqb p [] || str_mem p (lx_prefixes X)) && name_ok_readme ucls n)
    | LCompound c ts =>
        str_mem c (lx_connecters X) && match ts with [] => false | _ => true end && forallb lterm_wf ts
    | LSet l ts r =>
        existsb (pair_eqb (l, r)) (lx_set_brackets X) && match ts with [] => false | _ => true end && forallb lterm_wf ts
    | LStatement c s p => str_mem c (lx_copulas X) && lterm_wf s && lterm_wf p
    end.

  (* well-formed enum terms for C11: names as above; sets, products and conjunctions non-empty;
     image index within the component list (the placeholder is then printed, so the list is non-empty) *)
  Fixpoint term_ok_readme (t : term) : bool :=
    match t with
    | TName _ n => name_ok_readme ucls n
    | TUnit _ | TNum _ _ => true
    | TSet _ l | TVec _ l => match l with [] => false | _ => true end && forallb term_ok_readme l
    | TImg _ i l => (i <=? nlen l) && forallb term_ok_readme l
    | TBox1 _ a => term_ok_readme a
    | TBox2 _ a b => term_ok_readme a && term_ok_readme b
    end.

  (* sentences and tasks: punctuation of the lexicon; stamp empty, a tense, or the fixed form with a
     body of the library's stamp characters [0-9+-]; truth / budget entries non-empty digit-and-dot
     strings (any number of them) *)
  Definition num_char (c : N) : bool := is_ascii_digit c || (c =? 46).
  Definition num_ok (s : str) : bool := match s with [] => false | _ => forallb num_char s end.
  Definition stamp_body_char (c : N) : bool := is_ascii_digit c || (c =? 43) || (c =? 45).
  Definition stamp_fixed_ok (s : str) : bool :=
    let p := fst (lx_fixed X) in
    let q := snd (lx_fixed X) in
    starts p s &&
    (let r := drop (length p) s in ends q r && forallb stamp_body_char (take (length r - length q) r)).
  Definition stamp_ok (s : str) : bool := str_eqb s [] || str_mem s (lx_tenses X) || stamp_fixed_ok s.
  Definition lsentence_wf (s : lsentence) : bool :=
    lterm_wf (ls_term s) && str_mem (ls_punct s) (lx_punctuations X) && stamp_ok (ls_stamp s) &&
    forallb num_ok (ls_truth s).
  Definition ltask_wf (k : ltask) : bool := forallb num_ok (lt_budget k) && lsentence_wf (lt_sentence k).
  Definition lnarsese_wf (v : lnarsese) : bool :=
    match v with
    | NTerm t => lterm_wf t
    | NSentence s => lsentence_wf s
    | NTask k => ltask_wf k
    end.
End LexWf.

(* an enum value is in the domain of C11 when its term is (stamps are arbitrary; the numbers are
   printed by f64's Display, assumed to yield digit-and-dot strings for values in [0,1]) *)
(* the numbers an enum value prints *)
Definition narsese_floats {F} (v : narsese F) : list F :=
  match v with
  | NTerm _ => []
  | NSentence s => match s_truth s with Some t => truth_list t | None => [] end
  | NTask k => match s_truth (fst k) with Some t => truth_list t | None => [] end ++ budget_list (snd k)
  end.

Definition narsese_ok_readme {F} (ucls : uclass -> N -> bool) (v : narsese F) : bool :=
  term_ok_readme ucls (match v with NTerm t => t | NSentence s => s_term s | NTask k => s_term (fst k) end).
