(* Model/Typst.v -- the Typst renderer (src/conversion/string/typst_formatter/definition.rs,
   formatter_enum.rs; templates of common_narsese_templates.rs; nar_dev_utils ToDebug).
   Which constant a constructor / punctuation / stamp prints, which bracket pair it uses, the
   ordered layout arms of template_compound and the segment lists of the Sentence / Task
   impls are the REGENERATED tables of Gen/TypstGen.v (T6); the control skeleton below is
   written by hand, statement by statement, and tied to the code by the correspondence check.
   Every operation that can panic where it stands has an explicit TPanic branch
   (`chars[0]`, `get_components()[0]`, `get_components()[1]`, `get_atom_name_unchecked`).
   f64::to_string is the Section function fshow; `str` Debug formatting is the Section
   function to_debug (executable instance: [debug_str], Rust's `impl Debug for str`).
   Definitions only. *)
From Nv Require Export Model.Sentence Gen.TypstGen Base.Dec.
Open Scope N_scope.

Inductive tres := TOk (s : str) | TPanic.

Definition tbind (r : tres) (f : str -> tres) : tres :=
  match r with TOk s => f s | TPanic => TPanic end.

(* ---- char::is_whitespace: the 25 code points with the Unicode property White_Space ---- *)
Definition ws_ranges : list (N * N) :=
  [(9, 13); (32, 32); (133, 133); (160, 160); (5760, 5760); (8192, 8202); (8232, 8233);
   (8239, 8239); (8287, 8287); (12288, 12288)].

Fixpoint rng_mem (ranges : list (N * N)) (c : N) : bool :=
  match ranges with
  | [] => false
  | (lo, hi) :: rest => ((lo <=? c) && (c <=? hi)) || rng_mem rest c
  end.

Definition is_ws (c : N) : bool := rng_mem ws_ranges c.

(* the same 25 characters, listed; [esc_covers_ws esc]: a Debug escape table under which no
   whitespace character other than U+0020 is printed as itself (9, 10, 13 have short escapes) *)
Definition ws_list : list N :=
  [9; 10; 11; 12; 13; 32; 133; 160; 5760; 8192; 8193; 8194; 8195; 8196; 8197; 8198; 8199; 8200; 8201; 8202;
   8232; 8233; 8239; 8287; 12288].
Definition esc_covers_ws (esc : N -> bool) : bool :=
  forallb (fun c => memb c [32; 9; 10; 13] || esc c) ws_list.

(* ---- post_process_whitespace (definition.rs) ---- *)
(* str::trim = trim_start + trim_end by char::is_whitespace *)
Fixpoint trim_start (s : str) : str :=
  match s with
  | [] => []
  | c :: r => if is_ws c then trim_start r else s
  end.
Definition trim_end (s : str) : str := rev (trim_start (rev s)).
Definition trim (s : str) : str := trim_end (trim_start s).

(* the loop `for i in 1..chars.len()`; [prev] is chars[i-1], the head of [rest] is chars[i]:
   (true, true) => skip, _ => push chars[i] *)
Fixpoint squeeze_from (prev : N) (rest : str) : str :=
  match rest with
  | [] => []
  | c :: r => if is_ws prev && is_ws c then squeeze_from c r else c :: squeeze_from c r
  end.

Definition post_process (s : str) : tres :=
  let chars := trim s in
  match chars with
  | [] => TOk []                             (* if_return! { trimmed_s.is_empty() => s.clear() } *)
  | _ :: _ =>
      match nth_error chars 0 with           (* result.push(chars[0]) *)
      | None => TPanic
      | Some c0 => TOk (c0 :: squeeze_from c0 (tl chars))
      end
  end.

(* ---- Rust `impl Debug for str`: a quote, every char through escape_debug_ext
   { escape_grapheme_extended: true, escape_single_quote: false, escape_double_quote: true },
   a quote.  [esc c] says that c is printed as \u{..}: grapheme extenders and non-printable
   characters (a table dumped from std by the harness for the executable instance). ---- *)
Definition hex_digit (d : N) : N := if d <? 10 then 48 + d else 87 + d.   (* 0-9 a-f *)
Fixpoint hex_go (fuel : nat) (n : N) (acc : str) : str :=
  match fuel with
  | O => acc
  | S f => let acc' := hex_digit (n mod 16) :: acc in
           if n / 16 =? 0 then acc' else hex_go f (n / 16) acc'
  end.
Definition hex_of (n : N) : str := hex_go (S (N.size_nat n)) n [].

Definition esc_char (esc : N -> bool) (c : N) : str :=
  if c =? 0 then [92; 48]                   (* \0 *)
  else if c =? 9 then [92; 116]             (* \t *)
  else if c =? 13 then [92; 114]            (* \r *)
  else if c =? 10 then [92; 110]            (* \n *)
  else if c =? 92 then [92; 92]             (* \\ *)
  else if c =? 34 then [92; 34]             (* backslash, double quote *)
  else if esc c then [92; 117; 123] ++ hex_of c ++ [125]   (* \u{hex} *)
  else [c].

Definition debug_str (esc : N -> bool) (s : str) : str :=
  34 :: concat (map (esc_char esc) s) ++ [34].

(* ---- templates (common_narsese_templates.rs with space = "") ---- *)
(* template_components(out, items, separator, "") *)
Definition ty_components (sep : str) (items : list str) : str :=
  match items with
  | [] => []
  | x :: rest => x ++ concat (map (fun y => sep ++ y) rest)
  end.

(* template_statement(out, l, subject, copula, predicate, space, r) *)
Definition ty_statement (l subj cop pred space r : str) : str :=
  l ++ subj ++ space ++ cop ++ space ++ pred ++ r.

(* the first arm of `match (strings.len(), connecter)` that matches *)
Fixpoint layout_select (arms : list (layout_pat * layout_kind)) (len : N) (conn : str) : option layout_kind :=
  match arms with
  | [] => None
  | (p, k) :: rest =>
      let hit := match p with
                 | LPConnEmpty => match conn with [] => true | _ => false end
                 | LPLen n => len =? n
                 | LPAny => true
                 end in
      if hit then Some k else layout_select rest len conn
  end.

(* FormatterTypst::template_compound *)
Definition ty_compound (br : str * str) (conn : str) (items : list str) (sep : str) : tres :=
  match layout_select typst_layout_arms (nlen items) conn with
  | None => TPanic      (* no arm: not expressible in Rust (the translator demands a catch-all) *)
  | Some k =>
      TOk (fst br ++
           match k with
           | LSet => ty_components sep items
           | LInfix => ty_components conn items
           | LPrefix => conn ++ sep ++ ty_components sep items
           end ++ snd br)
  end.

Fixpoint tall (rs : list tres) : option (list str) :=
  match rs with
  | [] => Some []
  | TPanic :: _ => None
  | TOk s :: rest => match tall rest with Some l => Some (s :: l) | None => None end
  end.

(* ImageIterator over already rendered components *)
Fixpoint ty_img_iter {A} (ph : A) (now idx : N) (l : list A) : list A :=
  match l with
  | [] => if now =? idx then [ph] else []
  | x :: l' =>
      if now =? idx then ph :: x :: ty_img_iter ph (now + 2) idx l'
      else x :: ty_img_iter ph (now + 1) idx l'
  end.

Definition feature_of (t : term) : str :=
  match t with
  | TName c _ => typst_feature_name c
  | TUnit c => typst_feature_unit c
  | TNum c _ => typst_feature_num c
  | TSet c _ => typst_feature_set c
  | TVec c _ => typst_feature_vec c
  | TImg c _ _ => typst_feature_img c
  | TBox1 c _ => typst_feature_box1 c
  | TBox2 c _ _ => typst_feature_box2 c
  end.

Definition bracket_arm_of (t : term) : typst_bracket_arm :=
  match t with
  | TName c _ => typst_brackets_name c
  | TUnit c => typst_brackets_unit c
  | TNum c _ => typst_brackets_num c
  | TSet c _ => typst_brackets_set c
  | TVec c _ => typst_brackets_vec c
  | TImg c _ _ => typst_brackets_img c
  | TBox1 c _ => typst_brackets_box1 c
  | TBox2 c _ _ => typst_brackets_box2 c
  end.

(* _brackets_str *)
Definition brackets_of (t : term) : str * str :=
  match bracket_arm_of t with
  | TBPair p => p
  | TBByCategory => typst_brackets_by_category (category_of t)
  end.

(* get_components() of a node whose payload elements have already been rendered ([kids], in
   payload order).  CompsSelf on a non-atom would make the Rust recursion endless: no value. *)
Definition comps_rendered (t : term) (kids : list tres) : option (list tres) :=
  match compsk_of t with
  | CompsSelf => None
  | CompsPayloadOrdered | CompsPayloadSet => Some kids
  | CompsNone => Some []
  end.

(* get_components_including_placeholder() *)
Definition comps_incl_rendered (ph : tres) (t : term) (kids : list tres) : option (list tres) :=
  match t with
  | TImg _ i _ => Some (ty_img_iter ph 0 i kids)
  | _ => comps_rendered t kids
  end.

Section Typst.
  Variable F : Type.
  Variable fshow : F -> str.          (* f64::to_string *)
  Variable to_debug : str -> str.     (* format!("{:?}", name) *)

  (* FormatTo<&FormatterTypst> for Term: format_term into a fresh String, then post-process *)
  Definition fmt_of (raw : tres) : tres := tbind raw post_process.

  (* format_term on one node; [kids] = self.format(c) of the payload elements, [ph] = self.format(&Placeholder) *)
  Definition node_gen (ph : tres) (t : term) (kids : list tres) : tres :=
    let feature := feature_of t in
    let br := brackets_of t in
    match category_of t with
    | CatAtom =>
        match get_atom_name_unchecked t with
        | ROk n => TOk (feature ++ to_debug n)                 (* template_atom *)
        | _ => TPanic
        end
    | CatCompound =>
        match comps_incl_rendered ph t kids with
        | None => TPanic
        | Some items =>
            match tall items with
            | None => TPanic
            | Some strs => ty_compound br feature strs typst_sep_compound
            end
        end
    | CatStatement =>
        match comps_rendered t kids with
        | None => TPanic
        | Some items =>
            match nth_error items 0 with                        (* term.get_components()[0] *)
            | Some (TOk a) =>
                match nth_error items 1 with                    (* term.get_components()[1] *)
                | Some (TOk b) => TOk (ty_statement (fst br) a feature b typst_sep_statement (snd br))
                | _ => TPanic
                end
            | _ => TPanic
            end
        end
    end.

  (* self.format(&Placeholder): the placeholder has no payload, [ph] is not consulted *)
  Definition ph_rendered : tres := fmt_of (node_gen TPanic placeholder []).
  Definition node := node_gen ph_rendered.

  (* format_term (before post-processing) *)
  Fixpoint raw_term (t : term) : tres :=
    match t with
    | TName _ _ | TUnit _ | TNum _ _ => node t []
    | TSet _ l | TVec _ l | TImg _ _ l => node t (map (fun x => fmt_of (raw_term x)) l)
    | TBox1 _ a => node t [fmt_of (raw_term a)]
    | TBox2 _ a b => node t [fmt_of (raw_term a); fmt_of (raw_term b)]
    end.

  Definition typst_term (t : term) : tres := fmt_of (raw_term t).

  (* _format_floats *)
  Definition ty_floats (br : str * str) (sep : str) (fs : list F) : str :=
    fst br ++ ty_components sep (map fshow fs) ++ snd br.

  Definition raw_truth (t : truthv F) : str :=
    match t with
    | TruthEmpty => []
    | _ => ty_floats typst_truth_brackets typst_truth_sep (truth_list t)
    end.
  Definition raw_budget (b : budgetv F) : str :=
    ty_floats typst_budget_brackets typst_budget_sep (budget_list b).
  Definition raw_stamp (s : stamp) : str :=
    typst_stamp_prefix s ++ match s with Fixed t => show_Z t | _ => [] end.
  Definition raw_punct (p : punct) : str := typst_punct p.

  Definition typst_truth (t : truthv F) : tres := post_process (raw_truth t).
  Definition typst_budget (b : budgetv F) : tres := post_process (raw_budget b).
  Definition typst_stamp (s : stamp) : tres := post_process (raw_stamp s).
  Definition typst_punctuation (p : punct) : tres := post_process (raw_punct p).

  (* one step of the manipulate! chains of the Sentence / Task impls *)
  Definition seg_raw (s : sentence F) (b : budgetv F) (g : typst_seg) : tres :=
    match g with
    | SegTerm => raw_term (s_term s)
    | SegPunct => TOk (raw_punct (s_punct s))
    | SegStamp => TOk (raw_stamp (s_stamp s))
    | SegTruth => TOk (raw_truth (match s_truth s with Some t => t | None => TruthEmpty end))
    | SegBudget => TOk (raw_budget b)
    | SegConst c => TOk c
    end.

  Fixpoint segs_raw (s : sentence F) (b : budgetv F) (gs : list typst_seg) : tres :=
    match gs with
    | [] => TOk []
    | g :: rest => tbind (seg_raw s b g) (fun x => tbind (segs_raw s b rest) (fun y => TOk (x ++ y)))
    end.

  Definition typst_sentence (s : sentence F) : tres :=
    tbind (segs_raw s BudgetEmpty typst_sentence_segs) post_process.
  Definition typst_task (k : task F) : tres :=
    tbind (segs_raw (fst k) (snd k) typst_task_segs) post_process.

  (* FormatTo for NarseseValue: dispatch on the variant *)
  Definition typst_narsese (v : narsese F) : tres :=
    match v with
    | NTerm t => typst_term t
    | NSentence s => typst_sentence s
    | NTask k => typst_task k
    end.
End Typst.
