(* Model/Term.v -- the enum term data model (src/enum_narsese/term/structs.rs).
   The 30 constructors enter through the REGENERATED per-shape constructor enumerations of
   Gen/TermGen.v: one node form per payload shape, so an ill-shaped value is unrepresentable.
   A Rust HashSet payload whose hidden iteration order is pi is the model value whose list is in
   order pi (see DESIGN section 2); theorems quantify over all lists, hence over all orders. *)
From Nv Require Export Base.Str Gen.TermGen.

Inductive term : Type :=
| TName (c : name_ctor) (n : str)
| TUnit (c : unit_ctor)
| TNum (c : num_ctor) (i : N)
| TSet (c : set_ctor) (l : list term)
| TVec (c : vec_ctor) (l : list term)
| TImg (c : img_ctor) (i : N) (l : list term)
| TBox1 (c : box1_ctor) (a : term)
| TBox2 (c : box2_ctor) (a b : term).

(* induction principle that reaches into the component lists *)
Section term_ind_strong.
  Variable P : term -> Prop.
  Hypothesis HName : forall c n, P (TName c n).
  Hypothesis HUnit : forall c, P (TUnit c).
  Hypothesis HNum : forall c i, P (TNum c i).
  Hypothesis HSet : forall c l, Forall P l -> P (TSet c l).
  Hypothesis HVec : forall c l, Forall P l -> P (TVec c l).
  Hypothesis HImg : forall c i l, Forall P l -> P (TImg c i l).
  Hypothesis HBox1 : forall c a, P a -> P (TBox1 c a).
  Hypothesis HBox2 : forall c a b, P a -> P b -> P (TBox2 c a b).

  Fixpoint term_ind' (t : term) : P t :=
    let fix go (l : list term) : Forall P l :=
      match l with
      | [] => Forall_nil P
      | x :: l' => Forall_cons x (term_ind' x) (go l')
      end in
    match t with
    | TName c n => HName c n
    | TUnit c => HUnit c
    | TNum c i => HNum c i
    | TSet c l => HSet c l (go l)
    | TVec c l => HVec c l (go l)
    | TImg c i l => HImg c i l (go l)
    | TBox1 c a => HBox1 c a (term_ind' a)
    | TBox2 c a b => HBox2 c a b (term_ind' a) (term_ind' b)
    end.
End term_ind_strong.

Fixpoint tsize (t : term) : nat :=
  match t with
  | TName _ _ | TUnit _ | TNum _ _ => 1
  | TSet _ l | TVec _ l | TImg _ _ l => S (fold_right (fun x acc => tsize x + acc)%nat O l)
  | TBox1 _ a => S (tsize a)
  | TBox2 _ a b => S (tsize a + tsize b)
  end.

(* category / capacity of a term: the generated tables applied to the node's constructor *)
Definition category_of (t : term) : category :=
  match t with
  | TName c _ => category_name c
  | TUnit c => category_unit c
  | TNum c _ => category_num c
  | TSet c _ => category_set c
  | TVec c _ => category_vec c
  | TImg c _ _ => category_img c
  | TBox1 c _ => category_box1 c
  | TBox2 c _ _ => category_box2 c
  end.

Definition capacity_of (t : term) : capacity :=
  match t with
  | TName c _ => capacity_name c
  | TUnit c => capacity_unit c
  | TNum c _ => capacity_num c
  | TSet c _ => capacity_set c
  | TVec c _ => capacity_vec c
  | TImg c _ _ => capacity_img c
  | TBox1 c _ => capacity_box1 c
  | TBox2 c _ _ => capacity_box2 c
  end.

Definition category_eqb (a b : category) : bool :=
  match a, b with
  | CatAtom, CatAtom | CatCompound, CatCompound | CatStatement, CatStatement => true
  | _, _ => false
  end.

Definition is_atom t := category_eqb (category_of t) CatAtom.
Definition is_compound t := category_eqb (category_of t) CatCompound.
Definition is_statement t := category_eqb (category_of t) CatStatement.

Definition placeholder : term := TUnit Placeholder.

(* the declaration index of the node's constructor (0..29), used by the harness serialisation *)
Definition ctor_index (t : term) : N :=
  match t with
  | TName c _ => name_ctor_index c
  | TUnit c => unit_ctor_index c
  | TNum c _ => num_ctor_index c
  | TSet c _ => set_ctor_index c
  | TVec c _ => vec_ctor_index c
  | TImg c _ _ => img_ctor_index c
  | TBox1 c _ => box1_ctor_index c
  | TBox2 c _ _ => box2_ctor_index c
  end.
