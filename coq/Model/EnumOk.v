(* Model/EnumOk.v -- boolean side-conditions on an enum format record under which the parser
   theorems hold.  Each is a finite check on the REGENERATED tables, discharged by vm_compute for
   the three shipped formats (Proofs/EnumTotalP.v: shipped_total_ok).  A condition that fails is
   not a convenience: e.g. with an empty separator or space keyword the Rust loops do not terminate,
   with an empty left bracket `parse_term` recurses forever. *)
From Nv Require Export Model.EnumParser.

Definition nonempty (s : str) : bool := match s with [] => false | _ => true end.

(* progress conditions: every keyword whose consumption a loop or a recursion relies on is non-empty *)
Definition total_ok (E : efmt) : bool :=
  nonempty (space_parse E) && nonempty (compound_separator E)
  && nonempty (sentence_truth_separator E) && nonempty (task_budget_separator E)
  && nonempty (compound_brackets_0 E) && nonempty (statement_brackets_0 E)
  && nonempty (compound_brackets_set_extension_0 E) && nonempty (compound_brackets_set_intension_0 E)
  && nonempty (sentence_truth_brackets_0 E) && nonempty (task_budget_brackets_0 E)
  && forallb (fun x => nonempty (snd (fst x) E)) punct_arms
  && forallb (fun x => nonempty (snd (fst x) E)) stamp_arms
  && forallb (fun x => match snd x with AIUnit _ => nonempty (fst x E) | _ => true end) parse_atom_arms.

(* facts about the parser state read from the source (T5) that totality needs *)
Definition state_facts_ok : bool := err_window_clamped.

(* a result is total when it is Ok or Err (neither a panic nor fuel exhaustion of the model) *)
Definition is_total {F A} (r : pres F A) : bool :=
  match r with POk _ _ | PErr _ => true | PPanic | PFuel => false end.
