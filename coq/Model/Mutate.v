(* Model/Mutate.v -- Term::set_atom_name and Term::push_components (src/enum_narsese/term/impls.rs),
   tables from Gen/TermGen.v.  Results: (outcome, term after the call). *)
From Nv Require Export Model.Access.

Definition setnamek_of (t : term) : setname_kind :=
  match t with
  | TName c _ => setnamek_name c
  | TUnit c => setnamek_unit c
  | TNum c _ => setnamek_num c
  | TSet c _ => setnamek_set c
  | TVec c _ => setnamek_vec c
  | TImg c _ _ => setnamek_img c
  | TBox1 c _ => setnamek_box1 c
  | TBox2 c _ _ => setnamek_box2 c
  end.

(* true = Ok(()), false = Err(_) *)
Definition set_atom_name (t : term) (new_name : str) : bool * term :=
  match setnamek_of t, t with
  | SnReplace, TName c _ => (true, TName c new_name)
  | SnNoop, _ => (true, t)
  | SnParseUInt, TNum c _ =>
      match read_usize new_name with
      | Some v => (true, TNum c v)
      | None => (false, t)
      end
  | _, _ => (false, t)
  end.

Definition pushk_of (t : term) : push_kind :=
  match t with
  | TName c _ => pushk_name c
  | TUnit c => pushk_unit c
  | TNum c _ => pushk_num c
  | TSet c _ => pushk_set c
  | TVec c _ => pushk_vec c
  | TImg c _ _ => pushk_img c
  | TBox1 c _ => pushk_box1 c
  | TBox2 c _ _ => pushk_box2 c
  end.

Definition push_components (t : term) (news : list term) : bool * term :=
  match pushk_of t, t with
  | PushVecExtend, TVec c l => (true, TVec c (l ++ news))
  | PushVecExtend, TImg c i l => (true, TImg c i (l ++ news))
  | PushSetExtend, TSet c l => (true, TSet c (set_extend l news))
  | _, _ => (false, t)
  end.
