(* Model/LexParser.v -- the lexical parser (src/conversion/string/impl_lexical/parser.rs), function by
   function, with the pieces of nar_dev_utils and std it calls.  Definitions only.

   Environment `&[char]` = `str`; indices are `nat`.  Every Rust operation that can panic where it
   stands is an explicit LPanic branch:
     - range slices `&env[a..b]`, `&env[a..]`, `&env[..b]`  -> [slice], [slice_from], [slice_to];
     - `usize` subtraction (debug-build overflow check)     -> [usub].
   Indexing `env[i]` occurs only under the loop guards `i < env.len()` / `right_border != 0` of the
   three scanning loops; these loops are structural recursions over the remaining characters, so
   the guard and the indexed read are the same pattern match.  `usize` ADDITION of borders cannot
   overflow for inputs that fit in memory and is not modelled.
   Loops that call the recursive term parser are separate fixpoints with their own iteration fuel
   `S (length env)`; the nesting fuel of [segment_term] is supplied by the entry points
   ([lex_fuel]).  Running out of either is LFuel -- excluded by the totality theorems (C05). *)
From Nv Require Export Model.Sentence Model.LexFormat Gen.LexFormats.

Inductive lres (A : Type) : Type := LOk (a : A) | LErr | LPanic | LFuel.
Arguments LOk {A} a.
Arguments LErr {A}.
Arguments LPanic {A}.
Arguments LFuel {A}.

Definition lbind {A B} (r : lres A) (f : A -> lres B) : lres B :=
  match r with LOk a => f a | LErr => LErr | LPanic => LPanic | LFuel => LFuel end.
Notation "'let*' x ':=' r 'in' k" := (lbind r (fun x => k)) (at level 200, x pattern, r at level 100, k at level 200).

(* `?` on an Option inside a function returning Result *)
Definition ok_or {A} (o : option A) : lres A := match o with Some a => LOk a | None => LErr end.

(* ---- slices and usize arithmetic ---- *)
Definition slice_from (env : str) (a : nat) : lres str :=
  if (a <=? length env)%nat then LOk (drop a env) else LPanic.
Definition slice_to (env : str) (b : nat) : lres str :=
  if (b <=? length env)%nat then LOk (take b env) else LPanic.
Definition slice (env : str) (a b : nat) : lres str :=
  if ((a <=? b) && (b <=? length env))%nat then LOk (take (b - a) (drop a env)) else LPanic.
Definition usub (a b : nat) : lres nat := if (b <=? a)%nat then LOk (a - b)%nat else LPanic.

(* ---- nar_dev_utils StartsWithStr for [char] (std_boost.rs), WITH its defect: a non-empty slice
   that is a proper prefix of the needle answers true ---- *)
Fixpoint sws_loop (s needle : str) : bool :=
  match s with
  | [] => true                                   (* loop over self ended *)
  | c :: s' =>
      match needle with
      | [] => true                               (* needle exhausted *)
      | c2 :: n' => if c =? c2 then sws_loop s' n' else false
      end
  end.
Definition starts_with_str (s needle : str) : bool :=
  match needle with
  | [] => true
  | _ => match s with [] => false | _ => sws_loop s needle end
  end.

(* parser.rs slice_starts_with_str; the length guard is a fact read from the source (T2) *)
Definition slice_starts_with_str (s needle : str) : bool :=
  if lex_starts_len_guard then (length needle <=? length s)%nat && starts_with_str s needle
  else starts_with_str s needle.

(* ---- str::trim_start_matches / trim_end_matches / split for &str patterns ---- *)
Fixpoint trim_start_n (n : nat) (pat s : str) : str :=
  match n with
  | O => s
  | S n' => if starts pat s then trim_start_n n' pat (drop (length pat) s) else s
  end.
Definition trim_start_matches (pat s : str) : str :=
  match pat with [] => s | _ => trim_start_n (length s) pat s end.
Definition trim_end_matches (pat s : str) : str := rev (trim_start_matches (rev pat) (rev s)).

Fixpoint split_n (n : nat) (sep cur s : str) : list str :=      (* cur: current piece, reversed *)
  match n with
  | O => [rev cur]
  | S n' =>
      match s with
      | [] => [rev cur]
      | c :: s' =>
          if starts sep s then rev cur :: split_n n' sep [] (drop (length sep) s)
          else split_n n' sep (c :: cur) s'
      end
  end.
Definition split (sep s : str) : list str :=
  match sep with
  | [] => [] :: map (fun c => [c]) s ++ [[]]
  | _ => split_n (length s) sep [] s
  end.
Definition nonempty (s : str) : bool := match s with [] => false | _ => true end.

(* ---- dictionaries: PrefixMatch::match_prefix_char_slice / SuffixMatch::match_suffix_char_slice
   (`find` over the iteration order; char_slice_has_prefix / _suffix are exact tests) ---- *)
Definition match_prefix (dict : list str) (env : str) : option str := find (fun p => starts p env) dict.
Definition match_suffix (dict : list str) (env : str) : option str := find (fun p => ends p env) dict.
Definition match_prefix_pair (dict : list (str * str)) (env : str) : option (str * str) :=
  find (fun t => starts (fst t) env) dict.
Definition match_suffix_pair (dict : list (str * str)) (env : str) : option (str * str) :=
  find (fun t => ends (snd t) env) dict.

(* RightUnwrapOr *)
Definition right_unwrap_or {T} (o : option (T * nat)) (d : nat) : option T * nat :=
  match o with Some (t, u) => (Some t, u) | None => (None, d) end.

(* MidParseResult and its fold *)
Record mid_result := {
  m_term : option lterm; m_truth : option (list str); m_stamp : option str;
  m_punct : option str; m_budget : option (list str)
}.

Definition mid_fold (m : mid_result) : option lnarsese :=
  let sentence term punct :=
    {| ls_term := term; ls_punct := punct;
       ls_stamp := match m_stamp m with Some s => s | None => [] end;
       ls_truth := match m_truth m with Some t => t | None => [] end |} in
  match m_term m, m_punct m, m_budget m with
  | Some term, Some punct, Some budget => Some (NTask {| lt_budget := budget; lt_sentence := sentence term punct |})
  | Some term, Some punct, None => Some (NSentence (sentence term punct))
  | Some term, None, _ => Some (NTerm term)
  | None, _, _ => None
  end.

Section Parser.
  Variable C : lcfmt.
  Variable is_alnum : N -> bool.
  Let F := c_fmt C.

  (* idealize_env *)
  Definition idealize_env (input : str) : str :=
    if l_remove_spaces_before_parse F then filter (fun c => negb (space_for_parse F c)) input else input.

  (* segment_some_prefix: Ok(border) = Some, Err(_) = None (callers ignore the index) *)
  Fixpoint ssp_loop (right : str) (verify : N -> bool) (rest : str) (i : nat) : option nat :=
    match rest with
    | [] => None
    | c :: r =>
        if starts right rest then Some (i + length right)%nat
        else if verify c then ssp_loop right verify r (S i) else None
    end.
  Definition segment_some_prefix (env : str) (start : nat) (right : str) (verify : N -> bool) : option nat :=
    ssp_loop right verify (drop start env) start.

  (* collect_some_prefix: `verify` sees the suffix env[i..] (its head is env[i]) *)
  Fixpoint csp_loop (verify : str -> bool) (rest : str) (i : nat) : nat :=
    match rest with
    | [] => i
    | _ :: r => if verify rest then csp_loop verify r (S i) else i
    end.
  Definition collect_some_prefix (env : str) (start : nat) (verify : str -> bool) : nat :=
    if (start <? length env)%nat then csp_loop verify (drop start env) start else length env.

  (* segment_some_suffix on the reversed environment: rrest = rev env[..right_border] *)
  Fixpoint sss_loop (rleft : str) (verify : N -> bool) (rrest : str) : option nat :=
    match rrest with
    | [] => if starts rleft [] then Some O else None
    | c :: r =>
        if starts rleft rrest then Some (length rrest - length rleft)%nat
        else if verify c then sss_loop rleft verify r else None
    end.
  Definition segment_some_suffix (env left : str) (verify : N -> bool) : option nat :=
    sss_loop (rev left) verify (rev env).

  (* segment_brackets_prefix for a single (String, String) *)
  Definition segment_brackets_prefix (env : str) (brackets : str * str) (verify : N -> bool)
    : lres (option (str * nat)) :=
    if starts (fst brackets) env then
      match segment_some_prefix env (length (fst brackets)) (snd brackets) verify with
      | Some right_border =>
          let* result := slice_to env right_border in LOk (Some (result, right_border))
      | None => LOk None
      end
    else LOk None.

  (* segment_brackets_suffix for any SuffixMatch<(String, String)> given in iteration order *)
  Definition segment_brackets_suffix (env : str) (dict : list (str * str)) (verify : N -> bool)
    : lres (option (str * nat)) :=
    match match_suffix_pair dict env with
    | None => LOk None
    | Some (lbr, rbr) =>
        let* content_len := usub (length env) (length rbr) in
        let* env_content := slice_to env content_len in
        match segment_some_suffix env_content lbr verify with
        | Some left_border =>
            let* result := slice_from env left_border in LOk (Some (result, left_border))
        | None => LOk None
        end
    end.

  Definition split_values (l r sep s : str) : list str :=
    filter nonempty (split sep (trim_end_matches r (trim_start_matches l s))).

  Definition segment_budget (env : str) : lres (option (list str * nat)) :=
    let* o := segment_brackets_prefix env (l_budget_brackets F) (in_class (l_is_budget_content F)) in
    match o with
    | None => LOk None
    | Some (s, right_border) =>
        LOk (Some (split_values (fst (l_budget_brackets F)) (snd (l_budget_brackets F)) (l_budget_separator F) s,
                   right_border))
    end.

  Definition segment_truth (env : str) : lres (option (list str * nat)) :=
    let* o := segment_brackets_suffix env [l_truth_brackets F] (in_class (l_is_truth_content F)) in
    match o with
    | None => LOk None
    | Some (s, border) =>
        LOk (Some (split_values (fst (l_truth_brackets F)) (snd (l_truth_brackets F)) (l_truth_separator F) s,
                   border))
    end.

  Definition segment_stamp (env : str) : lres (option (str * nat)) :=
    segment_brackets_suffix env (c_stamp_brackets C) (in_class (l_is_stamp_content F)).

  Definition segment_punctuation (env : str) : lres (option (str * nat)) :=
    match match_suffix (c_punctuations C) env with
    | None => LOk None
    | Some p => let* b := usub (length env) (length p) in LOk (Some (p, b))
    end.

  (* segment_atom *)
  Definition atom_verify (rest : str) : bool :=
    match rest with
    | [] => false
    | c :: _ => is_identifier F is_alnum c &&
                match match_prefix (c_copulas C) rest with None => true | Some _ => false end
    end.

  Definition segment_atom (env : str) : lres (lterm * nat) :=
    let* prefix := ok_or (match_prefix (c_prefixes C) env) in
    let content_start := length prefix in
    let right_border := collect_some_prefix env content_start atom_verify in
    if (right_border <=? content_start)%nat && negb (nonempty prefix) then LErr
    else
      let* name := slice env content_start right_border in
      LOk (LAtom prefix name, right_border).

  (* the loop shared by segment_term_set (after its first element) and segment_compound *)
  Fixpoint seg_loop (rec : str -> lres (lterm * nat)) (right : str) (n : nat) (env : str)
           (term_begin : nat) (acc : list lterm) : lres (list lterm * nat) :=
    match n with
    | O => LFuel
    | S n' =>
        let* s1 := slice_from env term_begin in
        if slice_starts_with_str s1 right then LOk (rev acc, (term_begin + length right)%nat)
        else
          let term_begin := if slice_starts_with_str s1 (l_separator F)
                            then (term_begin + length (l_separator F))%nat else term_begin in
          let* s2 := slice_from env term_begin in
          let* r := rec s2 in
          seg_loop rec right n' env (term_begin + snd r)%nat (fst r :: acc)
    end.

  Definition segment_term_set (rec : str -> lres (lterm * nat)) (env : str) : lres (lterm * nat) :=
    let* br := ok_or (match_prefix_pair (c_set_brackets C) env) in
    let term_begin := length (fst br) in
    let* s0 := slice_from env term_begin in
    let* r := rec s0 in
    let* lr := seg_loop rec (snd br) (S (length env)) env (term_begin + snd r)%nat [fst r] in
    LOk (LSet (fst br) (fst lr) (snd br), snd lr).

  Definition segment_compound (rec : str -> lres (lterm * nat)) (env : str) : lres (lterm * nat) :=
    let br := l_compound_brackets F in
    if starts (fst br) env then
      let connecter_start := length (fst br) in
      let* s0 := slice_from env connecter_start in
      let* connecter := ok_or (match_prefix (c_connecters C) s0) in
      let* lr := seg_loop rec (snd br) (S (length env)) env (connecter_start + length connecter)%nat [] in
      LOk (LCompound connecter (fst lr), snd lr)
    else LErr.

  Definition segment_statement (rec : str -> lres (lterm * nat)) (env : str) : lres (lterm * nat) :=
    let br := l_statement_brackets F in
    if starts (fst br) env then
      let subject_start := length (fst br) in
      let* s0 := slice_from env subject_start in
      let* subj := rec s0 in
      let copula_start := (subject_start + snd subj)%nat in
      let* s1 := slice_from env copula_start in
      let* copula := ok_or (match_prefix (c_copulas C) s1) in
      let predicate_start := (copula_start + length copula)%nat in
      let* s2 := slice_from env predicate_start in
      let* pred := rec s2 in
      let right_bracket_start := (predicate_start + snd pred)%nat in
      let* s3 := slice_from env right_bracket_start in
      if slice_starts_with_str s3 (snd br)
      then LOk (LStatement copula (fst subj) (fst pred), (right_bracket_start + length (snd br))%nat)
      else LErr
    else LErr.

  (* `if let Ok(result) = f(env) { return Ok(result) }`: an Err is dropped, the next alternative tried *)
  Definition or_else {A} (r : lres A) (k : lres A) : lres A :=
    match r with LOk a => LOk a | LErr => k | LPanic => LPanic | LFuel => LFuel end.

  Fixpoint segment_term (fuel : nat) (env : str) : lres (lterm * nat) :=
    match fuel with
    | O => LFuel
    | S f =>
        or_else (segment_term_set (segment_term f) env)
       (or_else (segment_compound (segment_term f) env)
       (or_else (segment_statement (segment_term f) env)
                (segment_atom env)))
    end.

  (* parse_items *)
  Definition parse_items (fuel : nat) (env : str) : lres mid_result :=
    let* budget := segment_budget env in
    let '(budget, begin_index) := right_unwrap_or budget O in
    let* truth := segment_truth env in
    let '(truth, right_border) := right_unwrap_or truth (length env) in
    let* e1 := slice_to env right_border in
    let* stamp := segment_stamp e1 in
    let '(stamp, right_border) := right_unwrap_or stamp right_border in
    let* e2 := slice_to env right_border in
    let* punct := segment_punctuation e2 in
    let '(punct, right_border) := right_unwrap_or punct right_border in
    let* env_term := slice env begin_index right_border in      (* taken BEFORE the emptiness test *)
    let* term :=
      if (begin_index <? right_border)%nat
      then let* r := segment_term fuel env_term in LOk (Some (fst r))
      else LOk None in
    LOk {| m_term := term; m_truth := truth; m_stamp := stamp; m_punct := punct; m_budget := budget |}.

  (* ParseState::parse on an idealized environment *)
  Definition parse_env (fuel : nat) (env : str) : lres lnarsese :=
    let* mid := parse_items fuel env in
    ok_or (mid_fold mid).

  Definition lex_parse_fuel (fuel : nat) (input : str) : lres lnarsese :=
    parse_env fuel (idealize_env input).

  Definition lex_parse_term_fuel (fuel : nat) (input : str) : lres lterm :=
    let* r := segment_term fuel (idealize_env input) in LOk (fst r).
End Parser.

(* nesting fuel as a function of the input length *)
Definition lex_fuel (input : str) : nat := S (length input).

Definition lex_parse (is_alnum : N -> bool) (F : lfmt) (input : str) : lres lnarsese :=
  lex_parse_fuel (compile F) is_alnum (lex_fuel input) input.
Definition lex_parse_term (is_alnum : N -> bool) (F : lfmt) (input : str) : lres lterm :=
  lex_parse_term_fuel (compile F) is_alnum (lex_fuel input) input.
