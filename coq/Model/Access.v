(* Model/Access.v -- component access, category/capacity predicates, consuming extraction
   (Term::get_components, get_components_including_placeholder, ImageIterator, ExtractTerms,
   get_atom_name) and the Narsese value wrapper with its casts.  Tables from Gen/TermGen.v. *)
From Nv Require Export Model.EqHash Base.Dec.

Inductive res (A : Type) : Type := ROk (a : A) | RErr | RPanic.
Arguments ROk {A} a.
Arguments RErr {A}.
Arguments RPanic {A}.

(* get_components: the payload (an atom yields itself).  For a set payload the list is the
   HashSet iteration order, which is what `set.iter().collect()` returns. *)
Definition comps_payload (t : term) : list term :=
  match t with
  | TName _ _ | TUnit _ | TNum _ _ => []
  | TSet _ l | TVec _ l | TImg _ _ l => l
  | TBox1 _ a => [a]
  | TBox2 _ a b => [a; b]
  end.

Definition compsk_of (t : term) : comps_kind :=
  match t with
  | TName c _ => compsk_name c
  | TUnit c => compsk_unit c
  | TNum c _ => compsk_num c
  | TSet c _ => compsk_set c
  | TVec c _ => compsk_vec c
  | TImg c _ _ => compsk_img c
  | TBox1 c _ => compsk_box1 c
  | TBox2 c _ _ => compsk_box2 c
  end.

Definition get_components (t : term) : list term :=
  match compsk_of t with
  | CompsSelf => [t]
  | CompsPayloadOrdered | CompsPayloadSet => comps_payload t
  | CompsNone => []
  end.

(* ImageIterator: emits the placeholder when the running index reaches the stored index
   (also when that happens exactly at the end); an index beyond the length never emits it. *)
Fixpoint img_iter (now idx : N) (l : list term) : list term :=
  match l with
  | [] => if now =? idx then [placeholder] else []
  | x :: l' =>
      if now =? idx then placeholder :: x :: img_iter (now + 2) idx l'
      else x :: img_iter (now + 1) idx l'
  end.

Definition get_components_incl (t : term) : list term :=
  match t with
  | TImg _ i l => img_iter 0 i l
  | _ => get_components t
  end.

Definition get_compound_components (t : term) : option (list term) :=
  if is_compound t then Some (get_components t) else None.

(* Vec::insert(index, x): panics when index > len *)
Definition vec_insert (l : list term) (i : N) (x : term) : res (list term) :=
  if (nlen l) <? i then RPanic else ROk (take (N.to_nat i) l ++ x :: drop (N.to_nat i) l).

Definition extractk_of (t : term) : extract_kind :=
  match t with
  | TName c _ => extractk_name c
  | TUnit c => extractk_unit c
  | TNum c _ => extractk_num c
  | TSet c _ => extractk_set c
  | TVec c _ => extractk_vec c
  | TImg c _ _ => extractk_img c
  | TBox1 c _ => extractk_box1 c
  | TBox2 c _ _ => extractk_box2 c
  end.

Definition extract_terms (t : term) : res (list term) :=
  match extractk_of t with
  | ExSelf => ROk [t]
  | ExPayload | ExSetCollect => ROk (comps_payload t)
  | ExInsertPlaceholder =>
      match t with
      | TImg _ i l => vec_insert l i placeholder
      | _ => ROk (comps_payload t)
      end
  end.

(* get_atom_name_unchecked / get_atom_name *)
Definition getnamek_of (t : term) : getname_kind :=
  match t with
  | TName c _ => getnamek_name c
  | TUnit c => getnamek_unit c
  | TNum c _ => getnamek_num c
  | TSet c _ => getnamek_set c
  | TVec c _ => getnamek_vec c
  | TImg c _ _ => getnamek_img c
  | TBox1 c _ => getnamek_box1 c
  | TBox2 c _ _ => getnamek_box2 c
  end.

Definition get_atom_name_unchecked (t : term) : res str :=
  match getnamek_of t, t with
  | GnPayload, TName _ n => ROk n
  | GnEmpty, _ => ROk []
  | GnDecimal, TNum _ i => ROk (show_N i)
  | _, _ => RPanic
  end.

Definition get_atom_name (t : term) : res (option str) :=
  if is_atom t then
    match get_atom_name_unchecked t with ROk n => ROk (Some n) | RErr => RErr | RPanic => RPanic end
  else ROk None.

(* capacity predicates *)
Definition capacity_eqb (a b : capacity) : bool :=
  match a, b with
  | CapAtom, CapAtom | CapUnary, CapUnary | CapBinaryVec, CapBinaryVec
  | CapBinarySet, CapBinarySet | CapVec, CapVec | CapSet, CapSet => true
  | _, _ => false
  end.

(* ---- lexical terms (src/lexical/term.rs): category, capacity, extraction ---- *)
Inductive lterm : Type :=
| LAtom (prefix name : str)
| LCompound (connecter : str) (terms : list lterm)
| LSet (left : str) (terms : list lterm) (right : str)
| LStatement (copula : str) (subject predicate : lterm).

Definition lcategory (x : lterm) : category :=
  match x with
  | LAtom _ _ => CatAtom
  | LCompound _ _ | LSet _ _ _ => CatCompound
  | LStatement _ _ _ => CatStatement
  end.

Definition lcapacity (x : lterm) : capacity :=
  match x with
  | LAtom _ _ => CapAtom
  | LCompound _ _ | LSet _ _ _ => CapVec
  | LStatement _ _ _ => CapBinaryVec
  end.

Definition lextract (x : lterm) : list lterm :=
  match x with
  | LAtom _ _ => [x]
  | LCompound _ ts | LSet _ ts _ => ts
  | LStatement _ s p => [s; p]
  end.

(* ---- the Narsese value wrapper and the sentence/task casts (generic in the payload types) ---- *)
Inductive nvalue (T S K : Type) : Type := NTerm (t : T) | NSentence (s : S) | NTask (k : K).
Arguments NTerm {T S K} t.
Arguments NSentence {T S K} s.
Arguments NTask {T S K} k.

Section NValue.
  Context {T S K : Type}.
  Definition nv_is_term (v : nvalue T S K) := match v with NTerm _ => true | _ => false end.
  Definition nv_is_sentence (v : nvalue T S K) := match v with NSentence _ => true | _ => false end.
  Definition nv_is_task (v : nvalue T S K) := match v with NTask _ => true | _ => false end.
  Definition try_into_term (v : nvalue T S K) : option T := match v with NTerm t => Some t | _ => None end.
  Definition try_into_sentence (v : nvalue T S K) : option S := match v with NSentence s => Some s | _ => None end.
  Definition try_into_task (v : nvalue T S K) : option K := match v with NTask k => Some k | _ => None end.
  Variable cast_to_task : S -> K.
  Variable try_cast_to_sentence : K -> S + K.   (* inl = Ok sentence, inr = Err (the task handed back) *)
  Definition try_into_task_compatible (v : nvalue T S K) : option K :=
    match v with NTask k => Some k | NSentence s => Some (cast_to_task s) | NTerm _ => None end.
  Definition nv_try_cast_to_sentence (v : nvalue T S K) : nvalue T S K + nvalue T S K :=
    match v with
    | NTerm _ => inr v
    | NSentence _ => inl v
    | NTask k => match try_cast_to_sentence k with inl s => inl (NSentence s) | inr k' => inr (NTask k') end
    end.
End NValue.
