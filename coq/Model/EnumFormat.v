(* Model/EnumFormat.v -- the enum-side format record (src/conversion/string/impl_enum/format.rs),
   flattened: field `a_b_c` is Rust `format.a.b.c`, tuple components are `_0` / `_1`.
   The three shipped instances are REGENERATED into Gen/EnumFormats.v. *)
From Nv Require Export Base.Str.

(* `is_valid_atom_name`: c.is_alphanumeric() || c in extra || c > above *)
Record name_char_spec := { nc_alnum : bool; nc_extra : list N; nc_above : option N }.

Record efmt := {
  name_char : name_char_spec;
  space_parse : str;
  space_format_terms : str;
  space_format_items : str;
  atom_prefix_word : str;
  atom_prefix_variable_independent : str;
  atom_prefix_variable_dependent : str;
  atom_prefix_variable_query : str;
  atom_prefix_interval : str;
  atom_prefix_operator : str;
  atom_prefix_placeholder : str;
  compound_brackets_0 : str;
  compound_brackets_1 : str;
  compound_separator : str;
  compound_brackets_set_extension_0 : str;
  compound_brackets_set_extension_1 : str;
  compound_brackets_set_intension_0 : str;
  compound_brackets_set_intension_1 : str;
  compound_connecter_intersection_extension : str;
  compound_connecter_intersection_intension : str;
  compound_connecter_difference_extension : str;
  compound_connecter_difference_intension : str;
  compound_connecter_product : str;
  compound_connecter_image_extension : str;
  compound_connecter_image_intension : str;
  compound_connecter_conjunction : str;
  compound_connecter_disjunction : str;
  compound_connecter_negation : str;
  compound_connecter_conjunction_sequential : str;
  compound_connecter_conjunction_parallel : str;
  statement_brackets_0 : str;
  statement_brackets_1 : str;
  statement_copula_inheritance : str;
  statement_copula_similarity : str;
  statement_copula_implication : str;
  statement_copula_equivalence : str;
  statement_copula_instance : str;
  statement_copula_property : str;
  statement_copula_instance_property : str;
  statement_copula_implication_predictive : str;
  statement_copula_implication_concurrent : str;
  statement_copula_implication_retrospective : str;
  statement_copula_equivalence_predictive : str;
  statement_copula_equivalence_concurrent : str;
  statement_copula_equivalence_retrospective : str;
  sentence_punctuation_judgement : str;
  sentence_punctuation_goal : str;
  sentence_punctuation_question : str;
  sentence_punctuation_quest : str;
  sentence_stamp_brackets_0 : str;
  sentence_stamp_brackets_1 : str;
  sentence_stamp_past : str;
  sentence_stamp_present : str;
  sentence_stamp_future : str;
  sentence_stamp_fixed : str;
  sentence_truth_brackets_0 : str;
  sentence_truth_brackets_1 : str;
  sentence_truth_separator : str;
  task_budget_brackets_0 : str;
  task_budget_brackets_1 : str;
  task_budget_separator : str
}.

Definition name_charb (is_alnum : N -> bool) (F : efmt) (c : N) : bool :=
  (nc_alnum (name_char F) && is_alnum c) || memb c (nc_extra (name_char F)) ||
  match nc_above (name_char F) with Some t => t <? c | None => false end.
