(* Model/SstOk.v -- side conditions of the term-level parser-correctness theorem
   (Proofs/EnumTermP.v: p_term_render).  Definitions only.

   [parse_ok E]   : FORMAT-level facts, finite boolean checks on the regenerated tables: at every
                    decision point of the term parser (bracket dispatch of parse_term, the
                    space / separator / right-bracket tests of parse_compound_terms, the connecter and
                    copula arm lists, the operator reject of parse_compound, head_skip_spaces before a
                    keyword) the alternative the parser tests EARLIER can never match the text of the
                    intended LATER alternative, whatever follows.  "Can never match" is
                    prefix-incompatibility: neither keyword is a prefix of the other.
   [unamb .. t k] : TEXT-level facts about the atom NAMES of the surface tree t written before the
                    continuation k: what cannot be guaranteed by the format alone because names are
                    arbitrary name characters (in Han the keywords are ordinary name characters). *)
From Nv Require Export Model.Sst.

(* a, b prefix-compatible: one is a prefix of the other (then some text starts with both) *)
Definition compat (a b : str) : bool := starts a b || starts b a.
Definition incompat (a b : str) : bool := negb (compat a b).

(* the arm list tests arm j before arm i for j < i: the keyword of an earlier arm must be
   incompatible with (keyword of arm i ++ f) for every text f that may legitimately follow it *)
Definition arms_order_ok {A} (E : efmt) (arms : list ((efmt -> str) * A)) (follows : list str) : bool :=
  forallb (fun i =>
             match nth_error arms i with
             | Some (g, _) => forallb (fun x => forallb (fun f => incompat (fst x E) (g E ++ f)) follows) (firstn i arms)
             | None => true
             end)
          (seq 0 (length arms)).

Section Ok.
  Variable E : efmt.

  Definition left_brackets : list str :=
    [compound_brackets_set_extension_0 E; compound_brackets_set_intension_0 E; compound_brackets_0 E; statement_brackets_0 E].
  (* right brackets that end a component list *)
  Definition list_right_brackets : list str :=
    [compound_brackets_set_extension_1 E; compound_brackets_set_intension_1 E; compound_brackets_1 E].
  (* what parse_compound_terms tests before it calls parse_term on an item *)
  Definition item_delims : list str := space_parse E :: compound_separator E :: list_right_brackets.

  Definition pairwise_later {A} (f : A -> A -> bool) : list A -> bool :=
    fix go (l : list A) : bool := match l with [] => true | x :: l' => forallb (f x) l' && go l' end.

  Definition parse_ok : bool :=
    (* progress (space, separator, left brackets non-empty; placeholder prefix non-empty) *)
    total_ok E
    (* the right brackets are non-empty (the loop must see them) *)
    && forallb nonempty list_right_brackets && nonempty (statement_brackets_1 E)
    (* parse_term dispatch: ext-set, int-set, compound, statement brackets in this order *)
    && pairwise_later incompat left_brackets
    (* a composite item never looks like a space, a separator or a right bracket of a list *)
    && forallb (fun d => forallb (incompat d) left_brackets) item_delims
    (* loop of parse_compound_terms: space before separator before right bracket *)
    && incompat (space_parse E) (compound_separator E)
    && forallb (fun rb => incompat (space_parse E) rb && incompat (compound_separator E) rb) list_right_brackets
    (* head_skip_spaces stops at: the statement's right bracket, a connecter, a copula *)
    && incompat (space_parse E) (statement_brackets_1 E)
    && forallb (fun a => incompat (space_parse E) (fst a E)) parse_compound_arms
    && forallb (fun a => incompat (space_parse E) (fst a E)) parse_statement_arms
    (* parse_compound: the rejected prefixes match no connecter; an earlier connecter never matches
       a later one followed by a space or a separator (ASCII: `&&` is tested before `&`) *)
    && forallb (fun g => forallb (fun a => incompat (g E) (fst a E)) parse_compound_arms) parse_compound_reject
    && arms_order_ok E parse_compound_arms [space_parse E; compound_separator E]
    (* parse_statement: an earlier copula never matches a later one, whatever follows *)
    && arms_order_ok E parse_statement_arms [[]]
    (* every copula of the statement arms is in the list the name scan stops at *)
    && forallb (fun a => existsb (str_eqb (fst a E)) (gen_copulas E) && nonempty (fst a E)) parse_statement_arms.
End Ok.

Section Unamb.
  Variable is_alnum : N -> bool.
  Variable E : efmt.

  (* is_copula_starts_at_head on the remaining text (EnumParser.copula_at_head reads only s_rest) *)
  Definition copula_head_str (r : str) : bool :=
    existsb (fun c =>
               (if copula_lookahead_len_guard then Nat.leb (length c) (length r) else true)
               && starts_with_str r c)
            (gen_copulas E).

  (* the name scan stops in front of k *)
  Definition stop_ok (k : str) : bool :=
    match k with
    | [] => true
    | c :: _ => copula_head_str k || negb (name_charb is_alnum E c)
    end.

  (* the name scan reads exactly [name] when the text is name ++ k: every character is a name
     character, no copula starts inside the name, the scan stops at its end *)
  Fixpoint name_scan_ok (name k : str) : bool :=
    match name with
    | [] => stop_ok k
    | c :: n' => negb (copula_head_str (c :: n' ++ k)) && name_charb is_alnum E c && name_scan_ok n' k
    end.

  Definition no_start (kws : list str) (text : str) : bool := forallb (fun kw => negb (starts kw text)) kws.

  (* prefixes of the arms parse_atom tests before arm [arm] *)
  Definition earlier_prefixes (arm : nat) : list str := map (fun a => fst a E) (firstn arm parse_atom_arms).

  (* forbid: the keywords the ENCLOSING construct tests before it parses this term
     (a component list: space, separator, its right bracket; a statement operand: space) *)
  Definition atom_unamb (forbid : list str) (arm : nat) (name k : str) : bool :=
    let text := atom_prefix E arm ++ name ++ k in
    no_start forbid text && no_start (left_brackets E) text && no_start (earlier_prefixes arm) text
    && name_scan_ok name k.

  (* items i, i+1, ... of a component list followed by [tail]: the continuation of an item is the
     rest of the list (gaps included) and the tail *)
  Definition unamb_items {A} (u : A -> str -> bool) (r : A -> str) (gaps : nat -> nat * nat) : nat -> list A -> str -> bool :=
    fix go (i : nat) (l : list A) (tail : str) : bool :=
      match l with
      | [] => true
      | x :: l' => u x (render_items E r gaps true (S i) l' ++ tail) && go (S i) l' tail
      end.

  Definition item_forbid (rb : str) : list str := [space_parse E; compound_separator E; rb].

  Fixpoint unamb_ctx (forbid : list str) (t : sterm) (k : str) : bool :=
    match t with
    | SAtom arm name => atom_unamb forbid arm name k
    | SSet ext sp0 gaps items sp1 =>
        unamb_items (unamb_ctx (item_forbid (set_rb E ext))) (render E) gaps 0 items (sp E sp1 ++ set_rb E ext ++ k)
    | SComp arm sp0 gaps items sp1 =>
        unamb_items (unamb_ctx (item_forbid (compound_brackets_1 E))) (render E) gaps 0 items
                    (sp E sp1 ++ compound_brackets_1 E ++ k)
    | SStmt arm sp0 sp1 sp2 sp3 s p =>
        unamb_ctx [space_parse E] s
                  (sp E sp1 ++ stmt_kw E arm ++ sp E sp2 ++ render E p ++ sp E sp3 ++ statement_brackets_1 E ++ k)
        && unamb_ctx [space_parse E] p (sp E sp3 ++ statement_brackets_1 E ++ k)
    end.

  (* a term at top level: nothing is tested before it *)
  Definition unamb (t : sterm) (k : str) : bool := unamb_ctx [] t k.
End Unamb.

(* ---- spacing-free skeleton: two surface trees have the same shape iff they differ only in their
   spacing annotations (C09) ---- *)
Inductive skel : Type :=
| KAtom (arm : nat) (name : str)
| KSet (ext : bool) (items : list skel)
| KComp (arm : nat) (items : list skel)
| KStmt (arm : nat) (s p : skel).

Fixpoint erase (t : sterm) : skel :=
  match t with
  | SAtom arm name => KAtom arm name
  | SSet ext _ _ items _ => KSet ext (map erase items)
  | SComp arm _ _ items _ => KComp arm (map erase items)
  | SStmt arm _ _ _ _ s p => KStmt arm (erase s) (erase p)
  end.

Definition same_shape (t1 t2 : sterm) : Prop := erase t1 = erase t2.

(* the same tree with a given spacing everywhere *)
Fixpoint respace (n : nat) (t : sterm) : sterm :=
  match t with
  | SAtom arm name => SAtom arm name
  | SSet ext _ _ items _ => SSet ext n (fun _ => (n, n)) (map (respace n) items) n
  | SComp arm _ _ items _ => SComp arm n (fun _ => (n, n)) (map (respace n) items) n
  | SStmt arm _ _ _ _ s p => SStmt arm n n n n (respace n s) (respace n p)
  end.
Definition nospace : sterm -> sterm := respace 0.
