(* Model/SstLex.v -- the LEXICAL reading of a surface tree of an enum format (C03, C09, C10):
   what the lexical parser of the same-named lexical format is expected to return for a text
   `render E t`, and the boolean table conditions that tie an enum format record E to a lexical
   format record L ("same-named").  Definitions only; proofs in Proofs/AgreeP.v.

   [lex_tree E t]     atom: prefix keyword of its arm and the name as written; compound: connecter
                      keyword of its arm and the items; set: the bracket pair; statement: the copula
                      keyword AS WRITTEN (derived copulas stay derived -- expanding them is the
                      fold's business).  Spacing annotations are ignored: the lexical parser
                      filters every whitespace character before it does anything else.
   [lex_then_fold]    the second pipeline of C03: lexical parse_term, then fold with the enum format.
   [agree_ok ia E L]  finite checks on the regenerated tables Gen/EnumFormats.v, Gen/EnumArms.v,
                      Gen/LexFormats.v (discharged by vm_compute for the three shipped pairs). *)
From Nv Require Export Model.SstOk Model.LexSpec Model.Fold.

Section LexTree.
  Variable E : efmt.

  Fixpoint lex_tree (t : sterm) : lterm :=
    match t with
    | SAtom arm name => LAtom (atom_prefix E arm) name
    | SSet ext _ _ items _ => LSet (set_lb E ext) (map lex_tree items) (set_rb E ext)
    | SComp arm _ _ items _ => LCompound (comp_kw E arm) (map lex_tree items)
    | SStmt arm _ _ _ _ s p => LStatement (stmt_kw E arm) (lex_tree s) (lex_tree p)
    end.

End LexTree.

(* well-shaped trees: every arm index is in range and every component list is non-empty
   (true of every tree that has a meaning: odesugar t = Some v) *)
Fixpoint shape_ok (t : sterm) : bool :=
  match t with
  | SAtom arm _ => Nat.ltb arm (length parse_atom_arms)
  | SSet _ _ _ items _ => match items with [] => false | _ => true end && forallb shape_ok items
  | SComp arm _ _ items _ =>
      Nat.ltb arm (length parse_compound_arms) && match items with [] => false | _ => true end && forallb shape_ok items
  | SStmt arm _ _ _ _ s p => Nat.ltb arm (length parse_statement_arms) && shape_ok s && shape_ok p
  end.

(* every name of the tree consists of name characters of E *)
Fixpoint names_ok (ia : N -> bool) (E : efmt) (t : sterm) : bool :=
  match t with
  | SAtom _ name => forallb (name_charb ia E) name
  | SSet _ _ _ items _ | SComp _ _ _ items _ => forallb (names_ok ia E) items
  | SStmt _ _ _ _ _ s p => names_ok ia E s && names_ok ia E p
  end.

(* the second pipeline:`format_lexical.parse_term(text)` then `try_fold_into(&format_enum)`.
   A lexical parse error is a fold-pipeline error; the model's LPanic / LFuel (excluded by C05) are
   mapped to FPanic so that no theorem of the form `... = FOk v` can hide behind them. *)
Definition lres_fold (E : efmt) (r : lres lterm) : fres term :=
  match r with LOk x => fold_term E x | LErr => FErr | LPanic | LFuel => FPanic end.
Definition lex_then_fold (ia : N -> bool) (L : lfmt) (E : efmt) (text : str) : fres term :=
  lres_fold E (lex_parse_term ia L text).

(* ---- the table conditions ---- *)
Definition ncs_eqb (a b : name_char_spec) : bool :=
  Bool.eqb (nc_alnum a) (nc_alnum b) && str_eqb (nc_extra a) (nc_extra b) &&
  match nc_above a, nc_above b with
  | Some x, Some y => N.eqb x y
  | None, None => true
  | _, _ => false
  end.

(* the entries of a dictionary's iteration order that are tried BEFORE the keyword p *)
Fixpoint tried_before (p : str) (dict : list str) : list str :=
  match dict with
  | [] => []
  | q :: rest => if str_eqb q p then [] else q :: tried_before p rest
  end.

Section Agree.
  Variable ia : N -> bool.
  Variable E : efmt.
  Variable L : lfmt.
  Let C := compile L.

  (* brackets and separator are the same strings *)
  Definition agree_brackets : bool :=
    str_eqb (fst (l_compound_brackets L)) (compound_brackets_0 E) &&
    str_eqb (snd (l_compound_brackets L)) (compound_brackets_1 E) &&
    str_eqb (l_separator L) (compound_separator E) &&
    str_eqb (fst (l_statement_brackets L)) (statement_brackets_0 E) &&
    str_eqb (snd (l_statement_brackets L)) (statement_brackets_1 E).

  (* every keyword an arm of the enum parser reads is in the corresponding lexical dictionary;
     the copulas the lexical name scan stops at are copulas the enum name scan stops at *)
  Definition agree_vocab : bool :=
    forallb (fun a => str_in (fst a E) (c_prefixes C)) parse_atom_arms &&
    forallb (fun a => str_in (fst a E) (c_connecters C)) parse_compound_arms &&
    forallb (fun a => str_in (fst a E) (c_copulas C)) parse_statement_arms &&
    pair_in (set_lb E true, set_rb E true) (c_set_brackets C) &&
    pair_in (set_lb E false, set_rb E false) (c_set_brackets C) &&
    forallb (fun c => str_in c (gen_copulas E)) (c_copulas C) &&
    ncs_eqb (name_char E) (l_is_identifier L).

  (* atom prefixes: the lexical dictionary tries its keywords in descending code-point order, the
     enum parser in the order of its arm list.  A keyword q the dictionary tries before the prefix
     p of arm i is either tested earlier by the enum parser as well (so the enum-side condition
     covers it) or can never start a text that starts with p. *)
  Definition agree_prefix_order : bool :=
    forallb (fun i =>
               let p := atom_prefix E i in
               forallb (fun q => str_in q (earlier_prefixes E i) || incompat q p)
                       (tried_before p (c_prefixes C)))
            (seq 0 (length parse_atom_arms)).

  (* whitespace: the lexical parser drops every space_for_parse character; the enum format's space
     keyword consists of such characters, no other keyword of a term and no name character does *)
  Definition agree_space : bool :=
    l_remove_spaces_before_parse L &&
    allws L (space_parse E) &&
    forallb (fun a => nows L (fst a E)) parse_atom_arms &&
    forallb (fun a => nows L (fst a E)) parse_compound_arms &&
    forallb (fun a => nows L (fst a E)) parse_statement_arms &&
    forallb (nows L) [compound_brackets_0 E; compound_brackets_1 E; compound_separator E;
                      statement_brackets_0 E; statement_brackets_1 E;
                      set_lb E true; set_rb E true; set_lb E false; set_rb E false] &&
    forallb (fun c => negb (space_for_parse L c) || negb (name_charb ia E c)) white_space_points &&
    match l_space_is_for_parse L with SpaceIsWhitespace => true end.

  Definition agree_ok : bool := agree_brackets && agree_vocab && agree_prefix_order && agree_space.

  (* the lexical domain of the term layer, with prefix-only atoms (the placeholder `_` of an image):
     an atom has a dictionary prefix, identifier characters as its name, and a non-empty text *)
  Fixpoint lterm_ok (t : lterm) : bool :=
    match t with
    | LAtom p n => str_in p (c_prefixes C) && forallb (ident L ia) n && (LexParser.nonempty n || LexParser.nonempty p)
    | LCompound c ts => str_in c (c_connecters C) && nonempty_list ts && forallb lterm_ok ts
    | LSet l ts r => pair_in (l, r) (c_set_brackets C) && nonempty_list ts && forallb lterm_ok ts
    | LStatement c s p => str_in c (c_copulas C) && lterm_ok s && lterm_ok p
    end.
End Agree.

(* the same-named pairs *)
Definition shipped_pairs : list (efmt * lfmt) :=
  [(FORMAT_ASCII, LEX_ASCII); (FORMAT_LATEX, LEX_LATEX); (FORMAT_HAN, LEX_HAN)].
