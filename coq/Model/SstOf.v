(* Model/SstOf.v -- the canonical surface tree of an enum term: WHAT THE FORMATTER PRINTS, as a surface
   tree of Model/Sst.v (first half of C01: formatter side), and the well-formedness of the property as
   a boolean.  Definitions only; proofs in Proofs/EnumFmtP.v.

   [sst_of E t]: for each constructor the arm of parse_atom_arms / parse_compound_arms /
   parse_statement_arms (regenerated, Gen/EnumArms.v) whose keyword is the one the formatter arm
   fmt_arm_* prints (compared on the record E) and whose payload builds that constructor; sets with
   their own brackets are SSet; images are SComp with the placeholder atom inserted by the formatter's
   own ImageIterator (img_iter_gen); spacing is what the templates emit: nothing after the left bracket
   and before the right one, `separator space_format_terms` before every component of a connecter
   compound and between components of a set, `space_format_terms` on both sides of a copula.
   None = the formatter arm has a shape the surface syntax does not have, or no parser arm exists, or
   a connecter compound has no component at all (the formatter then prints `(kw sep sp)`, which is not
   the text of any surface tree): excluded by the table obligation [arms_cover E] and by [wf_term].

   Field identity.  Keyword fields are functions efmt -> str; "the same FIELD" is tested on the probe
   record [probe_fmt] in which all 60 string fields are pairwise different ([probe_ok]), i.e.
   [arms_cover probe_fmt] says that every constructor has a parser arm reading the very field its
   formatter arm prints (a formatter/parser arm rewired by copy-paste breaks it even if two keywords
   happen to coincide in a shipped format).  [arms_cover E] for a shipped E is what the theorems use. *)
From Nv Require Export Model.Sst.

(* ---- the probe record: every string field is a different one-character string ---- *)
Definition probe_fmt : efmt := {|
  name_char := {| nc_alnum := false; nc_extra := []; nc_above := None |};
  space_parse := [1]%N;
  space_format_terms := [2]%N;
  space_format_items := [3]%N;
  atom_prefix_word := [4]%N;
  atom_prefix_variable_independent := [5]%N;
  atom_prefix_variable_dependent := [6]%N;
  atom_prefix_variable_query := [7]%N;
  atom_prefix_interval := [8]%N;
  atom_prefix_operator := [9]%N;
  atom_prefix_placeholder := [10]%N;
  compound_brackets_0 := [11]%N;
  compound_brackets_1 := [12]%N;
  compound_separator := [13]%N;
  compound_brackets_set_extension_0 := [14]%N;
  compound_brackets_set_extension_1 := [15]%N;
  compound_brackets_set_intension_0 := [16]%N;
  compound_brackets_set_intension_1 := [17]%N;
  compound_connecter_intersection_extension := [18]%N;
  compound_connecter_intersection_intension := [19]%N;
  compound_connecter_difference_extension := [20]%N;
  compound_connecter_difference_intension := [21]%N;
  compound_connecter_product := [22]%N;
  compound_connecter_image_extension := [23]%N;
  compound_connecter_image_intension := [24]%N;
  compound_connecter_conjunction := [25]%N;
  compound_connecter_disjunction := [26]%N;
  compound_connecter_negation := [27]%N;
  compound_connecter_conjunction_sequential := [28]%N;
  compound_connecter_conjunction_parallel := [29]%N;
  statement_brackets_0 := [30]%N;
  statement_brackets_1 := [31]%N;
  statement_copula_inheritance := [32]%N;
  statement_copula_similarity := [33]%N;
  statement_copula_implication := [34]%N;
  statement_copula_equivalence := [35]%N;
  statement_copula_instance := [36]%N;
  statement_copula_property := [37]%N;
  statement_copula_instance_property := [38]%N;
  statement_copula_implication_predictive := [39]%N;
  statement_copula_implication_concurrent := [40]%N;
  statement_copula_implication_retrospective := [41]%N;
  statement_copula_equivalence_predictive := [42]%N;
  statement_copula_equivalence_concurrent := [43]%N;
  statement_copula_equivalence_retrospective := [44]%N;
  sentence_punctuation_judgement := [45]%N;
  sentence_punctuation_goal := [46]%N;
  sentence_punctuation_question := [47]%N;
  sentence_punctuation_quest := [48]%N;
  sentence_stamp_brackets_0 := [49]%N;
  sentence_stamp_brackets_1 := [50]%N;
  sentence_stamp_past := [51]%N;
  sentence_stamp_present := [52]%N;
  sentence_stamp_future := [53]%N;
  sentence_stamp_fixed := [54]%N;
  sentence_truth_brackets_0 := [55]%N;
  sentence_truth_brackets_1 := [56]%N;
  sentence_truth_separator := [57]%N;
  task_budget_brackets_0 := [58]%N;
  task_budget_brackets_1 := [59]%N;
  task_budget_separator := [60]%N
|}.

Definition probe_fields (E : efmt) : list str :=
  [space_parse E; space_format_terms E; space_format_items E; atom_prefix_word E;
   atom_prefix_variable_independent E; atom_prefix_variable_dependent E; atom_prefix_variable_query E;
   atom_prefix_interval E; atom_prefix_operator E; atom_prefix_placeholder E; compound_brackets_0 E;
   compound_brackets_1 E; compound_separator E; compound_brackets_set_extension_0 E;
   compound_brackets_set_extension_1 E; compound_brackets_set_intension_0 E;
   compound_brackets_set_intension_1 E; compound_connecter_intersection_extension E;
   compound_connecter_intersection_intension E; compound_connecter_difference_extension E;
   compound_connecter_difference_intension E; compound_connecter_product E;
   compound_connecter_image_extension E; compound_connecter_image_intension E;
   compound_connecter_conjunction E; compound_connecter_disjunction E; compound_connecter_negation E;
   compound_connecter_conjunction_sequential E; compound_connecter_conjunction_parallel E;
   statement_brackets_0 E; statement_brackets_1 E; statement_copula_inheritance E;
   statement_copula_similarity E; statement_copula_implication E; statement_copula_equivalence E;
   statement_copula_instance E; statement_copula_property E; statement_copula_instance_property E;
   statement_copula_implication_predictive E; statement_copula_implication_concurrent E;
   statement_copula_implication_retrospective E; statement_copula_equivalence_predictive E;
   statement_copula_equivalence_concurrent E; statement_copula_equivalence_retrospective E;
   sentence_punctuation_judgement E; sentence_punctuation_goal E; sentence_punctuation_question E;
   sentence_punctuation_quest E; sentence_stamp_brackets_0 E; sentence_stamp_brackets_1 E;
   sentence_stamp_past E; sentence_stamp_present E; sentence_stamp_future E; sentence_stamp_fixed E;
   sentence_truth_brackets_0 E; sentence_truth_brackets_1 E; sentence_truth_separator E;
   task_budget_brackets_0 E; task_budget_brackets_1 E; task_budget_separator E].

Fixpoint str_distinct (l : list str) : bool :=
  match l with
  | [] => true
  | x :: l' => negb (existsb (str_eqb x) l') && str_distinct l'
  end.
Definition probe_ok : bool := Nat.eqb (length (probe_fields probe_fmt)) 60 && str_distinct (probe_fields probe_fmt).

(* ---- payload tests ---- *)
Definition atom_init_eqb (a b : atom_init) : bool :=
  match a, b with
  | AIName c, AIName c' => name_ctor_eqb c c'
  | AIUnit c, AIUnit c' => unit_ctor_eqb c c'
  | AINum c, AINum c' => num_ctor_eqb c c'
  | _, _ => false
  end.
Definition comp_init_eqb (a b : comp_init) : bool :=
  match a, b with
  | CISet c, CISet c' => set_ctor_eqb c c'
  | CIVec c, CIVec c' => vec_ctor_eqb c c'
  | CIImg c, CIImg c' => img_ctor_eqb c c'
  | CIBox1 c, CIBox1 c' => box1_ctor_eqb c c'
  | CIBox2 c, CIBox2 c' => box2_ctor_eqb c c'
  | _, _ => false
  end.
Definition stmt_builds (b : stmt_build) (c : box2_ctor) : bool :=
  match b with SBCtor c' => box2_ctor_eqb c' c | SBHelper _ => false end.

(* ---- spacing: space_format_terms must be k copies of the parse space ---- *)
Fixpoint find_rep (fuel k : nat) (unit target : str) : option nat :=
  match fuel with
  | O => None
  | S fuel' => if str_eqb (rep k unit) target then Some k else find_rep fuel' (S k) unit target
  end.
Definition space_count (E : efmt) : option nat :=
  find_rep (S (length (space_format_terms E))) 0 (space_parse E) (space_format_terms E).
Definition fmt_space_ok (E : efmt) : bool := match space_count E with Some _ => true | None => false end.
Definition canon_k (E : efmt) : nat := match space_count E with Some k => k | None => O end.

Definition is_some {A} (o : option A) : bool := match o with Some _ => true | None => false end.
Definition nonnil {A} (l : list A) : bool := match l with [] => false | _ => true end.

Section SstOf.
  Variable E : efmt.

  (* index of the first arm printing keyword kw (on E) and building the payload *)
  Definition atom_arm_ix (kw : efmt -> str) (init : atom_init) : option nat :=
    find_index (fun x => str_eqb (fst x E) (kw E) && atom_init_eqb (snd x) init) parse_atom_arms 0.
  Definition comp_arm_ix (kw : efmt -> str) (init : comp_init) : option nat :=
    find_index (fun x => str_eqb (fst x E) (kw E) && comp_init_eqb (snd x) init) parse_compound_arms 0.
  Definition stmt_arm_ix (kw : efmt -> str) (c : box2_ctor) : option nat :=
    find_index (fun x => str_eqb (fst x E) (kw E) && stmt_builds (snd x) c) parse_statement_arms 0.

  Definition sst_atom (a : fmt_arm) (init : atom_init) (name : str) : option sterm :=
    match a with
    | FmtAtom p => option_map (fun i => SAtom i name) (atom_arm_ix p init)
    | _ => None
    end.

  Definition cgaps : nat -> nat * nat := canon_gaps (canon_k E).

  (* a connecter compound `( kw sep sp item ... )`; the formatter prints `sep sp` once more when there is
     no item at all, which no surface tree renders: None *)
  Definition sst_comp (kw : efmt -> str) (init : comp_init) (items : list sterm) : option sterm :=
    match items with
    | [] => None
    | _ => option_map (fun i => SComp i 0 cgaps items 0) (comp_arm_ix kw init)
    end.

  (* a set constructor: its own bracket pair (which must be the pair p_term dispatches on for the same
     constructor) or a connecter *)
  Definition sst_set (a : fmt_arm) (c : set_ctor) (items : list sterm) : option sterm :=
    match a with
    | FmtSet l r =>
        if set_ctor_eqb c SetExtension && str_eqb (l E) (set_lb E true) && str_eqb (r E) (set_rb E true)
        then Some (SSet true 0 cgaps items 0)
        else if set_ctor_eqb c SetIntension && str_eqb (l E) (set_lb E false) && str_eqb (r E) (set_rb E false)
        then Some (SSet false 0 cgaps items 0)
        else None
    | FmtCompound kw => sst_comp kw (CISet c) items
    | _ => None
    end.

  Definition sst_vec (a : fmt_arm) (c : vec_ctor) (items : list sterm) : option sterm :=
    match a with FmtCompound kw => sst_comp kw (CIVec c) items | _ => None end.

  Definition sst_placeholder : option sterm := sst_atom (fmt_arm_unit Placeholder) (AIUnit Placeholder) [].

  Definition sst_img (a : fmt_arm) (c : img_ctor) (i : N) (items : list sterm) : option sterm :=
    match a, sst_placeholder with
    | FmtImage kw, Some ph => sst_comp kw (CIImg c) (img_iter_gen ph 0 i items)
    | _, _ => None
    end.

  Definition sst_box1 (a : fmt_arm) (c : box1_ctor) (x : sterm) : option sterm :=
    match a with FmtCompound kw => sst_comp kw (CIBox1 c) [x] | _ => None end.

  Definition sst_box2 (a : fmt_arm) (c : box2_ctor) (x y : sterm) : option sterm :=
    match a with
    | FmtStatement kw => option_map (fun i => SStmt i 0 (canon_k E) (canon_k E) 0 x y) (stmt_arm_ix kw c)
    | FmtCompound kw => sst_comp kw (CIBox2 c) [x; y]
    | _ => None
    end.

  Fixpoint sst_of (t : term) : option sterm :=
    match t with
    | TName c n => sst_atom (fmt_arm_name c) (AIName c) n
    | TUnit c => sst_atom (fmt_arm_unit c) (AIUnit c) []
    | TNum c i => sst_atom (fmt_arm_num c) (AINum c) (show_N i)
    | TSet c l => match omap sst_of l with Some items => sst_set (fmt_arm_set c) c items | None => None end
    | TVec c l => match omap sst_of l with Some items => sst_vec (fmt_arm_vec c) c items | None => None end
    | TImg c i l => match omap sst_of l with Some items => sst_img (fmt_arm_img c) c i items | None => None end
    | TBox1 c a => match sst_of a with Some x => sst_box1 (fmt_arm_box1 c) c x | None => None end
    | TBox2 c a b =>
        match sst_of a, sst_of b with
        | Some x, Some y => sst_box2 (fmt_arm_box2 c) c x y
        | _, _ => None
        end
    end.

  (* ---- the table obligation: every constructor has its arm, and the arm's payload is filled the way
     the documented meaning (odesugar / fill_pure / atom_value) expects ---- *)
  Definition dummy : sterm := SAtom 0 [].

  (* total version (the dummy is never reached for well-formed terms: sst_of_desugar) *)
  Definition sst (t : term) : sterm := match sst_of t with Some s => s | None => dummy end.

  (* every atom of a surface tree has a non-empty text *)
  Fixpoint snonempty (s : sterm) : bool :=
    match s with
    | SAtom arm name => nonempty (atom_prefix E arm ++ name)
    | SSet _ _ _ items _ | SComp _ _ _ items _ => forallb snonempty items
    | SStmt _ _ _ _ _ x y => snonempty x && snonempty y
    end.

  Definition cover_name (c : name_ctor) : bool :=
    is_some (sst_atom (fmt_arm_name c) (AIName c) []) && match setnamek_name c with SnReplace => true | _ => false end.
  Definition cover_unit (c : unit_ctor) : bool := is_some (sst_atom (fmt_arm_unit c) (AIUnit c) []).
  Definition cover_num (c : num_ctor) : bool :=
    is_some (sst_atom (fmt_arm_num c) (AINum c) []) && match setnamek_num c with SnParseUInt => true | _ => false end.
  Definition cover_set (c : set_ctor) : bool :=
    is_some (sst_set (fmt_arm_set c) c [dummy]) &&
    match fmt_arm_set c with
    | FmtSet _ _ => true
    | _ => match fillk_set c, pushk_set c with FillPush, PushSetExtend => true | _, _ => false end
    end.
  Definition cover_vec (c : vec_ctor) : bool :=
    is_some (sst_vec (fmt_arm_vec c) c [dummy]) &&
    match fillk_vec c, pushk_vec c with FillPush, PushVecExtend => true | _, _ => false end.
  Definition cover_img (c : img_ctor) : bool :=
    is_some (sst_img (fmt_arm_img c) c 0 []) && match fillk_img c with FillImage => true | _ => false end.
  Definition cover_box1 (c : box1_ctor) : bool :=
    is_some (sst_box1 (fmt_arm_box1 c) c dummy) && match fillk_box1 c with FillUnary => true | _ => false end.
  Definition cover_box2 (c : box2_ctor) : bool :=
    is_some (sst_box2 (fmt_arm_box2 c) c dummy dummy) &&
    match fmt_arm_box2 c with
    | FmtStatement _ => true
    | _ => match fillk_box2 c with FillBinary => true | _ => false end
    end.

  Definition arms_cover : bool :=
    forallb cover_name all_name_ctor && forallb cover_unit all_unit_ctor && forallb cover_num all_num_ctor
    && forallb cover_set all_set_ctor && forallb cover_vec all_vec_ctor && forallb cover_img all_img_ctor
    && forallb cover_box1 all_box1_ctor && forallb cover_box2 all_box2_ctor.
End SstOf.

(* ---- well-formed values (property C01) ---- *)
Fixpoint has_infix (p s : str) : bool :=
  starts p s || match s with [] => false | _ :: s' => has_infix p s' end.

Section Wf.
  Variable is_alnum : N -> bool.
  Variable E : efmt.

  (* the property's condition on names: non-empty identifier of the format, not beginning with one of
     its (non-empty) atom prefixes, not beginning or ending with '-', containing none of its copulas *)
  Definition name_ok (n : str) : bool :=
    nonempty n && forallb (name_charb is_alnum E) n
    && negb (existsb (fun x => nonempty (fst x E) && starts (fst x E) n) parse_atom_arms)
    && negb (starts [45] n) && negb (ends [45] n)
    && negb (existsb (fun c => has_infix c n) (gen_copulas E)).

  Definition has_placeholder (l : list term) : bool := existsb (fun x => term_eqb x placeholder) l.

  (* The property's well-formedness, clause by clause, plus what the proof of sst_of_desugar forced:
       names       : name_ok (the property; only "non-empty" is used by the formatter half, the rest is
                     what the parser half's unamb needs);
       interval    : value <= usize::MAX -- not a restriction on Rust values (the payload IS a usize),
                     needed because the model's payload is an unbounded N and the printed decimal must
                     re-read (read_usize (show_N n) = Some n, Proofs/DecP.v);
       set payloads: non-empty (property) and duplicate-free up to term_eqb -- the representation
                     invariant of a HashSet payload (set_ok), true of every Rust value; then
                     mk_set l = l, i.e. the re-parsed set has the same elements in the same model order;
       vectors     : non-empty (property; the formatter prints `(kw sep sp)` for an empty one, which is
                     not the text of any compound);
       images      : index <= number of components (otherwise the formatter's ImageIterator emits no
                     placeholder at all); the component list itself may be empty (`(/, _)`);
                     [k1 = true] also excludes the inherent ambiguity class K1: one of the image's own
                     components BEFORE its index is a placeholder -- the parser takes the FIRST
                     placeholder of the written list as the index (K1_witness, Proofs/EnumFmtP.v);
       negation / differences / statements: arity is fixed by the value type. *)
  Fixpoint wf_term_gen (k1 : bool) (t : term) : bool :=
    match t with
    | TName _ n => name_ok n
    | TUnit _ => true
    | TNum _ i => i <=? usize_max          (* the payload is a usize *)
    | TSet _ l => nonnil l && forallb (wf_term_gen k1) l && nodup_eqb l
    | TVec _ l => nonnil l && forallb (wf_term_gen k1) l
    | TImg _ i l => (i <=? nlen l) && forallb (wf_term_gen k1) l && (negb k1 || negb (has_placeholder (take (N.to_nat i) l)))
    | TBox1 _ a => wf_term_gen k1 a
    | TBox2 _ a b => wf_term_gen k1 a && wf_term_gen k1 b
    end.
  Definition wf_term : term -> bool := wf_term_gen true.
  Definition wf_term_pre : term -> bool := wf_term_gen false.   (* the property's wf without the K1 exclusion *)

  (* the term part of sentences / tasks / Narsese values (numbers are not needed for the term layer) *)
  Definition wf_value {F} (v : narsese F) : bool :=
    match v with
    | NTerm t => wf_term t
    | NSentence s => wf_term (s_term s)
    | NTask k => wf_term (s_term (fst k))
    end.
End Wf.
