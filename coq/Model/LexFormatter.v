(* Model/LexFormatter.v -- the lexical formatter (src/conversion/string/impl_lexical/formatter.rs
   with common/common_narsese_templates.rs and nar_dev_utils join_to,
   join_lest_multiple_separators, add_space_if_necessary_and_flush_buffer).  Definitions only.
   The lexical model does not interpret the strings of a value: prefix, connecter, set brackets,
   copula, punctuation, stamp, truth and budget entries are written out as they are. *)
From Nv Require Export Model.Sentence Model.LexFormat.

(* template_components: `separator space` before every component but the first *)
Definition ltemplate_components (sep space : str) (items : list str) : str :=
  match items with
  | [] => []
  | x :: rest => x ++ concat (map (fun y => sep ++ space ++ y) rest)
  end.

(* template_compound: left connecter separator space components right *)
Definition ltemplate_compound (l conn sep space r : str) (items : list str) : str :=
  l ++ conn ++ sep ++ space ++ ltemplate_components sep space items ++ r.

Definition ltemplate_compound_set (l sep space r : str) (items : list str) : str :=
  l ++ ltemplate_components sep space items ++ r.

Definition ltemplate_statement (l subj cop pred space r : str) : str :=
  l ++ subj ++ space ++ cop ++ space ++ pred ++ r.

(* join_to: separator between consecutive elements *)
Fixpoint ljoin_to (sep : str) (items : list str) : str :=
  match items with
  | [] => []
  | [x] => x
  | x :: rest => x ++ sep ++ ljoin_to sep rest
  end.

(* join_lest_multiple_separators: the first element is pushed as it is (even when empty);
   later EMPTY elements are skipped together with their separator *)
Definition ljoin_lest (items : list str) (sep : str) : str :=
  match items with
  | [] => []
  | x :: rest => x ++ concat (map (fun y => match y with [] => [] | _ => sep ++ y end) rest)
  end.

(* The formatter, generic in the two spacing strings (`space.format_terms`, `space.format_items`):
   the real formatter is the instance at the format's own strings; the instance at two empty
   strings is what the parser's `idealize_env` leaves of a formatted text (Proofs/LexPStrip.v). *)
Section LexFmtG.
  Variable F : lfmt.
  Variable format_terms format_items : str.

  Fixpoint lex_fmt_term_g (t : lterm) : str :=
    match t with
    | LAtom prefix name => prefix ++ name                       (* template_atom *)
    | LCompound connecter terms =>
        ltemplate_compound (fst (l_compound_brackets F)) connecter (l_separator F) format_terms
                           (snd (l_compound_brackets F)) (map lex_fmt_term_g terms)
    | LSet lbr terms rbr =>
        ltemplate_compound_set lbr (l_separator F) format_terms rbr (map lex_fmt_term_g terms)
    | LStatement copula subject predicate =>
        ltemplate_statement (fst (l_statement_brackets F)) (lex_fmt_term_g subject) copula
                            (lex_fmt_term_g predicate) format_terms (snd (l_statement_brackets F))
    end.

  (* _format_truth: an empty truth prints nothing *)
  Definition lex_fmt_truth (truth : list str) : str :=
    match truth with
    | [] => []
    | _ => fst (l_truth_brackets F) ++ ljoin_to (l_truth_separator F) truth ++ snd (l_truth_brackets F)
    end.

  (* _format_budget: the brackets are always printed *)
  Definition lex_fmt_budget (budget : list str) : str :=
    fst (l_budget_brackets F) ++ ljoin_to (l_budget_separator F) budget ++ snd (l_budget_brackets F).

  (* _format_sentence = template_sentence(term, punctuation, stamp, truth, format_items) *)
  Definition lex_fmt_sentence_g (s : lsentence) : str :=
    lex_fmt_term_g (ls_term s) ++
    ljoin_lest [ls_punct s; ls_stamp s; lex_fmt_truth (ls_truth s)] format_items.

  (* _format_task: budget, then (format_items, sentence) unless the sentence text is empty *)
  Definition lex_fmt_task_g (k : ltask) : str :=
    let b := lex_fmt_budget (lt_budget k) in
    match lex_fmt_sentence_g (lt_sentence k) with
    | [] => b
    | s => b ++ format_items ++ s
    end.

  Definition lex_fmt_g (v : lnarsese) : str :=
    match v with
    | NTerm t => lex_fmt_term_g t
    | NSentence s => lex_fmt_sentence_g s
    | NTask k => lex_fmt_task_g k
    end.
End LexFmtG.

Definition lex_fmt_term (F : lfmt) : lterm -> str := lex_fmt_term_g F (l_format_terms F).
Definition lex_fmt_sentence (F : lfmt) : lsentence -> str := lex_fmt_sentence_g F (l_format_terms F) (l_format_items F).
Definition lex_fmt_task (F : lfmt) : ltask -> str := lex_fmt_task_g F (l_format_terms F) (l_format_items F).
Definition lex_fmt (F : lfmt) : lnarsese -> str := lex_fmt_g F (l_format_terms F) (l_format_items F).
