(* Model/Sentence.v -- enum sentences, tasks and the Narsese value (src/enum_narsese/sentence, task),
   generic in the float type F (raw bit patterns in executions; abstract in the parser theorems). *)
From Nv Require Export Model.Access.

Inductive punct := Judgement | Goal | Question | Quest.
Inductive stamp := Eternal | Past | Present | Future | Fixed (t : Z).

Section Sent.
  Variable F : Type.
  Inductive truthv := TruthEmpty | TruthSingle (f : F) | TruthDouble (f c : F).
  Inductive budgetv := BudgetEmpty | BudgetSingle (p : F) | BudgetDouble (p d : F) | BudgetTriple (p d q : F).
  Inductive sentence :=
  | SJudgement (t : term) (tr : truthv) (st : stamp)
  | SGoal (t : term) (tr : truthv) (st : stamp)
  | SQuestion (t : term) (st : stamp)
  | SQuest (t : term) (st : stamp).
  Definition task : Type := sentence * budgetv.
  Definition narsese : Type := nvalue term sentence task.

  (* Sentence::from_punctuation *)
  Definition from_punctuation (t : term) (p : punct) (st : stamp) (tr : truthv) : sentence :=
    match p with
    | Judgement => SJudgement t tr st
    | Goal => SGoal t tr st
    | Question => SQuestion t st
    | Quest => SQuest t st
    end.

  Definition s_term (s : sentence) : term :=
    match s with SJudgement t _ _ | SGoal t _ _ | SQuestion t _ | SQuest t _ => t end.
  Definition s_punct (s : sentence) : punct :=
    match s with SJudgement _ _ _ => Judgement | SGoal _ _ _ => Goal | SQuestion _ _ => Question | SQuest _ _ => Quest end.
  Definition s_stamp (s : sentence) : stamp :=
    match s with SJudgement _ _ st | SGoal _ _ st | SQuestion _ st | SQuest _ st => st end.
  (* get_truth: None for questions and quests *)
  Definition s_truth (s : sentence) : option truthv :=
    match s with SJudgement _ tr _ | SGoal _ tr _ => Some tr | _ => None end.

  Definition truth_list (t : truthv) : list F :=
    match t with TruthEmpty => [] | TruthSingle f => [f] | TruthDouble f c => [f; c] end.
  Definition budget_list (b : budgetv) : list F :=
    match b with BudgetEmpty => [] | BudgetSingle p => [p] | BudgetDouble p d => [p; d] | BudgetTriple p d q => [p; d; q] end.
  Definition budget_empty (b : budgetv) : bool := match b with BudgetEmpty => true | _ => false end.

  (* CastToTask / TryCastToSentence (src/enum_narsese/task/mod.rs) *)
  Definition cast_to_task (s : sentence) : task := (s, BudgetEmpty).
  Definition try_cast_to_sentence (k : task) : sentence + task :=
    if budget_empty (snd k) then inl (fst k) else inr k.
End Sent.

Arguments TruthEmpty {F}.
Arguments TruthSingle {F} f.
Arguments TruthDouble {F} f c.
Arguments BudgetEmpty {F}.
Arguments BudgetSingle {F} p.
Arguments BudgetDouble {F} p d.
Arguments BudgetTriple {F} p d q.
Arguments SJudgement {F} t tr st.
Arguments SGoal {F} t tr st.
Arguments SQuestion {F} t st.
Arguments SQuest {F} t st.
Arguments from_punctuation {F} t p st tr.
Arguments s_term {F} s.
Arguments s_punct {F} s.
Arguments s_stamp {F} s.
Arguments s_truth {F} s.
Arguments truth_list {F} t.
Arguments budget_list {F} b.
Arguments budget_empty {F} b.
Arguments cast_to_task {F} s.
Arguments try_cast_to_sentence {F} k.

(* ---- lexical sentences / tasks (src/lexical/sentence.rs, task.rs) ---- *)
Record lsentence := { ls_term : lterm; ls_punct : str; ls_stamp : str; ls_truth : list str }.
Record ltask := { lt_budget : list str; lt_sentence : lsentence }.
Definition lnarsese : Type := nvalue lterm lsentence ltask.
Definition lcast_to_task (s : lsentence) : ltask := {| lt_budget := []; lt_sentence := s |}.
Definition ltry_cast_to_sentence (k : ltask) : lsentence + ltask :=
  match lt_budget k with [] => inl (lt_sentence k) | _ => inr k end.
