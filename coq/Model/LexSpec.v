(* Model/LexSpec.v -- specification vocabulary for the lexical round trip (C02): the property's
   domain [vocab_ok], the context-dependent unambiguity conditions [unamb] (what K5 violates),
   and the boolean table obligations [lex_rt_ok].  Definitions only. *)
From Nv Require Export Model.LexFormatter Model.LexParser.

(* neither string is a prefix of the other: then a is not a prefix of (b ++ anything) *)
Definition compat (a b : str) : bool := starts a b || starts b a.
Definition scompat (a b : str) : bool := ends a b || ends b a.

Definition first_is (P : N -> bool) (s : str) : bool := match s with [] => false | c :: _ => P c end.
Definition last_is (P : N -> bool) (s : str) : bool := first_is P (rev s).

(* [contains k s]: k occurs in s as a contiguous substring *)
Fixpoint contains (k s : str) : bool :=
  starts k s || match s with [] => false | _ :: s' => contains k s' end.

(* in a dictionary's iteration order, no entry tried BEFORE [kw] is prefix-comparable with kw ++ follow *)
Fixpoint first_match_ok (dict : list str) (follow : str) : bool :=
  match dict with
  | [] => true
  | kw :: rest =>
      forallb (fun later => negb (compat kw (later ++ follow))) rest && first_match_ok rest follow
  end.

Section Spec.
  Variable F : lfmt.
  Variable is_alnum : N -> bool.
  Let C := compile F.

  Definition ident (c : N) : bool := is_identifier F is_alnum c.
  Definition cl := fst (l_compound_brackets F).
  Definition cr := snd (l_compound_brackets F).
  Definition sl := fst (l_statement_brackets F).
  Definition sr := snd (l_statement_brackets F).
  Definition sep := l_separator F.

  (* the whitespace-free text of a term *)
  Definition f0 : lterm -> str := lex_fmt_term_g F [].
  (* the text the component loop sees: separator before every component *)
  Definition comps_text (ts : list lterm) : str := concat (map (fun t => sep ++ f0 t) ts).

  (* ---- the domain of C02 ---- *)
  Definition pair_in (t : str * str) (d : list (str * str)) : bool :=
    existsb (fun y => str_eqb (fst y) (fst t) && str_eqb (snd y) (snd t)) d.
  Definition str_in (s : str) (d : list str) : bool := existsb (str_eqb s) d.

  Definition keywords : list str :=
    filter nonempty
      (c_prefixes C ++ c_connecters C ++ c_copulas C ++ c_punctuations C ++
       concat (map (fun t => [fst t; snd t]) (c_set_brackets C ++ c_stamp_brackets C)) ++
       [cl; cr; sep; sl; sr; fst (l_truth_brackets F); snd (l_truth_brackets F); l_truth_separator F;
        fst (l_budget_brackets F); snd (l_budget_brackets F); l_budget_separator F]).

  (* identifier names: non-empty, identifier characters only, containing no keyword of the format *)
  Definition name_ok (n : str) : bool :=
    nonempty n && forallb ident n && forallb (fun k => negb (contains k n)) keywords.

  Definition nonempty_list {A} (ts : list A) : bool := match ts with [] => false | _ => true end.

  Fixpoint term_ok (t : lterm) : bool :=
    match t with
    | LAtom p n => str_in p (c_prefixes C) && name_ok n
    | LCompound c ts => str_in c (c_connecters C) && nonempty_list ts && forallb term_ok ts
    | LSet l ts r => pair_in (l, r) (c_set_brackets C) && nonempty_list ts && forallb term_ok ts
    | LStatement c s p => str_in c (c_copulas C) && term_ok s && term_ok p
    end.

  (* numeric strings of truth / budget: non-empty, digits and dots *)
  Definition number_ok (s : str) : bool :=
    nonempty s && forallb (fun c => is_ascii_digit c || (c =? 46)) s.

  (* stamp forms: empty, or left ++ content ++ right for a bracket pair of the format, the content
     (stamp-content characters) being empty when the left bracket is (enumerated stamps) *)
  Definition stamp_form (s : str) (t : str * str) : bool :=
    starts (fst t) s && ends (snd t) s && (length (fst t) + length (snd t) <=? length s)%nat &&
    let content := take (length s - length (fst t) - length (snd t)) (drop (length (fst t)) s) in
    forallb (in_class (l_is_stamp_content F)) content &&
    (nonempty (fst t) || negb (nonempty content)).
  Definition stamp_ok (s : str) : bool := negb (nonempty s) || existsb (stamp_form s) (c_stamp_brackets C).

  Definition sentence_ok (s : lsentence) : bool :=
    term_ok (ls_term s) && str_in (ls_punct s) (c_punctuations C) && stamp_ok (ls_stamp s) &&
    forallb number_ok (ls_truth s).

  Definition vocab_ok (v : lnarsese) : bool :=
    match v with
    | NTerm t => term_ok t
    | NSentence s => sentence_ok s
    | NTask k => sentence_ok (lt_sentence k) && forallb number_ok (lt_budget k)
    end.

  (* ---- unambiguity in context ---- *)
  (* what may follow an atom: the end, a non-identifier character, or a copula *)
  Definition follow_ok (k : str) : bool :=
    match k with
    | [] => true
    | c :: _ => negb (ident c) || match match_prefix (c_copulas C) k with Some _ => true | None => false end
    end.

  (* the prefix dictionary finds exactly [p] on the text, and no copula matches inside the name *)
  Definition atom_unamb (p n k : str) : Prop :=
    match_prefix (c_prefixes C) (p ++ n ++ k) = Some p /\
    forall i, (i < length n)%nat -> match_prefix (c_copulas C) (drop i n ++ k) = None.

  Fixpoint unamb (t : lterm) (k : str) {struct t} : Prop :=
    match t with
    | LAtom p n => atom_unamb p n k
    | LCompound _ ts =>
        (fix useq (ts : list lterm) : Prop :=
           match ts with
           | [] => True
           | t :: r => unamb t (comps_text r ++ cr ++ k) /\ useq r
           end) ts
    | LSet _ ts rb =>
        (fix useq (ts : list lterm) : Prop :=
           match ts with
           | [] => True
           | t :: r => unamb t (comps_text r ++ rb ++ k) /\ useq r
           end) ts
    | LStatement c s p => unamb s (c ++ f0 p ++ sr ++ k) /\ unamb p (sr ++ k)
    end.

  (* the component-list part of [unamb], by name *)
  Fixpoint unamb_seq (ts : list lterm) (kend : str) : Prop :=
    match ts with
    | [] => True
    | t :: r => unamb t (comps_text r ++ kend) /\ unamb_seq r kend
    end.

  (* [unamb] is decidable: the boolean version (sound, Proofs/LexPFinal.v unamb_b_sound) is what
     the correspondence check compares with the harness's restatement of the known class K5 *)
  Definition atom_unamb_b (p n k : str) : bool :=
    match match_prefix (c_prefixes C) (p ++ n ++ k) with Some q => str_eqb q p | None => false end &&
    forallb (fun i => match match_prefix (c_copulas C) (drop i n ++ k) with None => true | Some _ => false end)
            (seq 0 (length n)).

  Fixpoint unamb_b (t : lterm) (k : str) {struct t} : bool :=
    match t with
    | LAtom p n => atom_unamb_b p n k
    | LCompound _ ts =>
        (fix useq (ts : list lterm) : bool :=
           match ts with
           | [] => true
           | t :: r => unamb_b t (comps_text r ++ cr ++ k) && useq r
           end) ts
    | LSet _ ts rb =>
        (fix useq (ts : list lterm) : bool :=
           match ts with
           | [] => true
           | t :: r => unamb_b t (comps_text r ++ rb ++ k) && useq r
           end) ts
    | LStatement c s p => unamb_b s (c ++ f0 p ++ sr ++ k) && unamb_b p (sr ++ k)
    end.

  Definition top_term (v : lnarsese) : lterm :=
    match v with NTerm t => t | NSentence s => ls_term s | NTask k => ls_term (lt_sentence k) end.
  Definition unamb_top_b (v : lnarsese) : bool := unamb_b (top_term v) [].

  (* ---- table obligations of the term layer ---- *)
  Definition bracket_lefts : list str := map fst (c_set_brackets C) ++ [cl; sl].
  Definition bracket_rights : list str := map snd (c_set_brackets C) ++ [cr; sr].

  Fixpoint pairwise_incompat (l : list str) : bool :=
    match l with
    | [] => true
    | x :: r => forallb (fun y => negb (compat x y)) r && pairwise_incompat r
    end.

  Definition lex_term_ok : bool :=
    lex_starts_len_guard &&
    (* opening brackets: non-empty, first character not an identifier character, pairwise
       prefix-incomparable, and incomparable with every non-empty atom prefix *)
    forallb (fun b => first_is (fun c => negb (ident c)) b) bracket_lefts &&
    pairwise_incompat bracket_lefts &&
    forallb (fun b => forallb (fun p => negb (nonempty p) || negb (compat b p)) (c_prefixes C)) bracket_lefts &&
    (* separator and closing brackets: first character not an identifier character; a closing
       bracket is incomparable with the separator *)
    first_is (fun c => negb (ident c)) sep &&
    forallb (fun b => first_is (fun c => negb (ident c)) b && negb (compat b sep)) bracket_rights &&
    (* dictionaries find the intended keyword: connecters are followed by the separator, copulas and
       set brackets by arbitrary text *)
    first_match_ok (c_connecters C) sep &&
    pairwise_incompat (c_copulas C) &&
    pairwise_incompat (map fst (c_set_brackets C)).

  (* ---- the item layer ---- *)
  (* the whitespace-free text of a whole value *)
  Definition text0 : lnarsese -> str := lex_fmt_g F [] [].
  Definition rest_text (s : lsentence) : str := ls_punct s ++ ls_stamp s ++ lex_fmt_truth F (ls_truth s).

  (* what the item segmenters must NOT find at the borders of the term text (conditions on the
     top-level term only; see Proofs/LexPClean.v for the cases in which they follow from vocab_ok) *)
  Definition top_clean (v : lnarsese) : Prop :=
    match v with
    | NTerm t =>
        segment_budget C (f0 t) = LOk None /\ segment_truth C (f0 t) = LOk None /\
        segment_stamp C (f0 t) = LOk None /\ segment_punctuation C (f0 t) = LOk None
    | NSentence s => segment_budget C (f0 (ls_term s) ++ rest_text s) = LOk None
    | NTask _ => True
    end.

  Definition unamb_top (v : lnarsese) : Prop :=
    match v with
    | NTerm t => unamb t []
    | NSentence s => unamb (ls_term s) []
    | NTask k => unamb (ls_term (lt_sentence k)) []
    end.

  Definition numc (c : N) : bool := is_ascii_digit c || (c =? 46).
  Definition nnum (c : N) : bool := negb (numc c).
  Definition number_chars : str := [48; 49; 50; 51; 52; 53; 54; 55; 56; 57; 46].

  (* in a suffix dictionary's iteration order no entry tried before [kw] is suffix-comparable with it *)
  Fixpoint suffix_first_ok (dict : list str) : bool :=
    match dict with
    | [] => true
    | kw :: rest => forallb (fun later => negb (scompat kw later)) rest && suffix_first_ok rest
    end.

  Definition stampc (c : N) : bool := in_class (l_is_stamp_content F) c.
  (* an entry (l, r) of the stamp dictionary against an entry (l', r') tried before it: r' must not
     be a suffix of any text `x l content r`.  Either r' and r are suffix-incomparable, or
     r' = a ++ r where a ends outside the content class and is suffix-incomparable with l. *)
  Definition stamp_pair_ok (earlier later : str * str) : bool :=
    let r' := snd earlier in
    match snd later with
    | [] => last_is (fun c => negb (stampc c)) r' && negb (scompat r' (fst later))
    | r => negb (scompat r' r) ||
           (ends r r' &&
            let a := take (length r' - length r) r' in
            last_is (fun c => negb (stampc c)) a && nonempty (fst later) && negb (scompat a (fst later)))
    end.
  Fixpoint stamp_first_ok (dict : list (str * str)) : bool :=
    match dict with
    | [] => true
    | e :: rest => forallb (stamp_pair_ok e) rest && stamp_first_ok rest
    end.

  Definition lex_items_ok : bool :=
    let bl := fst (l_budget_brackets F) in let br := snd (l_budget_brackets F) in
    let bsep := l_budget_separator F in let bc := in_class (l_is_budget_content F) in
    let tl := fst (l_truth_brackets F) in let tr := snd (l_truth_brackets F) in
    let tsep := l_truth_separator F in let tc := in_class (l_is_truth_content F) in
    (* budget *)
    first_is nnum bl && first_is (fun c => negb (bc c)) br && last_is nnum br &&
    first_is nnum bsep && forallb bc bsep && forallb bc number_chars &&
    negb (nonempty_list (split_values bl br bsep (bl ++ br))) &&
    (* truth *)
    first_is nnum tl && last_is (fun c => negb (tc c)) tl && last_is nnum tr &&
    first_is nnum tsep && forallb tc tsep && forallb tc number_chars &&
    (* punctuations: first match; stamps: first match, left brackets end outside the content class *)
    suffix_first_ok (c_punctuations C) && forallb nonempty (c_punctuations C) &&
    stamp_first_ok (c_stamp_brackets C) &&
    forallb (fun t => (negb (nonempty (fst t)) || last_is (fun c => negb (stampc c)) (fst t)) &&
                      nonempty (fst t ++ snd t)) (c_stamp_brackets C) &&
    (* an absent truth is not found behind a punctuation or a stamp *)
    forallb (fun q => negb (scompat tr q)) (c_punctuations C) &&
    forallb (fun t => match snd t with
                      | [] => last_is (fun c => negb (stampc c)) tr && negb (scompat tr (fst t))
                      | r => negb (scompat tr r)
                      end) (c_stamp_brackets C) &&
    (* an absent stamp is not found behind a punctuation *)
    forallb (fun q => forallb (fun t => match snd t with
                                        | [] => negb (scompat (fst t) q) && last_is (fun c => negb (stampc c)) q
                                        | r => negb (scompat r q)
                                        end) (c_stamp_brackets C)) (c_punctuations C).

  (* ---- whitespace: what `idealize_env` removes is exactly the formatter's spacing ---- *)
  Definition strip (s : str) : str := filter (fun c => negb (space_for_parse F c)) s.
  Definition nows (s : str) : bool := forallb (fun c => negb (space_for_parse F c)) s.
  Definition allws (s : str) : bool := forallb (space_for_parse F) s.

  Definition lex_space_ok : bool :=
    l_remove_spaces_before_parse F && allws (l_format_terms F) && allws (l_format_items F) &&
    forallb nows (c_prefixes C) && forallb nows (c_connecters C) && forallb nows (c_copulas C) &&
    forallb nows (c_punctuations C) &&
    forallb (fun t => nows (fst t) && nows (snd t)) (c_set_brackets C) &&
    forallb (fun t => nows (fst t) && nows (snd t)) (c_stamp_brackets C) &&
    forallb nows [cl; cr; sep; sl; sr; fst (l_truth_brackets F); snd (l_truth_brackets F); l_truth_separator F;
                  fst (l_budget_brackets F); snd (l_budget_brackets F); l_budget_separator F] &&
    (* identifier, stamp-content and number characters are not whitespace *)
    forallb (fun c => negb (space_for_parse F c) || (negb (ident c) && negb (stampc c) && negb (numc c)))
            white_space_points &&
    (* space_for_parse is contained in the 25 points (it is char::is_whitespace) *)
    match l_space_is_for_parse F with SpaceIsWhitespace => true end.

  (* ---- self-delimiting formats: [unamb] follows from [vocab_ok] (ASCII, LaTeX; not Han) ---- *)
  (* q is tried before p by the prefix dictionary *)
  Fixpoint prefix_first_ok (dict : list str) : bool :=
    match dict with
    | [] => true
    | q :: rest =>
        forallb (fun p => match p with
                          | [] => first_is (fun c => negb (ident c)) q || (length q =? 1)%nat
                          | _ => negb (compat q p)
                          end) rest && prefix_first_ok rest
    end.

  (* a copula cannot begin inside a name: its first character is not an identifier character, or is
     by itself a keyword (which names do not contain) *)
  Definition lex_selfdelim : bool :=
    forallb (fun k => first_is (fun c => negb (ident c) || str_in [c] keywords) k) (c_copulas C) &&
    prefix_first_ok (c_prefixes C).

  (* ---- [top_clean] from the tables ---- *)
  (* what a text ending with [z] must satisfy so that no truth / stamp / punctuation is cut from it *)
  Definition tail_clean (z : str) : bool :=
    negb (scompat (snd (l_truth_brackets F)) z) &&
    forallb (fun q => negb (scompat q z)) (c_punctuations C) &&
    forallb (fun t => match snd t with
                      | [] => negb (scompat (fst t) z) && last_is (fun c => negb (stampc c)) z
                      | r => negb (scompat r z)
                      end) (c_stamp_brackets C).

  (* a character of the budget's closing bracket that occurs in no name, number, punctuation, stamp
     or truth: an unterminated budget opening is never closed by accident *)
  Definition budget_key_char (e : N) : bool :=
    negb (ident e) && negb (stampc e) && negb (numc e) &&
    negb (memb e (concat (c_punctuations C))) &&
    negb (memb e (concat (map (fun t => fst t ++ snd t) (c_stamp_brackets C)))) &&
    negb (memb e (fst (l_truth_brackets F) ++ snd (l_truth_brackets F) ++ l_truth_separator F)).

  Definition lex_clean_ok : bool :=
    let bl := fst (l_budget_brackets F) in
    (* bracketed terms: the budget's opening bracket does not start them, nothing is cut from their end *)
    forallb (fun b => negb (compat bl b)) bracket_lefts &&
    forallb tail_clean bracket_rights &&
    (* atoms: the budget's opening bracket is not an identifier character or is a one-character
       keyword; an atom prefix is empty, incomparable with it, or equal to it -- in which case the
       closing bracket has a key character *)
    (first_is (fun c => negb (ident c)) bl || (length bl =? 1)%nat) && nonempty bl &&
    forallb (fun p => negb (nonempty p) || negb (compat bl p) ||
                      (str_eqb p bl && existsb budget_key_char (snd (l_budget_brackets F))))
            (c_prefixes C).

  (* bare atoms (ASCII, LaTeX; not Han): nothing is cut from the end of a name *)
  Definition lex_clean_atoms_ok : bool :=
    let nid := fun c => negb (ident c) in
    last_is nid (snd (l_truth_brackets F)) &&
    forallb (last_is nid) (c_punctuations C) &&
    forallb (fun t => match snd t with
                      | [] => last_is (fun e => nid e && forallb (fun p => negb (memb e p)) (c_prefixes C)) (fst t)
                      | r => last_is nid r
                      end) (c_stamp_brackets C).
End Spec.
