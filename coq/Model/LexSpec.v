(* Model/LexSpec.v -- specification vocabulary for the lexical round trip (C02): the property's
   domain [vocab_ok], the context-dependent unambiguity conditions [unamb] (what K5 violates),
   and the boolean table obligations [lex_rt_ok].  Definitions only. *)
From Nv Require Export Model.LexFormatter Model.LexParser.

(* neither string is a prefix of the other: then a is not a prefix of (b ++ anything) *)
Definition compat (a b : str) : bool := starts a b || starts b a.
Definition scompat (a b : str) : bool := ends a b || ends b a.

Definition first_is (P : N -> bool) (s : str) : bool := match s with [] => false | c :: _ => P c end.
Definition last_is (P : N -> bool) (s : str) : bool := first_is P (rev s).

(* [contains k s]: k occurs in s as a contiguous substring *)
Fixpoint contains (k s : str) : bool :=
  starts k s || match s with [] => false | _ :: s' => contains k s' end.

(* in a dictionary's iteration order, no entry tried BEFORE [kw] is prefix-comparable with kw ++ follow *)
Fixpoint first_match_ok (dict : list str) (follow : str) : bool :=
  match dict with
  | [] => true
  | kw :: rest =>
      forallb (fun later => negb (compat kw (later ++ follow))) rest && first_match_ok rest follow
  end.

Section Spec.
  Variable F : lfmt.
  Variable is_alnum : N -> bool.
  Let C := compile F.

  Definition ident (c : N) : bool := is_identifier F is_alnum c.
  Definition cl := fst (l_compound_brackets F).
  Definition cr := snd (l_compound_brackets F).
  Definition sl := fst (l_statement_brackets F).
  Definition sr := snd (l_statement_brackets F).
  Definition sep := l_separator F.

  (* the whitespace-free text of a term *)
  Definition f0 : lterm -> str := lex_fmt_term_g F [].
  (* the text the component loop sees: separator before every component *)
  Definition comps_text (ts : list lterm) : str := concat (map (fun t => sep ++ f0 t) ts).

  (* ---- the domain of C02 ---- *)
  Definition pair_in (t : str * str) (d : list (str * str)) : bool :=
    existsb (fun y => str_eqb (fst y) (fst t) && str_eqb (snd y) (snd t)) d.
  Definition str_in (s : str) (d : list str) : bool := existsb (str_eqb s) d.

  Definition keywords : list str :=
    filter nonempty
      (c_prefixes C ++ c_connecters C ++ c_copulas C ++ c_punctuations C ++
       concat (map (fun t => [fst t; snd t]) (c_set_brackets C ++ c_stamp_brackets C)) ++
       [cl; cr; sep; sl; sr; fst (l_truth_brackets F); snd (l_truth_brackets F); l_truth_separator F;
        fst (l_budget_brackets F); snd (l_budget_brackets F); l_budget_separator F]).

  (* identifier names: non-empty, identifier characters only, containing no keyword of the format *)
  Definition name_ok (n : str) : bool :=
    nonempty n && forallb ident n && forallb (fun k => negb (contains k n)) keywords.

  Definition nonempty_list {A} (ts : list A) : bool := match ts with [] => false | _ => true end.

  Fixpoint term_ok (t : lterm) : bool :=
    match t with
    | LAtom p n => str_in p (c_prefixes C) && name_ok n
    | LCompound c ts => str_in c (c_connecters C) && nonempty_list ts && forallb term_ok ts
    | LSet l ts r => pair_in (l, r) (c_set_brackets C) && nonempty_list ts && forallb term_ok ts
    | LStatement c s p => str_in c (c_copulas C) && term_ok s && term_ok p
    end.

  (* numeric strings of truth / budget: non-empty, digits and dots *)
  Definition number_ok (s : str) : bool :=
    nonempty s && forallb (fun c => is_ascii_digit c || (c =? 46)) s.

  (* stamp forms: empty, or left ++ content ++ right for a bracket pair of the format, the content
     (stamp-content characters) being empty when the left bracket is (enumerated stamps) *)
  Definition stamp_form (s : str) (t : str * str) : bool :=
    starts (fst t) s && ends (snd t) s && (length (fst t) + length (snd t) <=? length s)%nat &&
    let content := take (length s - length (fst t) - length (snd t)) (drop (length (fst t)) s) in
    forallb (in_class (l_is_stamp_content F)) content &&
    (nonempty (fst t) || negb (nonempty content)).
  Definition stamp_ok (s : str) : bool := negb (nonempty s) || existsb (stamp_form s) (c_stamp_brackets C).

  Definition sentence_ok (s : lsentence) : bool :=
    term_ok (ls_term s) && str_in (ls_punct s) (c_punctuations C) && stamp_ok (ls_stamp s) &&
    forallb number_ok (ls_truth s).

  Definition vocab_ok (v : lnarsese) : bool :=
    match v with
    | NTerm t => term_ok t
    | NSentence s => sentence_ok s
    | NTask k => sentence_ok (lt_sentence k) && forallb number_ok (lt_budget k)
    end.

  (* ---- unambiguity in context ---- *)
  (* what may follow an atom: the end, a non-identifier character, or a copula *)
  Definition follow_ok (k : str) : bool :=
    match k with
    | [] => true
    | c :: _ => negb (ident c) || match match_prefix (c_copulas C) k with Some _ => true | None => false end
    end.

  (* the prefix dictionary finds exactly [p] on the text, and no copula matches inside the name *)
  Definition atom_unamb (p n k : str) : Prop :=
    match_prefix (c_prefixes C) (p ++ n ++ k) = Some p /\
    forall i, (i < length n)%nat -> match_prefix (c_copulas C) (drop i n ++ k) = None.

  Fixpoint unamb (t : lterm) (k : str) {struct t} : Prop :=
    match t with
    | LAtom p n => atom_unamb p n k
    | LCompound _ ts =>
        (fix useq (ts : list lterm) : Prop :=
           match ts with
           | [] => True
           | t :: r => unamb t (comps_text r ++ cr ++ k) /\ useq r
           end) ts
    | LSet _ ts rb =>
        (fix useq (ts : list lterm) : Prop :=
           match ts with
           | [] => True
           | t :: r => unamb t (comps_text r ++ rb ++ k) /\ useq r
           end) ts
    | LStatement c s p => unamb s (c ++ f0 p ++ sr ++ k) /\ unamb p (sr ++ k)
    end.

  (* the component-list part of [unamb], by name *)
  Fixpoint unamb_seq (ts : list lterm) (kend : str) : Prop :=
    match ts with
    | [] => True
    | t :: r => unamb t (comps_text r ++ kend) /\ unamb_seq r kend
    end.

  (* ---- table obligations of the term layer ---- *)
  Definition bracket_lefts : list str := map fst (c_set_brackets C) ++ [cl; sl].
  Definition bracket_rights : list str := map snd (c_set_brackets C) ++ [cr; sr].

  Fixpoint pairwise_incompat (l : list str) : bool :=
    match l with
    | [] => true
    | x :: r => forallb (fun y => negb (compat x y)) r && pairwise_incompat r
    end.

  Definition lex_term_ok : bool :=
    lex_starts_len_guard &&
    (* opening brackets: non-empty, first character not an identifier character, pairwise
       prefix-incomparable, and incomparable with every non-empty atom prefix *)
    forallb (fun b => first_is (fun c => negb (ident c)) b) bracket_lefts &&
    pairwise_incompat bracket_lefts &&
    forallb (fun b => forallb (fun p => negb (nonempty p) || negb (compat b p)) (c_prefixes C)) bracket_lefts &&
    (* separator and closing brackets: first character not an identifier character; a closing
       bracket is incomparable with the separator *)
    first_is (fun c => negb (ident c)) sep &&
    forallb (fun b => first_is (fun c => negb (ident c)) b && negb (compat b sep)) bracket_rights &&
    (* dictionaries find the intended keyword: connecters are followed by the separator, copulas and
       set brackets by arbitrary text *)
    first_match_ok (c_connecters C) sep &&
    pairwise_incompat (c_copulas C) &&
    pairwise_incompat (map fst (c_set_brackets C)).
End Spec.
