(* Model/AgreeValue.v -- specification vocabulary of the VALUE-level agreement theorem (C03 for
   sentences and tasks): the lexical value an enum value's text denotes, the text itself with an arbitrary
   writing of the term inside, the lexical domain with prefix-only atoms, and the boolean table conditions
   that tie the item layer (punctuation, stamp, truth, budget, spacing) of an enum format record E to the
   lexical format record L of the same name.  Definitions only; proofs in Proofs/AgreeValueP.v. *)
From Nv Require Export Model.SstLex Model.SstOf Model.SstSent Model.Readme.

(* ---- the layout record (Model/Readme.v, second lexical formatter model) of a lexical format ---- *)
Definition layout_of_lfmt (L : lfmt) : llayout := {|
  ll_cb0 := fst (l_compound_brackets L); ll_cb1 := snd (l_compound_brackets L); ll_sep := l_separator L;
  ll_sp_terms := l_format_terms L; ll_sp_items := l_format_items L;
  ll_sb0 := fst (l_statement_brackets L); ll_sb1 := snd (l_statement_brackets L);
  ll_tb0 := fst (l_truth_brackets L); ll_tb1 := snd (l_truth_brackets L); ll_tsep := l_truth_separator L;
  ll_bb0 := fst (l_budget_brackets L); ll_bb1 := snd (l_budget_brackets L); ll_bsep := l_budget_separator L
|}.
Definition llayout_eqb (a b : llayout) : bool :=
  str_eqb (ll_cb0 a) (ll_cb0 b) && str_eqb (ll_cb1 a) (ll_cb1 b) && str_eqb (ll_sep a) (ll_sep b) &&
  str_eqb (ll_sp_terms a) (ll_sp_terms b) && str_eqb (ll_sp_items a) (ll_sp_items b) &&
  str_eqb (ll_sb0 a) (ll_sb0 b) && str_eqb (ll_sb1 a) (ll_sb1 b) &&
  str_eqb (ll_tb0 a) (ll_tb0 b) && str_eqb (ll_tb1 a) (ll_tb1 b) && str_eqb (ll_tsep a) (ll_tsep b) &&
  str_eqb (ll_bb0 a) (ll_bb0 b) && str_eqb (ll_bb1 a) (ll_bb1 b) && str_eqb (ll_bsep a) (ll_bsep b).
(* the enum formatter and the lexical formatter lay a value out identically: same layout strings, and the
   enum format's two spacing strings coincide (the enum formatter writes `space.format_terms` between the
   items of a sentence where the lexical formatter writes `space.format_items`) *)
Definition same_layout (E : efmt) (L : lfmt) : bool :=
  llayout_eqb (layout_of_efmt E) (layout_of_lfmt L) && str_eqb (space_format_terms E) (space_format_items E).

(* ---- the lexical value of an enum value whose term is read as the lexical term t ---- *)
Section ValueOf.
  Variable F : Type.
  Variable fshow : F -> str.
  Variable E : efmt.

  Definition lex_sentence_of (t : lterm) (s : sentence F) : lsentence :=
    {| ls_term := t;
       ls_punct := fmt_punct E (s_punct s);
       ls_stamp := fmt_stamp E (s_stamp s);
       ls_truth := match s_truth s with Some tr => map fshow (truth_list tr) | None => [] end |}.
  Definition lex_value_of (t : lterm) (v : narsese F) : lnarsese :=
    match v with
    | NTerm _ => NTerm t
    | NSentence s => NSentence (lex_sentence_of t s)
    | NTask k => NTask {| lt_budget := map fshow (budget_list (snd k)); lt_sentence := lex_sentence_of t (fst k) |}
    end.

  (* the text the enum formatter prints for v, with the text tt standing for the term inside
     (fmt_narsese F fshow E v = value_text (fmt_term E (nv_term v)) v, by computation) *)
  Definition sentence_text (tt : str) (s : sentence F) : str :=
    tt ++ join_lest [fmt_punct E (s_punct s); fmt_stamp E (s_stamp s);
                     fmt_truth F fshow E (match s_truth s with Some t => t | None => TruthEmpty end)]
                    (space_format_terms E).
  Definition value_text (tt : str) (v : narsese F) : str :=
    match v with
    | NTerm _ => tt
    | NSentence s => sentence_text tt s
    | NTask k =>
        match sentence_text tt (fst k) with
        | [] => fmt_budget F fshow E (snd k)
        | s => fmt_budget F fshow E (snd k) ++ space_format_items E ++ s
        end
    end.
End ValueOf.

(* ---- the second pipeline of C03 on whole values: `format_lexical.parse(text)` then
   `try_fold_into(&format_enum)`.  A lexical parse error is a fold-pipeline error; the model's LPanic / LFuel
   (excluded by C05) are mapped to FPanic so that no theorem `... = FOk v` can hide behind them. ---- *)
Definition lres_fold_narsese (F : Type) (fread : str -> option F) (in01 : F -> bool) (E : efmt)
           (r : lres lnarsese) : fres (narsese F) :=
  match r with LOk x => fold_narsese F fread in01 E x | LErr => FErr | LPanic | LFuel => FPanic end.
Definition lex_then_fold_narsese (F : Type) (fread : str -> option F) (in01 : F -> bool) (ia : N -> bool)
           (L : lfmt) (E : efmt) (text : str) : fres (narsese F) :=
  lres_fold_narsese F fread in01 E (lex_parse ia L text).

(* ---- the lexical domain of the value layer, with prefix-only atoms ---- *)
Section LDomain.
  Variable ia : N -> bool.
  Variable L : lfmt.
  Let C := compile L.

  (* a bare prefix-only atom (the placeholder written alone): nothing may be cut from its end *)
  Definition bare_prefix_ok (t : lterm) : bool :=
    match t with LAtom p [] => tail_clean L p | _ => true end.

  Definition lsentence_ok2 (s : lsentence) : bool :=
    lterm_ok ia L (ls_term s) && str_in (ls_punct s) (c_punctuations C) && LexSpec.stamp_ok L (ls_stamp s) &&
    forallb number_ok (ls_truth s).

  Definition lvalue_ok (v : lnarsese) : bool :=
    match v with
    | NTerm t => lterm_ok ia L t && bare_prefix_ok t
    | NSentence s => lsentence_ok2 s
    | NTask k => lsentence_ok2 (lt_sentence k) && forallb number_ok (lt_budget k)
    end.

  (* the budget's opening bracket does not begin like a name *)
  Definition budget_left_nonident : bool :=
    first_is (fun c => negb (ident L ia c)) (fst (l_budget_brackets L)).
End LDomain.

(* ---- item layer: E and L are same-named ---- *)
Definition all_puncts : list punct := [Judgement; Goal; Question; Quest].
Definition int_chars : str := [48; 49; 50; 51; 52; 53; 54; 55; 56; 57; 43; 45]%N.

Section AgreeItems.
  Variable E : efmt.
  Variable L : lfmt.
  Let C := compile L.

  Definition agree_items : bool :=
    (* the bracket and separator strings of truth and budget are the same *)
    str_eqb (fst (l_truth_brackets L)) (sentence_truth_brackets_0 E) &&
    str_eqb (snd (l_truth_brackets L)) (sentence_truth_brackets_1 E) &&
    str_eqb (l_truth_separator L) (sentence_truth_separator E) &&
    str_eqb (fst (l_budget_brackets L)) (task_budget_brackets_0 E) &&
    str_eqb (snd (l_budget_brackets L)) (task_budget_brackets_1 E) &&
    str_eqb (l_budget_separator L) (task_budget_separator E) &&
    (* every punctuation the enum formatter prints is in the lexical dictionary *)
    forallb (fun p => str_in (fmt_punct E p) (c_punctuations C)) all_puncts &&
    (* the enumerated stamps are stamp forms of L; the fixed stamp is `left digits right` for a pair of the
       lexical dictionary with a non-empty left bracket, and the characters of a printed integer are stamp
       content characters *)
    forallb (fun st => LexSpec.stamp_ok L (fmt_stamp E st)) [Eternal; Past; Present; Future] &&
    pair_in (sentence_stamp_brackets_0 E ++ sentence_stamp_fixed E, sentence_stamp_brackets_1 E) (c_stamp_brackets C) &&
    LexParser.nonempty (sentence_stamp_brackets_0 E ++ sentence_stamp_fixed E) &&
    forallb (in_class (l_is_stamp_content L)) int_chars &&
    (* the enum formatter's spacing strings are whitespace for the lexical parser *)
    allws L (space_format_terms E) && allws L (space_format_items E) &&
    (* a prefix-only atom the enum formatter can print alone (the arms that build a unit: the placeholder)
       loses nothing at its end *)
    forallb (fun a => match snd a with AIUnit _ => tail_clean L (fst a E) | _ => true end) parse_atom_arms.
End AgreeItems.
