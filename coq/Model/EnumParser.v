(* Model/EnumParser.v -- the enum parser (src/conversion/string/impl_enum/parser.rs).
   Control flow written by hand, mirroring the Rust code statement by statement (including its
   quirks: unchecked bracket skips that let the cursor overrun, the `first_method_ok!` back-off
   that evaluates the next guard on the state the failed branch left, lenient number lists);
   keyword/constructor arm lists and the parser-state facts come from the REGENERATED
   Gen/EnumArms.v.  Tied to the code by the correspondence check.

   State: (len, head, rest, mid) with the invariant rest = drop head env; `head` may exceed `len`.
   Results: POk v st | PErr st | PPanic | PFuel.  The state survives an error. *)
From Nv Require Export Model.EnumFormatter Model.Mutate Gen.EnumFormats.

(* nar_dev_utils StartsWithStr for [char]: true also when the slice is a non-empty proper prefix
   of the needle (the dependency's defect; the repaired call site adds a length guard) *)
Fixpoint sws (slice needle : str) : bool :=
  match needle with
  | [] => true
  | c2 :: n' =>
      match slice with
      | [] => true
      | c :: s' => if c =? c2 then sws s' n' else false
      end
  end.
Definition starts_with_str (slice needle : str) : bool :=
  match needle with
  | [] => true
  | _ => match slice with [] => false | _ => sws slice needle end
  end.

Section Parser.
  Variable F : Type.
  Variable fread : str -> option F.   (* str::parse::<f64>() on a buffer of ASCII digits and dots *)
  Variable fzero : F.                 (* 0.0, the initial content of the number array *)
  Variable in01 : F -> bool.          (* ZeroOneFloat::is_in_01 *)
  Variable is_alnum : N -> bool.      (* char::is_alphanumeric *)
  Variable E : efmt.

  Record mid := {
    m_budget : option (budgetv F);
    m_term : option term;
    m_punct : option punct;
    m_stamp : option stamp;
    m_truth : option (truthv F)
  }.
  Definition mid_empty : mid := {| m_budget := None; m_term := None; m_punct := None; m_stamp := None; m_truth := None |}.

  Record pstate := { s_len : nat; s_head : nat; s_rest : str; s_mid : mid }.

  Inductive pres (A : Type) : Type :=
  | POk (a : A) (st : pstate)
  | PErr (st : pstate)
  | PPanic
  | PFuel.
  Arguments POk {A} a st.
  Arguments PErr {A} st.
  Arguments PPanic {A}.
  Arguments PFuel {A}.

  Definition pbind {A B} (r : pres A) (f : A -> pstate -> pres B) : pres B :=
    match r with
    | POk a st => f a st
    | PErr st => PErr st
    | PPanic => PPanic
    | PFuel => PFuel
    end.

  Definition new_state (input : str) : pstate :=
    {| s_len := length input; s_head := 0%nat; s_rest := input; s_mid := mid_empty |}.

  Definition set_mid (st : pstate) (m : mid) : pstate :=
    {| s_len := s_len st; s_head := s_head st; s_rest := s_rest st; s_mid := m |}.

  (* ---- cursor primitives ---- *)
  Definition can_consume (st : pstate) : bool := Nat.ltb (s_head st) (s_len st).

  Definition st_starts (kw : str) (st : pstate) : bool :=
    if Nat.ltb (s_len st) (s_head st + length kw)%nat then false else starts kw (s_rest st).

  Definition step (n : nat) (st : pstate) : pstate :=
    {| s_len := s_len st; s_head := (s_head st + n)%nat; s_rest := drop n (s_rest st); s_mid := s_mid st |}.

  Definition skip (kw : str) (st : pstate) : pstate := step (length kw) st.

  (* head_move(original_head): back to a saved cursor, keeping the current mid result *)
  Definition restore (orig cur : pstate) : pstate :=
    {| s_len := s_len cur; s_head := s_head orig; s_rest := s_rest orig; s_mid := s_mid cur |}.

  (* head_skip_spaces: `while starts_with(space) { skip(space) }`.  For an empty space keyword the
     Rust loop does not terminate; every theorem about this model assumes it non-empty (fmt_ok). *)
  Fixpoint skip_spaces_fuel (n : nat) (st : pstate) : pstate :=
    match n with
    | O => st
    | S n' => if st_starts (space_parse E) st then skip_spaces_fuel n' (skip (space_parse E) st) else st
    end.
  Definition skip_spaces (st : pstate) : pstate := skip_spaces_fuel (length (s_rest st)) st.
  Definition skip_and_spaces (kw : str) (st : pstate) : pstate := skip_spaces (skip kw st).
  Definition skip_after_spaces (kw : str) (st : pstate) : pstate := skip kw (skip_spaces st).

  (* ---- errors: ParseError::new slices a window of the environment around the cursor ---- *)
  Definition err_window (len head : nat) : nat * nat :=
    let index := if err_window_clamped then Nat.min head len else head in
    let left := if Nat.ltb err_view_range index then (index - err_view_range)%nat else 0%nat in
    let right := if Nat.ltb (index + err_view_range + 1)%nat len then (index + err_view_range + 1)%nat else len in
    (left, right).
  (* env[left..right] panics when left > right (right <= len always) *)
  Definition err_window_ok (st : pstate) : bool :=
    let '(l, r) := err_window (s_len st) (s_head st) in Nat.leb l r.
  Definition perr {A} (st : pstate) : pres A := if err_window_ok st then PErr st else PPanic.

  (* ---- numbers ---- *)
  Definition is_float_char (c : N) : bool := (c =? 46) || is_ascii_digit c.

  (* parse_separated_floats::<N>: returns the numbers read so far (the array is padded with 0.0) *)
  Fixpoint floats_loop (fuel : nat) (n : nat) (sep rb : str) (acc : list F) (buf : str) (st : pstate)
    : pres (list F) :=
    match fuel with
    | O => PFuel
    | S fuel' =>
        if can_consume st && Nat.ltb (length acc) n then
          match s_rest st with
          | [] => PPanic (* head_char() out of bounds: excluded by the state invariant *)
          | c :: _ =>
              if st_starts (space_parse E) st then floats_loop fuel' n sep rb acc buf (skip (space_parse E) st)
              else if is_float_char c then floats_loop fuel' n sep rb acc (buf ++ [c]) (step 1 st)
              else if st_starts sep st then
                match fread buf with
                | Some v => floats_loop fuel' n sep rb (acc ++ [v]) [] (skip sep st)
                | None => perr st
                end
              else if st_starts rb st then
                match fread buf with
                | Some v => POk (acc ++ [v]) st
                | None => POk acc st
                end
              else perr st
          end
        else POk acc st
    end.
  Definition parse_floats (n : nat) (sep rb : str) (st : pstate) : pres (list F) :=
    floats_loop (length (s_rest st) + n + 1)%nat n sep rb [] [] st.

  Definition pad (n : nat) (l : list F) : list F := l ++ repeat fzero (n - length l)%nat.

  (* parse_isize: greedy scan of [0-9+-], then isize::from_str *)
  Definition is_int_char (c : N) : bool := is_ascii_digit c || (c =? 43) || (c =? 45).
  Fixpoint int_scan (rest : str) : str :=
    match rest with
    | c :: r => if is_int_char c then c :: int_scan r else []
    | [] => []
    end.
  Definition parse_isize (st : pstate) : pres Z :=
    let buf := if can_consume st then int_scan (s_rest st) else [] in
    let st' := step (length buf) st in
    match buf with
    | [] => perr st'
    | _ => match read_isize buf with Some z => POk z st' | None => perr st' end
    end.

  (* ---- sentence-level items ---- *)
  Definition mid_set_truth (m : mid) (t : truthv F) : mid :=
    {| m_budget := m_budget m; m_term := m_term m; m_punct := m_punct m; m_stamp := m_stamp m; m_truth := Some t |}.
  Definition mid_set_budget (m : mid) (b : budgetv F) : mid :=
    {| m_budget := Some b; m_term := m_term m; m_punct := m_punct m; m_stamp := m_stamp m; m_truth := m_truth m |}.
  Definition mid_set_stamp (m : mid) (s : stamp) : mid :=
    {| m_budget := m_budget m; m_term := m_term m; m_punct := m_punct m; m_stamp := Some s; m_truth := m_truth m |}.
  Definition mid_set_punct (m : mid) (p : punct) : mid :=
    {| m_budget := m_budget m; m_term := m_term m; m_punct := Some p; m_stamp := m_stamp m; m_truth := m_truth m |}.
  Definition mid_set_term (m : mid) (t : term) : mid :=
    {| m_budget := m_budget m; m_term := Some t; m_punct := m_punct m; m_stamp := m_stamp m; m_truth := m_truth m |}.

  (* Truth::new_single / new_double validate again and would panic; the caller has checked *)
  Definition mk_truth (l : list F) : option (truthv F) :=
    match l with
    | [] => Some TruthEmpty
    | [f] => if in01 f then Some (TruthSingle f) else None
    | f :: c :: _ => if in01 f && in01 c then Some (TruthDouble f c) else None
    end.
  Definition mk_budget (l : list F) : option (budgetv F) :=
    match l with
    | [] => Some BudgetEmpty
    | [p] => if in01 p then Some (BudgetSingle p) else None
    | [p; d] => if in01 p && in01 d then Some (BudgetDouble p d) else None
    | p :: d :: q :: _ => if in01 p && in01 d && in01 q then Some (BudgetTriple p d q) else None
    end.

  Definition consume_truth (st : pstate) : pres unit :=
    let st1 := skip_and_spaces (sentence_truth_brackets_0 E) st in
    pbind (parse_floats 2 (sentence_truth_separator E) (sentence_truth_brackets_1 E) st1) (fun l st2 =>
    if negb (forallb in01 (pad 2 l)) then perr st2
    else match mk_truth l with
         | None => PPanic
         | Some t =>
             let st3 := skip_after_spaces (sentence_truth_brackets_1 E) st2 in
             POk tt (set_mid st3 (mid_set_truth (s_mid st3) t))
         end).

  Definition consume_budget (st : pstate) : pres unit :=
    let st1 := skip_and_spaces (task_budget_brackets_0 E) st in
    pbind (parse_floats 3 (task_budget_separator E) (task_budget_brackets_1 E) st1) (fun l st2 =>
    if negb (forallb in01 (pad 3 l)) then perr st2
    else match mk_budget l with
         | None => PPanic
         | Some b =>
             if budget_requires_close then
               let st3 := skip_spaces st2 in
               if st_starts (task_budget_brackets_1 E) st3 then
                 let st4 := skip (task_budget_brackets_1 E) st3 in
                 POk tt (set_mid st4 (mid_set_budget (s_mid st4) b))
               else perr st3
             else
               let st3 := skip_after_spaces (task_budget_brackets_1 E) st2 in
               POk tt (set_mid st3 (mid_set_budget (s_mid st3) b))
         end).

  Fixpoint find_arm {A} (arms : list ((efmt -> str) * A)) (st : pstate) : option ((efmt -> str) * A) :=
    match arms with
    | [] => None
    | (g, a) :: rest => if st_starts (g E) st then Some (g, a) else find_arm rest st
    end.

  Definition consume_stamp (st : pstate) : pres unit :=
    let st1 := skip_and_spaces (sentence_stamp_brackets_0 E) st in
    match find_arm (map (fun x => (fst (fst x), (snd (fst x), snd x))) stamp_arms) st1 with
    | None => perr st1
    | Some (_, (sk, kind)) =>
        let st2 := skip (sk E) st1 in
        let finish (s : stamp) (st3 : pstate) : pres unit :=
          let st4 := set_mid st3 (mid_set_stamp (s_mid st3) s) in
          POk tt (skip_after_spaces (sentence_stamp_brackets_1 E) st4) in
        match kind with
        | SAPast => finish Past st2
        | SAPresent => finish Present st2
        | SAFuture => finish Future st2
        | SAFixed =>
            let st2' := if stamp_fixed_skip_spaces then skip_spaces st2 else st2 in
            pbind (parse_isize st2') (fun z st3 => finish (Fixed z) st3)
        end
    end.

  Definition consume_punctuation (st : pstate) : pres unit :=
    match find_arm (map (fun x => (fst (fst x), (snd (fst x), snd x))) punct_arms) st with
    | None => perr st
    | Some (_, (sk, p)) =>
        let st1 := skip (sk E) st in
        POk tt (set_mid st1 (mid_set_punct (s_mid st1) p))
    end.

  (* ---- terms ---- *)
  Definition copula_at_head (st : pstate) : bool :=
    existsb (fun c =>
               (if copula_lookahead_len_guard then Nat.leb (length c) (length (s_rest st)) else true)
               && starts_with_str (s_rest st) c)
            (gen_copulas E).

  (* the name scan of parse_atom; returns the state after the name *)
  Fixpoint name_loop (fuel : nat) (acc : str) (st : pstate) : str * pstate :=
    match fuel with
    | O => (acc, st)
    | S fuel' =>
        if can_consume st then
          match s_rest st with
          | [] => (acc, st)
          | c :: _ =>
              if copula_at_head st then (acc, st)
              else if name_charb is_alnum E c then name_loop fuel' (acc ++ [c]) (step 1 st)
              else (acc, st)
          end
        else (acc, st)
    end.

  Definition atom_of_init (a : atom_init) : term :=
    match a with
    | AIName c => TName c []
    | AIUnit c => TUnit c
    | AINum c => TNum c 0
    end.

  Definition p_atom (st : pstate) : pres term :=
    match find_arm parse_atom_arms st with
    | None => perr st
    | Some (p, init) =>
        let st1 := skip (p E) st in
        let '(name, st2) := name_loop (length (s_rest st1)) [] st1 in
        match init with
        | AIUnit c => POk (TUnit c) st2
        | _ =>
            match name with
            | [] => perr st2
            | _ =>
                match set_atom_name (atom_of_init init) name with
                | (true, t) => POk t st2
                | (false, _) => perr st2
                end
            end
        end
    end.

  (* parse_compound_terms: spaces and separators are skipped, the right bracket stops the loop *)
  Fixpoint p_terms (pt : pstate -> pres term) (rb : str) (fuel : nat) (acc : list term) (st : pstate)
    : pres (list term) :=
    match fuel with
    | O => PFuel
    | S fuel' =>
        if can_consume st then
          if st_starts (space_parse E) st then p_terms pt rb fuel' acc (skip (space_parse E) st)
          else if st_starts (compound_separator E) st then p_terms pt rb fuel' acc (skip (compound_separator E) st)
          else if st_starts rb st then POk acc st
          else pbind (pt st) (fun t st' => p_terms pt rb fuel' (acc ++ [t]) st')
        else POk acc st
    end.
  Definition terms_fuel (st : pstate) : nat := S (length (s_rest st)).

  Definition p_term_set (pt : pstate -> pres term) (c : set_ctor) (lb rb : str) (st : pstate) : pres term :=
    let st1 := skip_and_spaces lb st in
    pbind (p_terms pt rb (terms_fuel st1) [] st1) (fun ts st2 =>
    let st3 := skip_after_spaces rb st2 in
    match ts with
    | [] => perr st3
    | _ => POk (TSet c (mk_set ts)) st3
    end).

  Definition comp_initial (i : comp_init) : term :=
    match i with
    | CISet c => TSet c []
    | CIVec c => TVec c []
    | CIImg c => TImg c 0 []
    | CIBox1 c => TBox1 c placeholder
    | CIBox2 c => TBox2 c placeholder placeholder
    end.
  Definition comp_fill_kind (i : comp_init) : fill_kind :=
    match i with
    | CISet c => fillk_set c
    | CIVec c => fillk_vec c
    | CIImg c => fillk_img c
    | CIBox1 c => fillk_box1 c
    | CIBox2 c => fillk_box2 c
    end.

  (* parse_terms_with_image: position of the first placeholder (by ==), removed from the list *)
  Fixpoint split_placeholder (i : N) (l : list term) : option (N * list term) :=
    match l with
    | [] => None
    | x :: l' =>
        if term_eqb x placeholder then Some (i, l')
        else match split_placeholder (i + 1) l' with
             | Some (j, r) => Some (j, x :: r)
             | None => None
             end
    end.

  Definition fill_compound (i : comp_init) (ts : list term) (st : pstate) : pres term :=
    match comp_fill_kind i, i, ts with
    | FillUnary, CIBox1 c, [x] => POk (TBox1 c x) st
    | FillUnary, _, _ => perr st
    | FillBinary, CIBox2 c, [x; y] => POk (TBox2 c x y) st
    | FillBinary, _, _ => perr st
    | FillImage, CIImg c, _ =>
        match split_placeholder 0 ts with
        | Some (idx, rest) => POk (TImg c idx rest) st
        | None => perr st
        end
    | FillImage, _, _ => perr st
    | FillPush, _, _ =>
        match push_components (comp_initial i) ts with
        | (true, t) => POk t st
        | (false, _) => perr st
        end
    end.

  Definition p_compound (pt : pstate -> pres term) (st : pstate) : pres term :=
    let st1 := skip_and_spaces (compound_brackets_0 E) st in
    match find_arm (map (fun g => (g, tt)) parse_compound_reject) st1 with
    | Some (g, _) => perr (skip (g E) st1)
    | None =>
        match find_arm parse_compound_arms st1 with
        | None => perr st1
        | Some (kw, init) =>
            let st2 := skip (kw E) st1 in
            pbind (p_terms pt (compound_brackets_1 E) (terms_fuel st2) [] st2) (fun ts st3 =>
            match ts with
            | [] => perr st3
            | _ =>
                pbind (fill_compound init ts st3) (fun t st4 =>
                POk t (skip_after_spaces (compound_brackets_1 E) st4))
            end)
        end
    end.

  Definition build_statement (b : stmt_build) (s p : term) : term :=
    match b with
    | SBCtor c => TBox2 c s p
    | SBHelper HelperInstance => TBox2 Inheritance (TSet SetExtension (mk_set [s])) p
    | SBHelper HelperProperty => TBox2 Inheritance s (TSet SetIntension (mk_set [p]))
    | SBHelper HelperInstanceProperty => TBox2 Inheritance (TSet SetExtension (mk_set [s])) (TSet SetIntension (mk_set [p]))
    | SBHelper HelperSwapEquivPred => TBox2 EquivalencePredictive p s
    end.

  Definition p_statement (pt : pstate -> pres term) (st : pstate) : pres term :=
    let st1 := skip_and_spaces (statement_brackets_0 E) st in
    pbind (pt st1) (fun subj st2 =>
    let st3 := skip_spaces st2 in
    match find_arm parse_statement_arms st3 with
    | None => perr st3
    | Some (kw, b) =>
        let st4 := skip_spaces (skip (kw E) st3) in
        pbind (pt st4) (fun pred st5 =>
        POk (build_statement b subj pred) (skip_after_spaces (statement_brackets_1 E) st5))
    end).

  Fixpoint p_term (fuel : nat) (st : pstate) : pres term :=
    match fuel with
    | O => PFuel
    | S fuel' =>
        let pt := p_term fuel' in
        if st_starts (compound_brackets_set_extension_0 E) st then
          p_term_set pt SetExtension (compound_brackets_set_extension_0 E) (compound_brackets_set_extension_1 E) st
        else if st_starts (compound_brackets_set_intension_0 E) st then
          p_term_set pt SetIntension (compound_brackets_set_intension_0 E) (compound_brackets_set_intension_1 E) st
        else if st_starts (compound_brackets_0 E) st then p_compound pt st
        else if st_starts (statement_brackets_0 E) st then p_statement pt st
        else p_atom st
    end.
  Definition term_fuel (st : pstate) : nat := S (S (length (s_rest st))).
  Definition parse_term (st : pstate) : pres term := p_term (term_fuel st) st.

  Definition consume_term (st : pstate) : pres unit :=
    pbind (parse_term st) (fun t st' => POk tt (set_mid st' (mid_set_term (s_mid st') t))).

  (* ---- consume_one: `first_method_ok!` ----
     Each branch: its guard is evaluated on the CURRENT state (where the previous failed branch
     left cursor and mid result); only then the cursor moves back to the original head. *)
  Definition is_none {A} (o : option A) : bool := match o with None => true | Some _ => false end.

  Definition try_branch (orig : pstate) (guard : pstate -> bool) (branch : pstate -> pres unit)
             (k : pstate -> pres unit) (cur : pstate) : pres unit :=
    if guard cur then
      match branch (restore orig cur) with
      | POk u st => POk u st
      | PErr st => k st
      | PPanic => PPanic
      | PFuel => PFuel
      end
    else k cur.

  Definition consume_one (st : pstate) : pres unit :=
    try_branch st (fun c => st_starts (space_parse E) c) (fun s => POk tt (skip (space_parse E) s))
   (try_branch st (fun c => st_starts (task_budget_brackets_0 E) c && is_none (m_budget (s_mid c))) consume_budget
   (try_branch st (fun c => is_none (m_term (s_mid c))) consume_term
   (try_branch st (fun c => is_none (m_punct (s_mid c))) consume_punctuation
   (try_branch st (fun c => st_starts (sentence_stamp_brackets_0 E) c && is_none (m_stamp (s_mid c))) consume_stamp
   (try_branch st (fun c => st_starts (sentence_truth_brackets_0 E) c && is_none (m_truth (s_mid c))) consume_truth
   (fun c => perr c)))))) st.

  (* build_mid_result *)
  Fixpoint build_loop (fuel : nat) (st : pstate) : pres unit :=
    match fuel with
    | O => PFuel
    | S fuel' =>
        if can_consume st then
          let st1 := skip_spaces st in
          if can_consume st1 then pbind (consume_one st1) (fun _ st2 => build_loop fuel' st2)
          else build_loop fuel' st1
        else POk tt st
    end.
  Definition build_mid_result (st : pstate) : pres unit := build_loop (S (S (length (s_rest st)))) st.

  (* transform_mid_result: the slots that are used are taken (emptied) *)
  Definition unwrap_stamp (o : option stamp) : stamp := match o with Some s => s | None => Eternal end.
  Definition unwrap_truth (o : option (truthv F)) : truthv F := match o with Some t => t | None => TruthEmpty end.

  Definition transform_mid_result (st : pstate) : pres (narsese F) :=
    let m := s_mid st in
    match m_term m with
    | None => perr st
    | Some t =>
        match m_punct m with
        | Some p =>
            let s := from_punctuation t p (unwrap_stamp (m_stamp m)) (unwrap_truth (m_truth m)) in
            match m_budget m with
            | Some b => POk (NTask (s, b)) (set_mid st mid_empty)
            | None => POk (NSentence s) (set_mid st mid_empty)
            end
        | None =>
            POk (NTerm t)
                (set_mid st {| m_budget := m_budget m; m_term := None; m_punct := None;
                               m_stamp := m_stamp m; m_truth := m_truth m |})
        end
    end.

  Definition run_parse (st : pstate) : pres (narsese F) :=
    pbind (build_mid_result st) (fun _ st' => transform_mid_result st').

  (* ---- public entry points ---- *)
  Definition parse_narsese (input : str) : pres (narsese F) := run_parse (new_state input).

  (* reset_to: environment and cursor are re-targeted; the mid result is cleared iff the source does so *)
  Definition reset_to (st : pstate) (input : str) : pstate :=
    {| s_len := length input; s_head := 0%nat; s_rest := input;
       s_mid := if reset_clears_mid then mid_empty else s_mid st |}.

  (* parse_multi: ONE state re-targeted at each input.  None = the whole call panicked / ran out of fuel *)
  Inductive outcome (A : Type) := OOk (a : A) | OErr.
  Arguments OOk {A} a.
  Arguments OErr {A}.
  Fixpoint parse_multi_from (st : pstate) (inputs : list str) : option (list (outcome (narsese F))) :=
    match inputs with
    | [] => Some []
    | i :: rest =>
        match run_parse (reset_to st i) with
        | POk v st' => option_map (cons (OOk v)) (parse_multi_from st' rest)
        | PErr st' => option_map (cons OErr) (parse_multi_from st' rest)
        | PPanic | PFuel => None
        end
    end.
  Definition parse_multi (inputs : list str) := parse_multi_from (new_state []) inputs.

  (* side doors: `x.take().ok_or(parser.parse_error(..))` builds the error value eagerly *)
  Definition door {A} (consume : pstate -> pres unit) (get : mid -> option A) (input : str) : pres A :=
    pbind (consume (new_state input)) (fun _ st =>
    if err_window_ok st then
      match get (s_mid st) with
      | Some a => POk a st
      | None => PErr st
      end
    else PPanic).
  Definition door_truth := door consume_truth m_truth.
  Definition door_budget := door consume_budget m_budget.
  Definition door_punctuation := door consume_punctuation m_punct.
  Definition door_stamp (input : str) : pres stamp :=
    match input with
    | [] => POk Eternal (new_state input)
    | _ => door consume_stamp m_stamp input
    end.
End Parser.

Arguments POk {F A} a st.
Arguments PErr {F A} st.
Arguments PPanic {F A}.
Arguments PFuel {F A}.
Arguments OOk {A} a.
Arguments OErr {A}.
