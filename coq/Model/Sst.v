(* Model/Sst.v -- surface syntax trees of the enum formats: the SPECIFICATION side of the
   parser-correctness theorems (C01, C09, C10, C03).
   A surface term records which keyword arm was written and HOW MANY space keywords stand at every
   token boundary; [render] prints it, [odesugar] is its documented meaning as an enum term:
   derived copulas (instance, property, instance-property, retrospective equivalence) build the
   desugared statement, an image connecter yields the image whose index is the position of the
   first placeholder, an interval atom denotes its decimal value, a placeholder ignores what
   follows its prefix.  "For every spacing" = "for every annotation".  Definitions only. *)
From Nv Require Export Model.EnumOk.

Fixpoint rep (n : nat) (s : str) : str := match n with O => [] | S n' => s ++ rep n' s end.

Inductive sterm : Type :=
| SAtom (arm : nat) (name : str)
    (* arm: index into parse_atom_arms; text = prefix ++ name *)
| SSet (ext : bool) (sp0 : nat) (gaps : nat -> nat * nat) (items : list sterm) (sp1 : nat)
    (* lb sp^sp0 item0 (gap1 item1) ... sp^sp1 rb;   gap i = sp^a sep sp^b with (a,b) = gaps i *)
| SComp (arm : nat) (sp0 : nat) (gaps : nat -> nat * nat) (items : list sterm) (sp1 : nat)
    (* ( sp^sp0 connecter (gap0 item0) (gap1 item1) ... sp^sp1 ) ; arm: index into parse_compound_arms *)
| SStmt (arm : nat) (sp0 sp1 sp2 sp3 : nat) (subj pred : sterm).
    (* < sp^sp0 subj sp^sp1 copula sp^sp2 pred sp^sp3 > ; arm: index into parse_statement_arms *)

Section sterm_ind_strong.
  Variable P : sterm -> Prop.
  Hypothesis HAtom : forall arm name, P (SAtom arm name).
  Hypothesis HSet : forall ext sp0 gaps items sp1, Forall P items -> P (SSet ext sp0 gaps items sp1).
  Hypothesis HComp : forall arm sp0 gaps items sp1, Forall P items -> P (SComp arm sp0 gaps items sp1).
  Hypothesis HStmt : forall arm sp0 sp1 sp2 sp3 s p, P s -> P p -> P (SStmt arm sp0 sp1 sp2 sp3 s p).
  Fixpoint sterm_ind' (t : sterm) : P t :=
    let fix go (l : list sterm) : Forall P l :=
      match l with [] => Forall_nil P | x :: l' => Forall_cons x (sterm_ind' x) (go l') end in
    match t with
    | SAtom arm name => HAtom arm name
    | SSet ext sp0 gaps items sp1 => HSet ext sp0 gaps items sp1 (go items)
    | SComp arm sp0 gaps items sp1 => HComp arm sp0 gaps items sp1 (go items)
    | SStmt arm sp0 sp1 sp2 sp3 s p => HStmt arm sp0 sp1 sp2 sp3 s p (sterm_ind' s) (sterm_ind' p)
    end.
End sterm_ind_strong.

Fixpoint sdepth (t : sterm) : nat :=
  match t with
  | SAtom _ _ => 1
  | SSet _ _ _ items _ | SComp _ _ _ items _ => S (fold_right (fun x acc => Nat.max (sdepth x) acc) O items)
  | SStmt _ _ _ _ _ s p => S (Nat.max (sdepth s) (sdepth p))
  end.

Section Render.
  Variable E : efmt.

  Definition sp (n : nat) : str := rep n (space_parse E).
  Definition gap (g : nat * nat) : str := sp (fst g) ++ compound_separator E ++ sp (snd g).

  (* items i, i+1, ... ; the first one is preceded by its gap iff lead *)
  Definition render_items {A} (r : A -> str) (gaps : nat -> nat * nat) : bool -> nat -> list A -> str :=
    fix go (lead : bool) (i : nat) (l : list A) : str :=
      match l with
      | [] => []
      | x :: l' => (if lead then gap (gaps i) else []) ++ r x ++ go true (S i) l'
      end.

  Definition set_lb (ext : bool) : str := if ext then compound_brackets_set_extension_0 E else compound_brackets_set_intension_0 E.
  Definition set_rb (ext : bool) : str := if ext then compound_brackets_set_extension_1 E else compound_brackets_set_intension_1 E.
  Definition atom_prefix (arm : nat) : str := match nth_error parse_atom_arms arm with Some (p, _) => p E | None => [] end.
  Definition comp_kw (arm : nat) : str := match nth_error parse_compound_arms arm with Some (kw, _) => kw E | None => [] end.
  Definition stmt_kw (arm : nat) : str := match nth_error parse_statement_arms arm with Some (kw, _) => kw E | None => [] end.

  Fixpoint render (t : sterm) : str :=
    match t with
    | SAtom arm name => atom_prefix arm ++ name
    | SSet ext sp0 gaps items sp1 =>
        set_lb ext ++ sp sp0 ++ render_items render gaps false 0 items ++ sp sp1 ++ set_rb ext
    | SComp arm sp0 gaps items sp1 =>
        compound_brackets_0 E ++ sp sp0 ++ comp_kw arm ++ render_items render gaps true 0 items ++ sp sp1 ++ compound_brackets_1 E
    | SStmt arm sp0 sp1 sp2 sp3 s p =>
        statement_brackets_0 E ++ sp sp0 ++ render s ++ sp sp1 ++ stmt_kw arm ++ sp sp2 ++ render p ++ sp sp3 ++ statement_brackets_1 E
    end.
End Render.

(* ---- the documented meaning ---- *)
Definition omap {A B} (f : A -> option B) : list A -> option (list B) :=
  fix go (l : list A) : option (list B) :=
    match l with
    | [] => Some []
    | x :: l' => match f x, go l' with Some y, Some ys => Some (y :: ys) | _, _ => None end
    end.

(* the pure content of fill_compound (EnumParser.v): None = the arity / placeholder check fails *)
Definition fill_pure (i : comp_init) (ts : list term) : option term :=
  match comp_fill_kind i, i, ts with
  | FillUnary, CIBox1 c, [x] => Some (TBox1 c x)
  | FillUnary, _, _ => None
  | FillBinary, CIBox2 c, [x; y] => Some (TBox2 c x y)
  | FillBinary, _, _ => None
  | FillImage, CIImg c, _ => match split_placeholder 0 ts with Some (idx, rest) => Some (TImg c idx rest) | None => None end
  | FillImage, _, _ => None
  | FillPush, _, _ => match push_components (comp_initial i) ts with (true, t) => Some t | (false, _) => None end
  end.

Definition atom_value (init : atom_init) (name : str) : option term :=
  match init with
  | AIUnit c => Some (TUnit c)
  | _ => match name with
         | [] => None
         | _ => match set_atom_name (atom_of_init init) name with (true, t) => Some t | (false, _) => None end
         end
  end.

Fixpoint odesugar (t : sterm) : option term :=
  match t with
  | SAtom arm name =>
      match nth_error parse_atom_arms arm with Some (_, init) => atom_value init name | None => None end
  | SSet ext _ _ items _ =>
      match omap odesugar items with
      | Some (x :: ts) => Some (TSet (if ext then SetExtension else SetIntension) (mk_set (x :: ts)))
      | _ => None
      end
  | SComp arm _ _ items _ =>
      match nth_error parse_compound_arms arm, omap odesugar items with
      | Some (_, init), Some (x :: ts) => fill_pure init (x :: ts)
      | _, _ => None
      end
  | SStmt arm _ _ _ _ s p =>
      match nth_error parse_statement_arms arm, odesugar s, odesugar p with
      | Some (_, b), Some s', Some p' => Some (build_statement b s' p')
      | _, _, _ => None
      end
  end.

(* ---- the canonical surface tree of an enum term: what the formatter prints ---- *)
(* number of format-space keywords: the formatter's `space.format_terms` must be a repetition of the
   parse space (side condition fmt_space_ok), k = that repetition count *)
Definition canon_gaps (k : nat) : nat -> nat * nat := fun _ => (O, k).

(* index of the FIRST arm of a table whose payload satisfies a test *)
Fixpoint find_index {A} (f : A -> bool) (l : list A) (i : nat) : option nat :=
  match l with [] => None | x :: l' => if f x then Some i else find_index f l' (S i) end.
