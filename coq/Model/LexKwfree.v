(* Model/LexKwfree.v -- the decidable subdomain "KEYWORD-FREE NAMES" on the LEXICAL side (C02 / C03 for the
   Han format), and the finite table checks of the argument.  Definitions only; proofs in
   Proofs/HanAgreeP.v.  The enum-side analogue is kwfree_name / term_kwfree / skwfree of
   Proofs/EnumHanP.v (Props/C01e.v); the two are related by the check lex_kw_sub of Proofs/HanAgreeP.v.

   lkwfree_name L n: no character of the name n occurs in ANY keyword of the lexical format record L
   (LexSpec.keywords: atom prefixes, connecters, copulas, punctuations, set / stamp brackets, compound and
   statement brackets, separators, truth and budget brackets).  Decidable, local to a name, independent
   of the context in which the atom stands. *)
From Nv Require Export Model.LexSpec.

Section LexKwfree.
  Variable L : lfmt.
  Let C := compile L.

  (* every character of every keyword of the lexical format *)
  Definition lkw_chars : list N := concat (keywords L).
  Definition lkwfree_char (c : N) : bool := negb (memb c lkw_chars).
  Definition lkwfree_name (n : str) : bool := forallb lkwfree_char n.

  Fixpoint lterm_kwfree (t : lterm) : bool :=
    match t with
    | LAtom _ n => lkwfree_name n
    | LCompound _ ts => forallb lterm_kwfree ts
    | LSet _ ts _ => forallb lterm_kwfree ts
    | LStatement _ s p => lterm_kwfree s && lterm_kwfree p
    end.

  (* all names of a value; the name of a value whose term is a bare atom (what the item layer looks at) *)
  Definition lnames_kwfree (v : lnarsese) : bool := lterm_kwfree (top_term v).
  Definition top_atom_kwfree (t : lterm) : bool :=
    match t with LAtom _ n => lkwfree_name n | _ => true end.

  (* ---- the table checks ---- *)
  (* the prefix dictionary finds the atom's own prefix p: an entry q tried BEFORE p is prefix-incomparable
     with p (p non-empty), or non-empty (p empty: the text then starts with a keyword-free character, q with
     a keyword character) *)
  Fixpoint prefix_first_kw (dict : list str) : bool :=
    match dict with
    | [] => true
    | q :: rest =>
        forallb (fun p => match p with [] => nonempty q | _ => negb (compat q p) end) rest && prefix_first_kw rest
    end.

  (* term layer: the prefix dictionary; a copula has a first character (a keyword character: no copula
     starts inside a keyword-free name) *)
  Definition lex_kwfree_term_ok : bool :=
    prefix_first_kw (c_prefixes C) && forallb nonempty (c_copulas C).

  (* item layer, bare atoms: nothing is cut from the END of a keyword-free name -- the truth's closing
     bracket, a punctuation, a stamp's closing bracket are non-empty (their last character is a keyword
     character, the name's is not); a stamp form WITHOUT closing bracket (Han: 发生在 + digits) is found by a
     backward scan for its opening bracket, whose last character occurs in no atom prefix (nor in the name) *)
  Definition lex_kwfree_atoms_ok : bool :=
    nonempty (snd (l_truth_brackets L)) &&
    forallb nonempty (c_punctuations C) &&
    forallb (fun t => match snd t with
                      | [] => last_is (fun e => forallb (fun p => negb (memb e p)) (c_prefixes C)) (fst t)
                      | _ => true
                      end) (c_stamp_brackets C).
End LexKwfree.
