(* Run/C13Run.v -- evaluates Model/Number.v on the harness' cases and compares with what the
   implementation returned (correspondence check for C13). *)
From Coq Require Import ZArith List Bool.
Import ListNotations.
From Nv Require Export Model.Access Model.Number.
Open Scope Z_scope.

Inductive c13op :=
| OpTruthTry (l : list Z) | OpBudgetTry (l : list Z)
| OpTruthNew0 | OpTruthNew1 (f : Z) | OpTruthNew2 (f c : Z)
| OpBudgetNew0 | OpBudgetNew1 (p : Z) | OpBudgetNew2 (p d : Z) | OpBudgetNew3 (p d q : Z)
| OpEvident (x : Z) | OpZeroOne
(* values built directly through the public enum variants (no range check): every accessor on whatever is stored *)
| OpTruthVariant (l : list Z) | OpBudgetVariant (l : list Z).

(* canonical outcome: stored values and the outcome of every accessor *)
Inductive cout := COk (vals : list Z) (acc : list (res Z)) | CErr | CPanic.

Definition of_truth (r : res truth) : cout :=
  match r with
  | ROk t => COk (truth_values t) [truth_f t; truth_c t]
  | RErr => CErr
  | RPanic => CPanic
  end.
Definition of_budget (r : res budget) : cout :=
  match r with
  | ROk b => COk (budget_values b) [budget_p b; budget_d b; budget_q b; ROk (if budget_is_empty b then 1 else 0)]   (* Budget::is_empty as 0/1 *)
  | RErr => CErr
  | RPanic => CPanic
  end.

(* the variant with exactly these components; a list that is no variant is RErr (the harness never sends one) *)
Definition truth_variant (l : list Z) : res truth :=
  match l with
  | [] => ROk TrEmpty
  | [f] => ROk (TrSingle f)
  | [f; c] => ROk (TrDouble f c)
  | _ => RErr
  end.
Definition budget_variant (l : list Z) : res budget :=
  match l with
  | [] => ROk BuEmpty
  | [p] => ROk (BuSingle p)
  | [p; d] => ROk (BuDouble p d)
  | [p; d; q] => ROk (BuTriple p d q)
  | _ => RErr
  end.

Definition run (op : c13op) : cout :=
  match op with
  | OpTruthTry l => of_truth (truth_try_from_floats l)
  | OpBudgetTry l => of_budget (budget_try_from_floats l)
  | OpTruthNew0 => of_truth truth_new_empty
  | OpTruthNew1 f => of_truth (truth_new_single f)
  | OpTruthNew2 f c => of_truth (truth_new_double f c)
  | OpBudgetNew0 => of_budget budget_new_empty
  | OpBudgetNew1 p => of_budget (budget_new_single p)
  | OpBudgetNew2 p d => of_budget (budget_new_double p d)
  | OpBudgetNew3 p d q => of_budget (budget_new_triple p d q)
  | OpEvident x => COk [] [ROk (if en_is_valid x then 1 else 0); en_try_validate x; en_validate x]
  | OpZeroOne => COk [en_zero; en_one] []
  | OpTruthVariant l => of_truth (truth_variant l)
  | OpBudgetVariant l => of_budget (budget_variant l)
  end.

Definition res_eqb (a b : res Z) : bool :=
  match a, b with
  | ROk x, ROk y => Z.eqb x y
  | RErr, RErr | RPanic, RPanic => true
  | _, _ => false
  end.

Fixpoint leqb {A} (f : A -> A -> bool) (l l' : list A) : bool :=
  match l, l' with
  | [], [] => true
  | x :: l1, y :: l2 => f x y && leqb f l1 l2
  | _, _ => false
  end.

Definition cout_eqb (a b : cout) : bool :=
  match a, b with
  | COk v a1, COk v' a2 => leqb Z.eqb v v' && leqb res_eqb a1 a2
  | CErr, CErr | CPanic, CPanic => true
  | _, _ => false
  end.

(* indices (from 0) of the cases on which model and implementation differ *)
Fixpoint mismatches_from (i : N) (cases : list (c13op * cout)) : list N :=
  match cases with
  | [] => []
  | (op, expected) :: rest =>
      if cout_eqb (run op) expected then mismatches_from (N.succ i) rest
      else i :: mismatches_from (N.succ i) rest
  end.
Definition mismatches := mismatches_from 0%N.
