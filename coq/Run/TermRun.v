(* Run/TermRun.v -- correspondence runners for the term-level properties C06 C07 C14 C17:
   evaluate the models on the harness' cases and compare with what the implementation returned. *)
From Nv Require Export Model.Mutate.
Open Scope N_scope.

(* structural equality modulo the order of set payloads (independent of the eqk tables) *)
Fixpoint term_peqb (a b : term) {struct a} : bool :=
  match a, b with
  | TName c n, TName c' n' => name_ctor_eqb c c' && str_eqb n n'
  | TUnit c, TUnit c' => unit_ctor_eqb c c'
  | TNum c i, TNum c' i' => num_ctor_eqb c c' && N.eqb i i'
  | TSet c l, TSet c' l' =>
      set_ctor_eqb c c' && Nat.eqb (length l) (length l') &&
      forallb (fun k => existsb (fun e => term_peqb k e) l') l
  | TVec c l, TVec c' l' => vec_ctor_eqb c c' && list_eqb (fun x y => term_peqb x y) l l'
  | TImg c i l, TImg c' i' l' => img_ctor_eqb c c' && N.eqb i i' && list_eqb (fun x y => term_peqb x y) l l'
  | TBox1 c x, TBox1 c' x' => box1_ctor_eqb c c' && term_peqb x x'
  | TBox2 c x y, TBox2 c' x' y' => box2_ctor_eqb c c' && term_peqb x x' && term_peqb y y'
  | _, _ => false
  end.

Definition terms_peqb (l l' : list term) : bool := list_eqb term_peqb l l'.
(* same multiset up to term_peqb *)
Definition terms_perm_eqb (l l' : list term) : bool :=
  Nat.eqb (length l) (length l') && forallb (fun k => existsb (term_peqb k) l') l && forallb (fun k => existsb (term_peqb k) l) l'.

Definition is_set_node (t : term) : bool := match t with TSet _ _ => true | _ => false end.

Fixpoint mism {A} (chk : A -> bool) (i : N) (cases : list A) : list N :=
  match cases with
  | [] => []
  | c :: rest => if chk c then mism chk (N.succ i) rest else i :: mism chk (N.succ i) rest
  end.

(* ---- C06 ---- *)
Inductive c06case := C06 (a b : term) (impl_eq : bool).
Definition c06_check (c : c06case) : bool :=
  match c with C06 a b e => Bool.eqb (term_eqb a b) e && set_ok a && set_ok b end.
Definition mismatches_c06 := mism c06_check 0.

(* ---- C07 ---- *)
Fixpoint hitem_eqb (a b : hitem) : bool :=
  match a, b with
  | HStr s, HStr s' => str_eqb s s'
  | HNum n, HNum n' => N.eqb n n'
  | HSum n, HSum n' => N.eqb n n'
  | _, _ => false
  end.
Definition feed_eqb (a b : list hitem) : bool := list_eqb hitem_eqb a b.
Definition oracle (table : list (list hitem * N)) (feed : list hitem) : N :=
  match find (fun p => feed_eqb (fst p) feed) table with Some p => snd p | None => 0 end.
(* the implementation's recorded write stream of t.hash(), and DefaultHasher values of the unordered elements *)
Inductive c07case := C07 (t : term) (table : list (list hitem * N)) (impl_feed : list hitem).
Definition c07_check (c : c07case) : bool :=
  match c with C07 t table f => feed_eqb (term_feed (oracle table) t) f end.
Definition mismatches_c07 := mism c07_check 0.

(* ---- C14 ---- *)
Definition res_terms_eqb (perm : bool) (a b : res (list term)) : bool :=
  match a, b with
  | ROk l, ROk l' => if perm then terms_perm_eqb l l' else terms_peqb l l'
  | RErr, RErr | RPanic, RPanic => true
  | _, _ => false
  end.
Definition cat_index (c : category) : N := match c with CatAtom => 0 | CatCompound => 1 | CatStatement => 2 end.
Definition cap_index (c : capacity) : N :=
  match c with CapAtom => 0 | CapUnary => 1 | CapBinaryVec => 2 | CapBinarySet => 3 | CapVec => 4 | CapSet => 5 end.
Definition ostr_eqb (a b : option str) : bool :=
  match a, b with Some x, Some y => str_eqb x y | None, None => true | _, _ => false end.
Inductive c14case :=
  C14 (t : term) (extract : res (list term)) (comps comps_incl : list term) (compound : option (list term))
      (cat cap : N) (name : option str).
Definition c14_check (c : c14case) : bool :=
  match c with
  | C14 t ex co ci cc cat cap nm =>
      let p := is_set_node t in
      res_terms_eqb p (extract_terms t) ex &&
      (if p then terms_perm_eqb (get_components t) co else terms_peqb (get_components t) co) &&
      (if p then terms_perm_eqb (get_components_incl t) ci else terms_peqb (get_components_incl t) ci) &&
      match get_compound_components t, cc with
      | Some l, Some l' => if p then terms_perm_eqb l l' else terms_peqb l l'
      | None, None => true
      | _, _ => false
      end &&
      N.eqb (cat_index (category_of t)) cat && N.eqb (cap_index (capacity_of t)) cap &&
      match get_atom_name t with ROk o => ostr_eqb o nm | _ => false end
  end.
Definition mismatches_c14 := mism c14_check 0.

(* ---- C17 ---- *)
Inductive c17op := OpSetName (n : str) | OpPush (news : list term).
Inductive c17case := C17 (t : term) (op : c17op) (impl_ok : bool) (after : term) (name_after : option str).
Definition c17_check (c : c17case) : bool :=
  match c with
  | C17 t op ok after nm =>
      let '(ok', t') := match op with OpSetName n => set_atom_name t n | OpPush news => push_components t news end in
      Bool.eqb ok ok' && term_peqb t' after &&
      match get_atom_name t' with ROk o => ostr_eqb o nm | _ => false end
  end.
Definition mismatches_c17 := mism c17_check 0.
